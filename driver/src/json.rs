//! Minimal JSON value + writer (no dependencies).
pub enum J {
    Null,
    Bool(bool),
    Int(i128),
    Str(String),
    Arr(Vec<J>),
    Obj(Vec<(String, J)>),
}

impl J {
    pub fn obj(kv: Vec<(&str, J)>) -> J {
        J::Obj(kv.into_iter().map(|(k, v)| (k.to_string(), v)).collect())
    }
    pub fn write(&self, out: &mut String) {
        match self {
            J::Null => out.push_str("null"),
            J::Bool(b) => out.push_str(if *b { "true" } else { "false" }),
            J::Int(i) => out.push_str(&i.to_string()),
            J::Str(s) => write_str(s, out),
            J::Arr(a) => {
                out.push('[');
                for (i, x) in a.iter().enumerate() {
                    if i > 0 {
                        out.push(',');
                    }
                    x.write(out);
                }
                out.push(']');
            }
            J::Obj(kv) => {
                out.push('{');
                for (i, (k, v)) in kv.iter().enumerate() {
                    if i > 0 {
                        out.push(',');
                    }
                    write_str(k, out);
                    out.push(':');
                    v.write(out);
                }
                out.push('}');
            }
        }
    }
}

fn write_str(s: &str, out: &mut String) {
    out.push('"');
    for c in s.chars() {
        match c {
            '"' => out.push_str("\\\""),
            '\\' => out.push_str("\\\\"),
            '\n' => out.push_str("\\n"),
            '\r' => out.push_str("\\r"),
            '\t' => out.push_str("\\t"),
            c if (c as u32) < 0x20 => out.push_str(&format!("\\u{:04x}", c as u32)),
            c => out.push(c),
        }
    }
    out.push('"');
}
