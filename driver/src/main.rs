//! l21facts — rustc_private driver that dumps type-checked program facts (ADTs, impls, MIR with
//! resolved callees, expanded-AST attributes) of each workspace crate as one JSON file.
//! Invoked through RUSTC_WORKSPACE_WRAPPER: argv[1] is the real rustc path and is dropped.
//! Output directory: env L21FACTS_OUT (required). One file per compiled crate: <crate>.<kind>.json
#![feature(rustc_private)]
#![allow(clippy::all)]

extern crate rustc_abi;
extern crate rustc_ast;
extern crate rustc_ast_pretty;
extern crate rustc_driver;
extern crate rustc_hir;
extern crate rustc_interface;
extern crate rustc_middle;
extern crate rustc_session;
extern crate rustc_span;

mod json;
use json::J;

use rustc_driver::{Callbacks, Compilation};
use rustc_hir::def::DefKind;
use rustc_hir::def_id::{DefId, LOCAL_CRATE};
use rustc_hir::definitions::DefPathData;
use rustc_interface::interface::Compiler;
use rustc_middle::mir::{self, *};
use rustc_middle::ty::{self, print::with_no_trimmed_paths, print::PrintTraitRefExt, Ty, TyCtxt};
use rustc_span::Span;
use std::collections::BTreeMap;

struct Dumper {
    ast: J,
}

fn main() {
    let mut args: Vec<String> = std::env::args().collect();
    // RUSTC_WORKSPACE_WRAPPER passes the rustc path as argv[1]
    if args.len() > 1 && (args[1].ends_with("rustc") || args[1].contains("/rustc")) {
        args.remove(1);
    }
    let mut d = Dumper { ast: J::Null };
    rustc_driver::run_compiler(&args, &mut d);
}

// ---------------------------------------------------------------------------------------------
// AST attributes (serde helper attributes are only visible here)
// ---------------------------------------------------------------------------------------------
fn attrs_json(attrs: &[rustc_ast::Attribute]) -> J {
    J::Arr(
        attrs
            .iter()
            .filter(|a| !a.is_doc_comment())
            .map(|a| J::Str(rustc_ast_pretty::pprust::attribute_to_string(a)))
            .collect(),
    )
}
fn ast_fields(vd: &rustc_ast::VariantData) -> J {
    J::Arr(
        vd.fields()
            .iter()
            .enumerate()
            .map(|(i, f)| {
                J::obj(vec![
                    ("name", J::Str(f.ident.map(|i| i.name.to_string()).unwrap_or(i.to_string()))),
                    ("ty", J::Str(rustc_ast_pretty::pprust::ty_to_string(&f.ty))),
                    ("attrs", attrs_json(&f.attrs)),
                ])
            })
            .collect(),
    )
}
fn ast_items(items: &[Box<rustc_ast::Item>], path: &str, out: &mut Vec<J>) {
    use rustc_ast::{ItemKind, ModKind};
    for it in items {
        match &it.kind {
            ItemKind::Struct(ident, _, vd) => {
                out.push(J::obj(vec![
                    ("path", J::Str(format!("{}::{}", path, ident.name))),
                    ("kind", J::Str("struct".into())),
                    ("attrs", attrs_json(&it.attrs)),
                    ("fields", ast_fields(vd)),
                ]));
            }
            ItemKind::Enum(ident, _, ed) => {
                let vs = ed
                    .variants
                    .iter()
                    .map(|v| {
                        J::obj(vec![
                            ("name", J::Str(v.ident.name.to_string())),
                            ("attrs", attrs_json(&v.attrs)),
                            ("fields", ast_fields(&v.data)),
                        ])
                    })
                    .collect();
                out.push(J::obj(vec![
                    ("path", J::Str(format!("{}::{}", path, ident.name))),
                    ("kind", J::Str("enum".into())),
                    ("attrs", attrs_json(&it.attrs)),
                    ("variants", J::Arr(vs)),
                ]));
            }
            ItemKind::Mod(_, ident, ModKind::Loaded(sub, ..)) => {
                ast_items(sub, &format!("{}::{}", path, ident.name), out);
            }
            _ => {}
        }
    }
}

// ---------------------------------------------------------------------------------------------
// helpers
// ---------------------------------------------------------------------------------------------
struct Cx<'tcx> {
    tcx: TyCtxt<'tcx>,
    enums: BTreeMap<String, DefId>,
}

fn def_id_str(tcx: TyCtxt<'_>, did: DefId) -> String {
    let krate = tcx.crate_name(did.krate);
    format!("{}{}", krate, tcx.def_path(did).to_string_no_crate_verbose())
}
fn def_name(tcx: TyCtxt<'_>, did: DefId) -> String {
    with_no_trimmed_paths!(tcx.def_path_str(did))
}

impl<'tcx> Cx<'tcx> {
    fn span(&self, sp: Span) -> J {
        let sm = self.tcx.sess.source_map();
        let exp = sp.from_expansion();
        // use the outermost call-site for expanded code so the location is in user source
        let sp2 = if exp { sp.source_callsite() } else { sp };
        let lo = sm.lookup_char_pos(sp2.lo());
        let file = match &lo.file.name {
            rustc_span::FileName::Real(r) => r
                .local_path()
                .map(|p| p.to_string_lossy().to_string())
                .unwrap_or_else(|| format!("{:?}", lo.file.name)),
            o => format!("{:?}", o),
        };
        J::Arr(vec![J::Str(file), J::Int(lo.line as i128), J::Bool(exp)])
    }

    fn ty(&mut self, t: Ty<'tcx>, depth: u32) -> J {
        let s = with_no_trimmed_paths!(format!("{}", t));
        if depth > 6 {
            return J::obj(vec![("s", J::Str(s))]);
        }
        match t.kind() {
            ty::Adt(adt, args) => {
                if adt.is_enum() {
                    self.enums.insert(def_id_str(self.tcx, adt.did()), adt.did());
                }
                let a: Vec<J> = args.iter().filter_map(|g| g.as_type()).map(|t| self.ty(t, depth + 1)).collect();
                J::obj(vec![("k", J::Str("adt".into())), ("id", J::Str(def_id_str(self.tcx, adt.did()))), ("args", J::Arr(a)), ("s", J::Str(s))])
            }
            ty::Ref(_, inner, m) => J::obj(vec![("k", J::Str("ref".into())), ("mut", J::Bool(m.is_mut())), ("to", self.ty(*inner, depth + 1)), ("s", J::Str(s))]),
            ty::RawPtr(inner, m) => J::obj(vec![("k", J::Str("ptr".into())), ("mut", J::Bool(m.is_mut())), ("to", self.ty(*inner, depth + 1)), ("s", J::Str(s))]),
            ty::Tuple(ts) => {
                let a: Vec<J> = ts.iter().map(|t| self.ty(t, depth + 1)).collect();
                J::obj(vec![("k", J::Str("tuple".into())), ("args", J::Arr(a)), ("s", J::Str(s))])
            }
            ty::Array(inner, n) => {
                let len = n.try_to_target_usize(self.tcx).map(|v| J::Int(v as i128)).unwrap_or(J::Null);
                J::obj(vec![("k", J::Str("array".into())), ("to", self.ty(*inner, depth + 1)), ("len", len), ("s", J::Str(s))])
            }
            ty::Slice(inner) => J::obj(vec![("k", J::Str("slice".into())), ("to", self.ty(*inner, depth + 1)), ("s", J::Str(s))]),
            ty::Closure(did, _) => J::obj(vec![("k", J::Str("closure".into())), ("id", J::Str(def_id_str(self.tcx, *did))), ("s", J::Str(s))]),
            ty::FnDef(did, _) => J::obj(vec![("k", J::Str("fndef".into())), ("id", J::Str(def_id_str(self.tcx, *did))), ("s", J::Str(s))]),
            ty::Param(_) => J::obj(vec![("k", J::Str("param".into())), ("s", J::Str(s))]),
            ty::Bool | ty::Char | ty::Int(_) | ty::Uint(_) | ty::Float(_) | ty::Str | ty::Never => J::obj(vec![("k", J::Str("prim".into())), ("s", J::Str(s))]),
            _ => J::obj(vec![("k", J::Str("other".into())), ("s", J::Str(s))]),
        }
    }

    fn place(&mut self, body: &Body<'tcx>, p: &Place<'tcx>) -> J {
        let mut proj = Vec::new();
        let mut pty = mir::PlaceTy::from_ty(body.local_decls[p.local].ty);
        for elem in p.projection.iter() {
            let j = match elem {
                ProjectionElem::Deref => J::Str("*".into()),
                ProjectionElem::Field(f, _) => {
                    let mut name = format!("{}", f.index());
                    if let ty::Adt(adt, _) = pty.ty.kind() {
                        let vi = pty.variant_index.unwrap_or(rustc_abi::FIRST_VARIANT);
                        if adt.is_enum() || adt.is_struct() || adt.is_union() {
                            if let Some(v) = adt.variants().get(vi) {
                                if let Some(fd) = v.fields.get(f) {
                                    name = fd.name.to_string();
                                }
                            }
                        }
                    }
                    J::obj(vec![("f", J::Int(f.index() as i128)), ("n", J::Str(name))])
                }
                ProjectionElem::Index(l) => J::obj(vec![("ix", J::Int(l.index() as i128))]),
                ProjectionElem::ConstantIndex { offset, from_end, .. } => {
                    J::obj(vec![("ci", J::Int(offset as i128)), ("fe", J::Bool(from_end))])
                }
                ProjectionElem::Subslice { from, to, from_end } => {
                    J::obj(vec![("sub", J::Arr(vec![J::Int(from as i128), J::Int(to as i128)])), ("fe", J::Bool(from_end))])
                }
                ProjectionElem::Downcast(name, vi) => {
                    let mut n = name.map(|s| s.to_string()).unwrap_or_default();
                    if let ty::Adt(adt, _) = pty.ty.kind() {
                        if adt.is_enum() {
                            self.enums.insert(def_id_str(self.tcx, adt.did()), adt.did());
                            n = adt.variant(vi).name.to_string();
                        }
                    }
                    J::obj(vec![("dc", J::Str(n)), ("vi", J::Int(vi.index() as i128))])
                }
                ProjectionElem::OpaqueCast(_) => J::Str("opaque".into()),
                ProjectionElem::UnwrapUnsafeBinder(_) => J::Str("unbind".into()),
            };
            proj.push(j);
            pty = pty.projection_ty(self.tcx, elem);
        }
        J::obj(vec![("l", J::Int(p.local.index() as i128)), ("p", J::Arr(proj))])
    }

    fn place_ty(&mut self, body: &Body<'tcx>, p: &Place<'tcx>) -> Ty<'tcx> {
        p.ty(&body.local_decls, self.tcx).ty
    }

    fn const_bytes(&self, c: &mir::Const<'tcx>, did: DefId) -> Option<Vec<u8>> {
        // for `&[u8; N]` / `&str` / `&[u8]` constants: the pointee bytes
        let tcx = self.tcx;
        let env = ty::TypingEnv::post_analysis(tcx, did);
        let val = c.eval(tcx, env, rustc_span::DUMMY_SP).ok()?;
        let t = c.ty();
        let inner = match t.kind() {
            ty::Ref(_, inner, _) => *inner,
            _ => return None,
        };
        match inner.kind() {
            ty::Str => val.try_get_slice_bytes_for_diagnostics(tcx).map(|b| b.to_vec()),
            ty::Slice(e) if *e == tcx.types.u8 => val.try_get_slice_bytes_for_diagnostics(tcx).map(|b| b.to_vec()),
            ty::Array(e, n) if *e == tcx.types.u8 => {
                let n = n.try_to_target_usize(tcx)?;
                let sc = val.try_to_scalar()?;
                let ptr = sc.to_pointer(&tcx).discard_err()?;
                let (prov, off) = ptr.into_raw_parts();
                let alloc_id = prov?.alloc_id();
                let alloc = tcx.global_alloc(alloc_id);
                let mem = match alloc {
                    mir::interpret::GlobalAlloc::Memory(m) => m,
                    _ => return None,
                };
                let a = mem.inner();
                let start = off.bytes() as usize;
                let end = start + n as usize;
                if end > a.len() {
                    return None;
                }
                Some(a.inspect_with_uninit_and_ptr_outside_interpreter(start..end).to_vec())
            }
            _ => None,
        }
    }

    fn constant(&mut self, c: &ConstOperand<'tcx>, did: DefId) -> J {
        let tcx = self.tcx;
        let t = c.const_.ty();
        let mut kv: Vec<(&str, J)> = Vec::new();
        let pretty = with_no_trimmed_paths!(format!("{}", c.const_));
        kv.push(("s", J::Str(truncate(&pretty, 400))));
        kv.push(("ty", self.ty(t, 3)));
        if let ty::FnDef(fid, args) = t.kind() {
            kv.push(("fn", J::Str(def_id_str(tcx, *fid))));
            kv.push(("fname", J::Str(def_name(tcx, *fid))));
            let ga: Vec<J> = args.iter().map(|g| J::Str(with_no_trimmed_paths!(format!("{}", g)))).collect();
            kv.push(("gargs", J::Arr(ga)));
            let env = ty::TypingEnv::post_analysis(tcx, did);
            if let Ok(Some(inst)) = ty::Instance::try_resolve(tcx, env, *fid, args) {
                let rid = inst.def_id();
                kv.push(("res", J::Str(def_id_str(tcx, rid))));
                kv.push(("rname", J::Str(def_name(tcx, rid))));
                let ra: Vec<J> = inst.args.iter().map(|g| J::Str(with_no_trimmed_paths!(format!("{}", g)))).collect();
                kv.push(("rargs", J::Arr(ra)));
            }
        } else {
            let env = ty::TypingEnv::post_analysis(tcx, did);
            let is_scalar_ty = matches!(t.kind(), ty::Bool | ty::Char | ty::Int(_) | ty::Uint(_) | ty::Adt(..));
            if is_scalar_ty {
                if let Some(si) = c.const_.try_eval_scalar_int(tcx, env) {
                    let sz = si.size();
                    if sz.bytes() > 0 {
                        let bits = si.to_bits(sz);
                        let v: i128 = if let ty::Int(_) = t.kind() { sz.sign_extend(bits) as i128 } else { bits as i128 };
                        kv.push(("int", J::Int(v)));
                    }
                }
            }
            if let ty::Float(_) = t.kind() {
                if let Some(si) = c.const_.try_eval_scalar_int(tcx, env) {
                    let sz = si.size();
                    let bits = si.to_bits(sz);
                    let f = if sz.bytes() == 8 { f64::from_bits(bits as u64) } else { f32::from_bits(bits as u32) as f64 };
                    kv.push(("float", J::Str(format!("{:?}", f))));
                }
            }
            if let Some(b) = self.const_bytes(&c.const_, did) {
                if b.len() <= 4096 {
                    match std::str::from_utf8(&b) {
                        Ok(s) if matches!(t.kind(), ty::Ref(_, i, _) if i.is_str()) => kv.push(("str", J::Str(s.to_string()))),
                        _ => kv.push(("bytes", J::Arr(b.iter().map(|x| J::Int(*x as i128)).collect()))),
                    }
                }
            }
            // references to statics: `&STATIC` is a pointer constant into a static allocation
            if matches!(t.kind(), ty::Ref(..) | ty::RawPtr(..)) {
                if let Ok(val) = c.const_.eval(tcx, env, rustc_span::DUMMY_SP) {
                    if let Some(sc) = val.try_to_scalar() {
                        if let Some(ptr) = sc.to_pointer(&tcx).discard_err() {
                            let (prov, _off) = ptr.into_raw_parts();
                            if let Some(p) = prov {
                                if let mir::interpret::GlobalAlloc::Static(sdid) = tcx.global_alloc(p.alloc_id()) {
                                    kv.push(("static", J::Str(def_id_str(tcx, sdid))));
                                }
                            }
                        }
                    }
                }
            }
            if let mir::Const::Unevaluated(uv, _) = c.const_ {
                kv.push(("uneval", J::Str(def_id_str(tcx, uv.def))));
                if let Some(p) = uv.promoted {
                    kv.push(("promoted", J::Int(p.index() as i128)));
                }
            }
        }
        J::obj(vec![("c", J::obj(kv))])
    }

    fn operand(&mut self, body: &Body<'tcx>, o: &Operand<'tcx>, did: DefId) -> J {
        match o {
            Operand::Copy(p) => J::obj(vec![("cp", self.place(body, p))]),
            Operand::Move(p) => J::obj(vec![("mv", self.place(body, p))]),
            Operand::Constant(c) => self.constant(c, did),
            _ => J::obj(vec![("rt", J::Str(format!("{:?}", o)))]),
        }
    }

    fn rvalue(&mut self, body: &Body<'tcx>, rv: &Rvalue<'tcx>, did: DefId) -> J {
        let tcx = self.tcx;
        match rv {
            Rvalue::Use(o, ..) => J::obj(vec![("k", J::Str("use".into())), ("o", self.operand(body, o, did))]),
            Rvalue::Repeat(o, n) => J::obj(vec![
                ("k", J::Str("repeat".into())),
                ("o", self.operand(body, o, did)),
                ("n", n.try_to_target_usize(tcx).map(|v| J::Int(v as i128)).unwrap_or(J::Null)),
            ]),
            Rvalue::Ref(_, bk, p) => J::obj(vec![
                ("k", J::Str("ref".into())),
                ("mut", J::Bool(matches!(bk, BorrowKind::Mut { .. }))),
                ("p", self.place(body, p)),
            ]),
            Rvalue::RawPtr(_, p) => J::obj(vec![("k", J::Str("rawptr".into())), ("p", self.place(body, p))]),
            Rvalue::ThreadLocalRef(d) => J::obj(vec![("k", J::Str("tls".into())), ("id", J::Str(def_id_str(tcx, *d)))]),
            Rvalue::Cast(ck, o, t) => J::obj(vec![
                ("k", J::Str("cast".into())),
                ("ck", J::Str(format!("{:?}", ck))),
                ("o", self.operand(body, o, did)),
                ("from", { let ft = o.ty(&body.local_decls, tcx); self.ty(ft, 3) }),
                ("to", self.ty(*t, 3)),
            ]),
            Rvalue::BinaryOp(op, b) => J::obj(vec![
                ("k", J::Str("bin".into())),
                ("op", J::Str(format!("{:?}", op))),
                ("l", self.operand(body, &b.0, did)),
                ("r", self.operand(body, &b.1, did)),
            ]),
            Rvalue::UnaryOp(op, o) => J::obj(vec![
                ("k", J::Str("un".into())),
                ("op", J::Str(format!("{:?}", op))),
                ("o", self.operand(body, o, did)),
            ]),
            Rvalue::Discriminant(p) => {
                let pt = self.place_ty(body, p);
                J::obj(vec![("k", J::Str("discr".into())), ("p", self.place(body, p)), ("ty", self.ty(pt, 3))])
            }
            Rvalue::Aggregate(kind, ops) => {
                let o: Vec<J> = ops.iter().map(|o| self.operand(body, o, did)).collect();
                let mut kv = vec![("k", J::Str("agg".into())), ("ops", J::Arr(o))];
                match &**kind {
                    AggregateKind::Array(_) => kv.push(("ak", J::Str("array".into()))),
                    AggregateKind::Tuple => kv.push(("ak", J::Str("tuple".into()))),
                    AggregateKind::Adt(adid, vi, _, _, active) => {
                        let adt = tcx.adt_def(*adid);
                        if adt.is_enum() {
                            self.enums.insert(def_id_str(tcx, *adid), *adid);
                        }
                        kv.push(("ak", J::Str("adt".into())));
                        kv.push(("id", J::Str(def_id_str(tcx, *adid))));
                        let v = adt.variant(*vi);
                        kv.push(("variant", J::Str(v.name.to_string())));
                        kv.push(("vi", J::Int(vi.index() as i128)));
                        let fns: Vec<J> = v.fields.iter().map(|f| J::Str(f.name.to_string())).collect();
                        kv.push(("fields", J::Arr(fns)));
                        if let Some(a) = active {
                            kv.push(("active", J::Int(a.index() as i128)));
                        }
                    }
                    AggregateKind::Closure(cid, _) => {
                        kv.push(("ak", J::Str("closure".into())));
                        kv.push(("id", J::Str(def_id_str(tcx, *cid))));
                    }
                    AggregateKind::RawPtr(..) => kv.push(("ak", J::Str("rawptr".into()))),
                    _ => kv.push(("ak", J::Str("other".into()))),
                }
                J::obj(kv)
            }
            Rvalue::CopyForDeref(p) => J::obj(vec![("k", J::Str("use".into())), ("o", J::obj(vec![("cp", self.place(body, p))]))]),
            _ => J::obj(vec![("k", J::Str("other".into())), ("s", J::Str(format!("{:?}", rv)))]),
        }
    }

    fn body(&mut self, body: &Body<'tcx>, did: DefId) -> J {
        let tcx = self.tcx;
        let mut names: BTreeMap<usize, String> = BTreeMap::new();
        for vdi in &body.var_debug_info {
            if let VarDebugInfoContents::Place(p) = &vdi.value {
                if p.projection.is_empty() {
                    names.entry(p.local.index()).or_insert(vdi.name.to_string());
                }
            }
        }
        let locals: Vec<J> = body
            .local_decls
            .iter_enumerated()
            .map(|(l, d)| {
                let mut kv = vec![("ty", self.ty(d.ty, 0))];
                if let Some(n) = names.get(&l.index()) {
                    kv.push(("n", J::Str(n.clone())));
                }
                J::obj(kv)
            })
            .collect();
        let mut blocks = Vec::new();
        for (_bb, data) in body.basic_blocks.iter_enumerated() {
            let mut stmts = Vec::new();
            for st in &data.statements {
                match &st.kind {
                    StatementKind::Assign(b) => {
                        let (p, rv) = &**b;
                        stmts.push(J::obj(vec![
                            ("k", J::Str("assign".into())),
                            ("p", self.place(body, p)),
                            ("rv", self.rvalue(body, rv, did)),
                            ("sp", self.span(st.source_info.span)),
                        ]));
                    }
                    StatementKind::SetDiscriminant { place, variant_index } => {
                        let pt = self.place_ty(body, place);
                        let mut vn = String::new();
                        if let ty::Adt(adt, _) = pt.kind() {
                            if adt.is_enum() {
                                vn = adt.variant(*variant_index).name.to_string();
                            }
                        }
                        stmts.push(J::obj(vec![
                            ("k", J::Str("setdiscr".into())),
                            ("p", self.place(body, place)),
                            ("variant", J::Str(vn)),
                        ]));
                    }
                    _ => {}
                }
            }
            let term = data.terminator();
            let sp = self.span(term.source_info.span);
            let unwind_bb = |u: &UnwindAction| match u {
                UnwindAction::Cleanup(b) => J::Int(b.index() as i128),
                _ => J::Null,
            };
            let t = match &term.kind {
                TerminatorKind::Goto { target } => J::obj(vec![("k", J::Str("goto".into())), ("t", J::Int(target.index() as i128))]),
                TerminatorKind::SwitchInt { discr, targets } => {
                    let arms: Vec<J> = targets.iter().map(|(v, b)| J::Arr(vec![J::Int(v as i128), J::Int(b.index() as i128)])).collect();
                    let dt = discr.ty(&body.local_decls, tcx);
                    J::obj(vec![
                        ("k", J::Str("switch".into())),
                        ("on", self.operand(body, discr, did)),
                        ("ty", J::Str(format!("{}", dt))),
                        ("arms", J::Arr(arms)),
                        ("else", J::Int(targets.otherwise().index() as i128)),
                    ])
                }
                TerminatorKind::Return => J::obj(vec![("k", J::Str("return".into()))]),
                TerminatorKind::Unreachable => J::obj(vec![("k", J::Str("unreachable".into()))]),
                TerminatorKind::UnwindResume => J::obj(vec![("k", J::Str("resume".into()))]),
                TerminatorKind::UnwindTerminate(_) => J::obj(vec![("k", J::Str("abort".into()))]),
                TerminatorKind::Drop { place, target, unwind, .. } => J::obj(vec![
                    ("k", J::Str("drop".into())),
                    ("p", self.place(body, place)),
                    ("t", J::Int(target.index() as i128)),
                    ("uw", unwind_bb(unwind)),
                ]),
                TerminatorKind::Call { func, args, destination, target, unwind, fn_span, .. } => {
                    let a: Vec<J> = args.iter().map(|a| self.operand(body, &a.node, did)).collect();
                    J::obj(vec![
                        ("k", J::Str("call".into())),
                        ("f", self.operand(body, func, did)),
                        ("args", J::Arr(a)),
                        ("dest", self.place(body, destination)),
                        ("t", target.map(|b| J::Int(b.index() as i128)).unwrap_or(J::Null)),
                        ("uw", unwind_bb(unwind)),
                        ("fsp", self.span(*fn_span)),
                    ])
                }
                TerminatorKind::TailCall { func, args, .. } => {
                    let a: Vec<J> = args.iter().map(|a| self.operand(body, &a.node, did)).collect();
                    J::obj(vec![("k", J::Str("tailcall".into())), ("f", self.operand(body, func, did)), ("args", J::Arr(a))])
                }
                TerminatorKind::Assert { cond, expected, msg, target, unwind } => {
                    let (kind, ops): (String, Vec<&Operand<'tcx>>) = match &**msg {
                        AssertKind::BoundsCheck { len, index } => ("BoundsCheck".into(), vec![len, index]),
                        AssertKind::Overflow(op, l, r) => (format!("Overflow({:?})", op), vec![l, r]),
                        AssertKind::OverflowNeg(o) => ("OverflowNeg".into(), vec![o]),
                        AssertKind::DivisionByZero(o) => ("DivisionByZero".into(), vec![o]),
                        AssertKind::RemainderByZero(o) => ("RemainderByZero".into(), vec![o]),
                        other => (format!("{:?}", other).split('(').next().unwrap_or("Other").split(' ').next().unwrap_or("Other").to_string(), vec![]),
                    };
                    let o: Vec<J> = ops.iter().map(|o| self.operand(body, o, did)).collect();
                    J::obj(vec![
                        ("k", J::Str("assert".into())),
                        ("kind", J::Str(kind)),
                        ("cond", self.operand(body, cond, did)),
                        ("expected", J::Bool(*expected)),
                        ("ops", J::Arr(o)),
                        ("t", J::Int(target.index() as i128)),
                        ("uw", unwind_bb(unwind)),
                    ])
                }
                TerminatorKind::FalseEdge { real_target, .. } => J::obj(vec![("k", J::Str("goto".into())), ("t", J::Int(real_target.index() as i128))]),
                TerminatorKind::FalseUnwind { real_target, .. } => J::obj(vec![("k", J::Str("goto".into())), ("t", J::Int(real_target.index() as i128))]),
                other => J::obj(vec![("k", J::Str("other".into())), ("s", J::Str(truncate(&format!("{:?}", other), 200)))]),
            };
            blocks.push(J::obj(vec![
                ("cleanup", J::Bool(data.is_cleanup)),
                ("st", J::Arr(stmts)),
                ("term", t),
                ("sp", sp),
            ]));
        }
        J::obj(vec![
            ("argc", J::Int(body.arg_count as i128)),
            ("locals", J::Arr(locals)),
            ("blocks", J::Arr(blocks)),
        ])
    }
}

fn truncate(s: &str, n: usize) -> String {
    if s.len() <= n {
        s.to_string()
    } else {
        let mut e = n;
        while !s.is_char_boundary(e) {
            e -= 1;
        }
        format!("{}…", &s[..e])
    }
}

fn in_anon_const(tcx: TyCtxt<'_>, did: DefId) -> bool {
    // serde / schemars derives wrap their impls in `const _: () = { .. }`
    let dp = tcx.def_path(did);
    dp.data.iter().any(|d| match d.data {
        DefPathData::ValueNs(s) => s.as_str() == "_",
        _ => false,
    })
}

impl Callbacks for Dumper {
    fn after_expansion<'tcx>(&mut self, _c: &Compiler, tcx: TyCtxt<'tcx>) -> Compilation {
        let name = tcx.crate_name(LOCAL_CRATE).to_string();
        if std::env::var("L21FACTS_OUT").is_err() || name.starts_with("build_script") {
            return Compilation::Continue;
        }
        let r = tcx.resolver_for_lowering().borrow();
        let krate = &r.1;
        let mut out = Vec::new();
        ast_items(&krate.items, &name, &mut out);
        self.ast = J::Arr(out);
        Compilation::Continue
    }

    fn after_analysis<'tcx>(&mut self, _c: &Compiler, tcx: TyCtxt<'tcx>) -> Compilation {
        let outdir = match std::env::var("L21FACTS_OUT") {
            Ok(d) => d,
            Err(_) => return Compilation::Continue,
        };
        let name = tcx.crate_name(LOCAL_CRATE).to_string();
        if name.starts_with("build_script") {
            return Compilation::Continue;
        }
        let kind = if tcx.crate_types().iter().any(|t| matches!(t, rustc_session::config::CrateType::Executable)) { "bin" } else { "lib" };
        let mut cx = Cx { tcx, enums: BTreeMap::new() };

        // ---- ADTs, impls
        let mut adts = Vec::new();
        let mut impls = Vec::new();
        for id in tcx.hir_free_items() {
            let did = id.owner_id.to_def_id();
            match tcx.def_kind(did) {
                DefKind::Struct | DefKind::Enum => {
                    let adt = tcx.adt_def(did);
                    let mut variants = Vec::new();
                    for (vi, v) in adt.variants().iter_enumerated() {
                        let discr = if adt.is_enum() { J::Int(adt.discriminant_for_variant(tcx, vi).val as i128) } else { J::Null };
                        let fields: Vec<J> = v
                            .fields
                            .iter()
                            .map(|f| {
                                let ft = tcx.type_of(f.did).instantiate_identity().skip_norm_wip();
                                J::obj(vec![("name", J::Str(f.name.to_string())), ("ty", cx.ty(ft, 0)), ("pub", J::Bool(f.vis.is_public()))])
                            })
                            .collect();
                        variants.push(J::obj(vec![("name", J::Str(v.name.to_string())), ("discr", discr), ("fields", J::Arr(fields))]));
                    }
                    adts.push(J::obj(vec![
                        ("id", J::Str(def_id_str(tcx, did))),
                        ("name", J::Str(def_name(tcx, did))),
                        ("kind", J::Str(if adt.is_enum() { "enum" } else { "struct" }.into())),
                        ("variants", J::Arr(variants)),
                        ("sp", cx.span(tcx.def_span(did))),
                        ("anon", J::Bool(in_anon_const(tcx, did))),
                    ]));
                }
                _ => {}
            }
        }
        // impls (including those nested in anonymous consts): walk all local def ids
        for ldid in tcx.hir_crate_items(()).definitions() {
            let did = ldid.to_def_id();
            if let DefKind::Impl { of_trait } = tcx.def_kind(did) {
                let self_ty = tcx.type_of(did).instantiate_identity().skip_norm_wip();
                let tr = if of_trait {
                    let tr = tcx.impl_trait_ref(did).instantiate_identity().skip_norm_wip();
                    J::Str(with_no_trimmed_paths!(format!("{}", tr.print_only_trait_path())))
                } else {
                    J::Null
                };
                let items: Vec<J> = tcx.associated_item_def_ids(did).iter().map(|d| J::Str(def_id_str(tcx, *d))).collect();
                impls.push(J::obj(vec![
                    ("id", J::Str(def_id_str(tcx, did))),
                    ("trait", tr),
                    ("self", cx.ty(self_ty, 0)),
                    ("items", J::Arr(items)),
                    ("anon", J::Bool(in_anon_const(tcx, did))),
                ]));
            }
        }

        // ---- function bodies
        let mut fns = Vec::new();
        for ldid in tcx.mir_keys(()) {
            let did = ldid.to_def_id();
            let dk = tcx.def_kind(did);
            if !matches!(dk, DefKind::Fn | DefKind::AssocFn | DefKind::Closure) {
                continue;
            }
            if in_anon_const(tcx, did) {
                continue;
            }
            // impl / trait context
            let root = tcx.typeck_root_def_id(did);
            let mut impl_of = J::Null;
            let mut trait_of = J::Null;
            let mut self_ty = J::Null;
            let mut skip = false;
            if let Some(parent) = tcx.opt_parent(root) {
                match tcx.def_kind(parent) {
                    DefKind::Impl { of_trait } => {
                        impl_of = J::Str(def_id_str(tcx, parent));
                        let st = tcx.type_of(parent).instantiate_identity().skip_norm_wip();
                        self_ty = cx.ty(st, 1);
                        if of_trait {
                            let tr = tcx.impl_trait_ref(parent).instantiate_identity().skip_norm_wip();
                            let tn = with_no_trimmed_paths!(format!("{}", tr.print_only_trait_path()));
                            if tn.starts_with("serde::") || tn.starts_with("schemars::") || tn == "core::fmt::Debug" || tn == "std::fmt::Debug" {
                                skip = true;
                            }
                            trait_of = J::Str(tn);
                        }
                    }
                    DefKind::Trait => {
                        trait_of = J::Str(def_name(tcx, parent));
                    }
                    _ => {}
                }
            }
            if skip {
                continue;
            }
            let body = tcx.optimized_mir(did);
            let mut kv = vec![
                ("id", J::Str(def_id_str(tcx, did))),
                ("name", J::Str(def_name(tcx, did))),
                ("kind", J::Str(format!("{:?}", dk))),
                ("impl", impl_of),
                ("trait", trait_of),
                ("self", self_ty),
                ("sp", cx.span(tcx.def_span(did))),
                ("derived", J::Bool(tcx.def_span(did).from_expansion())),
            ];
            if matches!(dk, DefKind::Fn | DefKind::AssocFn) {
                kv.push(("pub", J::Bool(tcx.visibility(did).is_public())));
                let sig = tcx.fn_sig(did).instantiate_identity().skip_norm_wip().skip_binder();
                let ins: Vec<J> = sig.inputs().iter().map(|t| cx.ty(*t, 0)).collect();
                kv.push(("inputs", J::Arr(ins)));
                kv.push(("output", cx.ty(sig.output(), 0)));
                if let Some(ai) = tcx.opt_associated_item(did) {
                    if let Some(tid) = ai.trait_item_def_id() {
                        kv.push(("trait_item", J::Str(def_id_str(tcx, tid))));
                    }
                }
            } else {
                kv.push(("root", J::Str(def_id_str(tcx, root))));
            }
            kv.push(("body", cx.body(body, did)));
            let proms = tcx.promoted_mir(did);
            let pj: Vec<J> = proms.iter().map(|b| cx.body(b, did)).collect();
            kv.push(("promoted", J::Arr(pj)));
            fns.push(J::obj(kv));
        }

        // ---- enums referenced (incl. foreign ones such as Option/Result/ControlFlow)
        let mut enums = Vec::new();
        let es: Vec<(String, DefId)> = cx.enums.iter().map(|(k, v)| (k.clone(), *v)).collect();
        for (id, did) in es {
            let adt = tcx.adt_def(did);
            let vs: Vec<J> = adt
                .variants()
                .iter_enumerated()
                .map(|(vi, v)| {
                    J::Arr(vec![
                        J::Str(v.name.to_string()),
                        J::Int(adt.discriminant_for_variant(tcx, vi).val as i128),
                        J::Int(v.fields.len() as i128),
                    ])
                })
                .collect();
            enums.push(J::obj(vec![("id", J::Str(id)), ("variants", J::Arr(vs))]));
        }

        let cfgs: Vec<J> = {
            let mut v: Vec<String> = tcx
                .sess
                .config
                .iter()
                .filter(|(k, _)| k.as_str() == "feature")
                .map(|(k, val)| format!("{}={}", k, val.map(|s| s.to_string()).unwrap_or_default()))
                .collect();
            v.sort();
            v.into_iter().map(J::Str).collect()
        };

        let n_fns = fns.len();
        let doc = J::obj(vec![
            ("crate", J::Str(name.clone())),
            ("kind", J::Str(kind.into())),
            ("rustc", J::Str(option_env!("CFG_VERSION").unwrap_or("nightly").to_string())),
            ("cfg", J::Arr(cfgs)),
            ("n_fns", J::Int(n_fns as i128)),
            ("ast", std::mem::replace(&mut self.ast, J::Null)),
            ("adts", J::Arr(adts)),
            ("impls", J::Arr(impls)),
            ("enums", J::Arr(enums)),
            ("fns", J::Arr(fns)),
        ]);
        let mut s = String::new();
        doc.write(&mut s);
        let tag = std::env::var("L21FACTS_TAG").unwrap_or_default();
        let path = format!("{}/{}{}.{}.json", outdir, name, tag, kind);
        let tmp = format!("{}.tmp{}", path, std::process::id());
        std::fs::write(&tmp, s).expect("write facts");
        std::fs::rename(&tmp, &path).expect("rename facts");
        Compilation::Continue
    }
}
