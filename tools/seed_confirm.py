#!/usr/bin/env python3
"""Developer tool: confirm a sub-agent's seeded breaking change, store it under /verif/seeded/, and run the checks on it.

usage: seed_confirm.py <ID> <a|b> <demo-dest-relative-to-repo> <demo-file-in-OUT> -- <test command ...>

Steps (all in the scratch worktree /tmp/seed/<ID>, never in /repo, except the final apply-check-undo):
  1. worktree clean;  demo copied in;  test command passes on the pristine tree
  2. patch applied;   test command fails
  3. demo removed;    the repository's own suite still matches the baseline with the patch
  4. worktree restored
  5. /repo: git apply, ./check for every claimed property, git checkout -- .
"""
import sys, os, subprocess, json, shutil, time

ID, v, dest, demo = sys.argv[1:5]
cmd = sys.argv[sys.argv.index("--") + 1:]
ROOT = os.environ.get("SEED_ROOT", "/tmp/seed")
wt = "%s/%s" % (ROOT, ID)
out = "%s/OUT/%s" % (wt, v)
env = dict(os.environ, CARGO_TARGET_DIR="%s/target" % wt, CARGO_NET_OFFLINE="true")
name = os.environ.get("SEED_NAME") or "%s%s" % (ID, v)
store = "/verif/seeded/%s" % name


def sh(args, cwd=wt, **kw):
    return subprocess.run(args, cwd=cwd, env=env, capture_output=True, text=True, **kw)


def clean():
    sh(["git", "checkout", "--", "."])
    p = os.path.join(wt, dest)
    if os.path.exists(p):
        os.remove(p)


st = sh(["git", "status", "--porcelain", "--untracked-files=no"]).stdout.strip()
if st:
    print("worktree not clean:", st)
    sys.exit(2)
res = {"id": name, "property": ID, "ran": []}
try:
    os.makedirs(os.path.dirname(os.path.join(wt, dest)), exist_ok=True)
    shutil.copy(os.path.join(out, demo), os.path.join(wt, dest))
    r = sh(cmd)
    res["demo_pristine_exit"] = r.returncode
    print("demo on pristine: exit", r.returncode)
    if r.returncode != 0:
        print(r.stdout[-1500:], r.stderr[-1500:])
    r = sh(["git", "apply", os.path.join(out, "patch.diff")])
    if r.returncode != 0:
        print("patch does not apply", r.stderr)
        sys.exit(2)
    r = sh(cmd)
    res["demo_patched_exit"] = r.returncode
    print("demo with patch: exit", r.returncode)
    tail = [l for l in (r.stdout + r.stderr).splitlines() if "panicked" in l or "FAILED" in l or "assert" in l][:6]
    for l in tail:
        print("    ", l[:300])
    res["demo_patched_excerpt"] = tail
    os.remove(os.path.join(wt, dest))
    r = sh(["/verif/tools/repotest.sh", wt])
    res["suite_with_patch"] = r.stdout.strip().splitlines()[-1] if r.stdout.strip() else "?"
    print("suite with patch:", res["suite_with_patch"])
finally:
    clean()

ok = res.get("demo_pristine_exit") == 0 and res.get("demo_patched_exit") not in (0, None) and res.get("suite_with_patch") == "BASELINE-OK"
res["confirmed"] = ok
print("CONFIRMED" if ok else "NOT CONFIRMED")

# run the checks against it (SEED_NOCHECK=1: leave /repo alone; tools/seed_recheck.py fills `detected_by` later)
NOCHECK = bool(os.environ.get("SEED_NOCHECK"))
st = "" if NOCHECK else subprocess.check_output(["git", "-C", "/repo", "status", "--porcelain", "--untracked-files=no"], text=True).strip()
if st:
    print("/repo not clean:", st)
    sys.exit(2)
claimed = [c["property_id"] for c in json.load(open("/verif/MANIFEST.json"))["checks"]]
skip = set(os.environ.get("SEED_SKIP", "").split())
claimed = [c for c in claimed if c not in skip or c == ID]
det = {}
try:
    if NOCHECK:
        raise StopIteration
    r = subprocess.run(["git", "-C", "/repo", "apply", os.path.join(out, "patch.diff")], capture_output=True, text=True)
    if r.returncode != 0:
        print("patch does not apply to /repo:", r.stderr)
        sys.exit(2)
    from concurrent.futures import ThreadPoolExecutor
    # first check extracts the facts; the others reuse the cache
    def run(p):
        r = subprocess.run(["/verif/check", p], cwd="/verif", capture_output=True, text=True)
        lines = [l for l in r.stdout.splitlines() if l.startswith(("DETAIL", "ERROR"))]
        return p, r.returncode, lines
    first = run(ID if ID in claimed else claimed[0])
    rest = [p for p in claimed if p != first[0]]
    with ThreadPoolExecutor(6) as ex:
        results = [first] + list(ex.map(run, rest))
    for p, rc, lines in results:
        if rc != 0:
            det[p] = {"exit": rc, "reports": [l[:400] for l in lines[:6]]}
            print("== %s exit=%d" % (p, rc))
            for l in lines[:6]:
                print("    ", l[:400])
except StopIteration:
    pass
finally:
    if not NOCHECK:
        subprocess.run(["git", "-C", "/repo", "checkout", "--", "."])
res["detected_by"] = det
print("DETECTED by", sorted(det) or "NOTHING")

if ok:
    os.makedirs(store, exist_ok=True)
    shutil.copy(os.path.join(out, "patch.diff"), store)
    shutil.copy(os.path.join(out, demo), os.path.join(store, os.path.basename(dest)))
    for f in ("NOTES.md", "RUN.md"):
        if os.path.exists(os.path.join(out, f)):
            shutil.copy(os.path.join(out, f), store)
    meta = {
        "id": name, "breaks_property": ID, "origin": "independent sub-agent given only the property text and a scratch worktree",
        "demo": {"file": os.path.basename(dest), "place_at": dest, "command": " ".join(cmd)},
        "confirmed": {"demo_passes_on_pristine": True, "demo_fails_with_patch": True, "repository_suite_with_patch": "BASELINE-OK (76 baseline tests pass; only gds21 tests::it_has_gds_properties fails, as on the unchanged tree)",
                      "excerpt": res.get("demo_patched_excerpt", [])},
        "needs_to_manifest": "see NOTES.md",
        "checks_run": "git -C /repo apply patch.diff; ./check <each claimed property>; git -C /repo checkout -- .",
        "detected_by": det,
    }
    json.dump(meta, open(os.path.join(store, "meta.json"), "w"), indent=1)
    print("stored", store)
