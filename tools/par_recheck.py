#!/usr/bin/env python3
"""Developer tool: re-run the three corpora in parallel on private copies of /repo.

Each worker owns a scratch git worktree of /repo (under /tmp/par/<k>/repo), its own facts cache and its own evidence
directory (L21_REPO / L21_WORK / L21_EVID), so /repo itself and /verif/evidence are never touched.  For every corpus
entry: `git apply` in the worker's worktree, run every claimed check, `git checkout -- .`.  Results go where the
sequential tools put them: seeded/*/meta.json (detected_by), benign/*/meta.json (alarms_now), benign_small/RESULTS.json.

usage: par_recheck.py <seeded|benign|benign_small|all> [workers=4] [name prefix (regex, anchored at the start)]   (worktrees are removed at the end)
"""
import sys, os, re, subprocess, json, glob, shutil, threading, queue

which = sys.argv[1] if len(sys.argv) > 1 else "all"
K = int(sys.argv[2]) if len(sys.argv) > 2 else 4
PREFIX = sys.argv[3] if len(sys.argv) > 3 else ""   # only entries whose name starts with this
ROOT = os.environ.get("PAR_ROOT", "/tmp/par")
claimed = [c["property_id"] for c in json.load(open("/verif/MANIFEST.json"))["checks"]]
corpora = ["seeded", "benign_small", "benign"] if which == "all" else [which]
jobs = queue.Queue()
for c in corpora:
    for p in sorted(glob.glob("/verif/%s/*/patch.diff" % c)):
        if re.match(PREFIX, os.path.basename(os.path.dirname(p))):
            jobs.put((c, os.path.basename(os.path.dirname(p)), p))
total = jobs.qsize()
results = {}
lock = threading.Lock()


def worker(k):
    base = "%s/%d" % (ROOT, k)
    repo = base + "/repo"
    os.makedirs(base, exist_ok=True)
    if not os.path.isdir(repo):
        subprocess.run(["git", "-C", "/repo", "worktree", "add", "--detach", repo, "HEAD"], capture_output=True)
    env = dict(os.environ, L21_REPO=repo, L21_WORK=base + "/work", L21_EVID=base + "/evidence")
    os.makedirs(base + "/evidence", exist_ok=True)
    while True:
        try:
            corpus, name, patch = jobs.get_nowait()
        except queue.Empty:
            return
        out = {}
        try:
            subprocess.run(["git", "-C", repo, "checkout", "--", "."], capture_output=True)
            r = subprocess.run(["git", "-C", repo, "apply", patch], capture_output=True, text=True)
            if r.returncode:
                out = {"_error": "patch does not apply: " + r.stderr[:200]}
            else:
                for p in claimed:
                    rr = subprocess.run(["/verif/check", p], cwd="/verif", env=env, capture_output=True, text=True)
                    if rr.returncode:
                        out[p] = {"exit": rr.returncode, "reports": [l[:400] for l in rr.stdout.splitlines() if l.startswith(("DETAIL", "ERROR"))][:6]}
        finally:
            subprocess.run(["git", "-C", repo, "checkout", "--", "."], capture_output=True)
        with lock:
            results[(corpus, name)] = out
            print("[%d/%d] %s/%s: %s" % (len(results), total, corpus, name, sorted(out) or "-"), flush=True)


ths = [threading.Thread(target=worker, args=(k,)) for k in range(K)]
for t in ths:
    t.start()
for t in ths:
    t.join()

# ---- write results
small = {}
for (corpus, name), out in sorted(results.items()):
    d = "/verif/%s/%s" % (corpus, name)
    if corpus == "seeded":
        m = json.load(open(d + "/meta.json"))
        m["detected_by"] = out
        json.dump(m, open(d + "/meta.json", "w"), indent=1)
    elif corpus == "benign":
        m = json.load(open(d + "/meta.json"))
        m["alarms_now"] = {k: v["reports"][:4] for k, v in out.items() if not k.startswith("_")}
        json.dump(m, open(d + "/meta.json", "w"), indent=1)
    else:
        small[name] = {k: v["reports"][:4] for k, v in out.items() if not k.startswith("_")}
if small and PREFIX and os.path.exists("/verif/benign_small/RESULTS.json"):
    old = json.load(open("/verif/benign_small/RESULTS.json"))
    alarms = {k: v for k, v in old.get("alarms", {}).items() if not re.match(PREFIX, k)}
    alarms.update({k: v for k, v in small.items() if v})
    n_all = len(glob.glob("/verif/benign_small/*/patch.diff"))
    json.dump({"edits": n_all, "raising_an_alarm": len(alarms), "alarms": alarms}, open("/verif/benign_small/RESULTS.json", "w"), indent=1)
    print("small benign edits (prefix %s) raising an alarm: %d of %d %s" % (PREFIX, len([1 for v in small.values() if v]), len(small), sorted(k for k, v in small.items() if v)))
elif small:
    bad = {k: v for k, v in small.items() if v}
    json.dump({"edits": len(small), "raising_an_alarm": len(bad), "alarms": bad}, open("/verif/benign_small/RESULTS.json", "w"), indent=1)
    print("small benign edits raising an alarm: %d of %d %s" % (len(bad), len(small), sorted(bad)))
sd = [(n, o) for (c, n), o in results.items() if c == "seeded"]
if sd:
    own = [n for n, o in sd if n[:3] in o]
    print("seeded: %d of %d detected by their own property; not: %s" % (len(own), len(sd), sorted(n for n, o in sd if n[:3] not in o)))
bg = [(n, o) for (c, n), o in results.items() if c == "benign"]
if bg:
    print("large benign refactors raising an alarm: %d of %d" % (len([1 for n, o in bg if o]), len(bg)))
# ---- cleanup
for k in range(K):
    subprocess.run(["git", "-C", "/repo", "worktree", "remove", "--force", "%s/%d/repo" % (ROOT, k)], capture_output=True)
shutil.rmtree(ROOT, ignore_errors=True)
subprocess.run(["git", "-C", "/repo", "worktree", "prune"], capture_output=True)
