#!/usr/bin/env python3
"""Developer tool: apply a textual edit to /repo (must be clean), run checks, restore.
usage: try_mutant.py <file> <old> <new> <Cxx> [<Cxx>...]   (old must occur exactly once unless prefixed by N:)"""
import sys, subprocess, os
f, old, new = sys.argv[1:4]
props = sys.argv[4:]
path = os.path.join("/repo", f)
st = subprocess.check_output(["git", "-C", "/repo", "status", "--porcelain", "--untracked-files=no"], text=True)
if st.strip():
    print("repo not clean:", st); sys.exit(2)
s = open(path).read()
cnt = s.count(old)
if cnt != 1:
    print("old occurs %d times" % cnt); sys.exit(2)
open(path, "w").write(s.replace(old, new))
try:
    r = subprocess.run(["cargo", "build", "--offline", "--workspace"], cwd="/repo", capture_output=True, text=True)
    if r.returncode != 0:
        print("MUTANT DOES NOT COMPILE"); print(r.stderr[-1500:])
    else:
        for p in props:
            r = subprocess.run(["/verif/check", p], cwd="/verif", capture_output=True, text=True)
            lines = [l for l in r.stdout.splitlines() if l.startswith(("DETAIL", "ERROR", "CHECK"))]
            print("== %s exit=%d" % (p, r.returncode))
            for l in lines[:8]:
                print("   ", l[:420])
finally:
    subprocess.run(["git", "-C", "/repo", "checkout", "--", "."])
