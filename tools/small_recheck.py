#!/usr/bin/env python3
"""Apply every /verif/benign_small/<name>/patch.diff (small behaviour-preserving edits written by independent sub-agents:
renames, statement swaps, if-let <-> match, loop <-> iterator adapter, extracted helpers ...) to /repo in turn, run every
claimed check, undo.  Every check must stay silent; results are written to benign_small/RESULTS.json."""
import sys, os, subprocess, json, glob
from concurrent.futures import ThreadPoolExecutor
claimed = [c["property_id"] for c in json.load(open("/verif/MANIFEST.json"))["checks"]]
def run(p):
    r = subprocess.run(["/verif/check", p], cwd="/verif", capture_output=True, text=True)
    return p, r.returncode, [l for l in r.stdout.splitlines() if l.startswith(("DETAIL", "ERROR"))]
names = sys.argv[1:] or sorted(os.path.basename(os.path.dirname(p)) for p in glob.glob("/verif/benign_small/*/patch.diff"))
results = {}
bad = 0
for name in names:
    if subprocess.check_output(["git", "-C", "/repo", "status", "--porcelain", "--untracked-files=no"], text=True).strip():
        print("/repo not clean"); sys.exit(2)
    al = {}
    try:
        r = subprocess.run(["git", "-C", "/repo", "apply", "/verif/benign_small/%s/patch.diff" % name], capture_output=True, text=True)
        if r.returncode: print(name, "patch does not apply"); continue
        res = [run(claimed[0])]
        with ThreadPoolExecutor(8) as ex: res += list(ex.map(run, claimed[1:]))
        for p, rc, lines in res:
            if rc: al[p] = [l[:400] for l in lines[:4]]
    finally:
        subprocess.run(["git", "-C", "/repo", "checkout", "--", "."])
    print("%s alarms: %s" % (name, sorted(al) or "none"), flush=True)
    for p in al:
        for l in al[p][:2]: print("     ", l[:300], flush=True)
    results[name] = al
    bad += bool(al)
print("small benign edits raising an alarm:", bad, "of", len(names))
if not sys.argv[1:]:
    json.dump({"edits": len(names), "raising_an_alarm": bad, "alarms": {k: v for k, v in results.items() if v}}, open("/verif/benign_small/RESULTS.json", "w"), indent=1)
