#!/usr/bin/env python3
"""Apply every /verif/benign/<name>/patch.diff to /repo in turn, run every claimed check, undo. Every check must stay silent."""
import sys, os, subprocess, json, glob
from concurrent.futures import ThreadPoolExecutor
names = sys.argv[1:] or sorted(os.path.basename(os.path.dirname(p)) for p in glob.glob("/verif/benign/*/meta.json"))
claimed = [c["property_id"] for c in json.load(open("/verif/MANIFEST.json"))["checks"]]
def run(p):
    r = subprocess.run(["/verif/check", p], cwd="/verif", capture_output=True, text=True)
    return p, r.returncode, [l for l in r.stdout.splitlines() if l.startswith(("DETAIL", "ERROR"))]
bad = 0
for name in names:
    if subprocess.check_output(["git", "-C", "/repo", "status", "--porcelain", "--untracked-files=no"], text=True).strip():
        print("/repo not clean"); sys.exit(2)
    al = {}
    try:
        r = subprocess.run(["git", "-C", "/repo", "apply", "/verif/benign/%s/patch.diff" % name], capture_output=True, text=True)
        if r.returncode: print(name, "patch does not apply"); continue
        res = [run(claimed[0])]
        with ThreadPoolExecutor(6) as ex: res += list(ex.map(run, claimed[1:]))
        for p, rc, lines in res:
            if rc: al[p] = lines[:4]
    finally:
        subprocess.run(["git", "-C", "/repo", "checkout", "--", "."])
    print("%s alarms: %s" % (name, sorted(al) or "none"))
    for p in al:
        for l in al[p][:3]: print("     ", l[:300])
    bad += bool(al)
    m = json.load(open("/verif/benign/%s/meta.json" % name)); m["alarms_now"] = al; json.dump(m, open("/verif/benign/%s/meta.json" % name, "w"), indent=1)
print("benign refactors raising an alarm:", bad, "of", len(names))
