#!/usr/bin/env python3
"""Developer tool: rewrite the detection matrix of DESIGN.md §9.8 from seeded/*/meta.json (`detected_by`)."""
import json, glob, os, re
rows, own = [], 0
names = sorted(os.path.basename(os.path.dirname(p)) for p in glob.glob("/verif/seeded/*/meta.json"))
for n in names:
    m = json.load(open("/verif/seeded/%s/meta.json" % n))
    prop = m.get("breaks_property") or n[:3]
    det = sorted(k for k, v in (m.get("detected_by") or {}).items() if not k.startswith("_"))
    if prop in det:
        own += 1
        det = [prop] + [d for d in det if d != prop]
        rows.append("| %s | %s | %s |" % (n, prop, ", ".join(det)))
    else:
        rows.append("| %s | %s | — (see §9.6)%s |" % (n, prop, (" [other: %s]" % ", ".join(det)) if det else ""))
p = "/verif/DESIGN.md"
s = open(p).read()
a = s.index("### 9.8 Detection matrix")
b = s.index("### 9.9 ")
head = s[a:].split("\n", 1)[0]
body = "%s\n\n%d breaking changes from six rounds; %d are detected by the check of the property they were written against, the other %d are listed with the reason in §9.6.\n\n| change | written against | detected by (own property first) |\n|---|---|---|\n%s\n\n" % (
    head, len(names), own, len(names) - own, "\n".join(rows))
open(p, "w").write(s[:a] + body + s[b:])
print("%d changes, %d detected by own property" % (len(names), own))
