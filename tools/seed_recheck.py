#!/usr/bin/env python3
"""Developer tool: apply /verif/seeded/<name>/patch.diff to /repo, run the named checks (default: all claimed), undo, update meta.json.
usage: seed_recheck.py <name|all> [Cxx ...]"""
import sys, os, subprocess, json, glob
from concurrent.futures import ThreadPoolExecutor
names = sys.argv[1:2]
props = sys.argv[2:]
if names == ["all"]:
    names = sorted(os.path.basename(os.path.dirname(p)) for p in glob.glob("/verif/seeded/*/meta.json"))
claimed = [c["property_id"] for c in json.load(open("/verif/MANIFEST.json"))["checks"]]
def run(p):
    r = subprocess.run(["/verif/check", p], cwd="/verif", capture_output=True, text=True)
    return p, r.returncode, [l for l in r.stdout.splitlines() if l.startswith(("DETAIL", "ERROR"))]
for name in names:
    st = subprocess.check_output(["git", "-C", "/repo", "status", "--porcelain", "--untracked-files=no"], text=True).strip()
    if st:
        print("/repo not clean"); sys.exit(2)
    d = "/verif/seeded/" + name
    det = {}
    try:
        r = subprocess.run(["git", "-C", "/repo", "apply", d + "/patch.diff"], capture_output=True, text=True)
        if r.returncode:
            print(name, "patch does not apply", r.stderr); continue
        ps = props or claimed
        res = [run(ps[0])]
        with ThreadPoolExecutor(6) as ex:
            res += list(ex.map(run, ps[1:]))
        for p, rc, lines in res:
            if rc:
                det[p] = {"exit": rc, "reports": [l[:400] for l in lines[:6]]}
    finally:
        subprocess.run(["git", "-C", "/repo", "checkout", "--", "."])
    print("%s detected by %s" % (name, sorted(det) or "NOTHING"))
    for p in det:
        for l in det[p]["reports"][:3]:
            print("     ", l[:300])
    if not props:
        m = json.load(open(d + "/meta.json")); m["detected_by"] = det
        json.dump(m, open(d + "/meta.json", "w"), indent=1)
