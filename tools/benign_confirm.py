#!/usr/bin/env python3
"""Developer tool: confirm a sub-agent's behaviour-preserving refactor and run every check on it (expected: silence).

usage: benign_confirm.py <ID> <a|b|c> <demo-dest-relative-to-repo> <demo-file-in-OUT> -- <test command ...>
  worktree /tmp/ben/<ID>: demo passes pristine; patch applied: demo still passes; suite BASELINE-OK; restored.
  then /repo: git apply, every claimed check, git checkout -- .   Any non-zero exit is a FALSE ALARM to be fixed in the rules.
Stored under /verif/benign/<ID><v>/ (patch.diff, demo, NOTES.md, meta.json)."""
import sys, os, subprocess, json, shutil
ID, v, dest, demo = sys.argv[1:5]
cmd = sys.argv[sys.argv.index("--") + 1:]
wt = "/tmp/ben/%s" % ID
out = "%s/OUT/%s" % (wt, v)
env = dict(os.environ, CARGO_TARGET_DIR="%s/target" % wt, CARGO_NET_OFFLINE="true")
name = "%s%s" % (ID, v)
store = "/verif/benign/%s" % name
def sh(args, cwd=wt): return subprocess.run(args, cwd=cwd, env=env, capture_output=True, text=True)
def clean():
    sh(["git", "checkout", "--", "."])
    p = os.path.join(wt, dest)
    if os.path.exists(p): os.remove(p)
if sh(["git", "status", "--porcelain", "--untracked-files=no"]).stdout.strip():
    print("worktree not clean"); sys.exit(2)
res = {}
try:
    os.makedirs(os.path.dirname(os.path.join(wt, dest)), exist_ok=True)
    shutil.copy(os.path.join(out, demo), os.path.join(wt, dest))
    r = sh(cmd); res["pristine"] = r.returncode
    r = sh(["git", "apply", os.path.join(out, "patch.diff")])
    if r.returncode: print("patch does not apply", r.stderr); sys.exit(2)
    r = sh(cmd); res["patched"] = r.returncode
    if r.returncode: print((r.stdout + r.stderr)[-1500:])
    os.remove(os.path.join(wt, dest))
    r = sh(["/verif/tools/repotest.sh", wt]); res["suite"] = r.stdout.strip().splitlines()[-1] if r.stdout.strip() else "?"
finally:
    clean()
ok = res.get("pristine") == 0 and res.get("patched") == 0 and res.get("suite") == "BASELINE-OK"
print("demo pristine=%s patched=%s suite=%s -> %s" % (res.get("pristine"), res.get("patched"), res.get("suite"), "BENIGN CONFIRMED" if ok else "NOT CONFIRMED"))
if subprocess.check_output(["git", "-C", "/repo", "status", "--porcelain", "--untracked-files=no"], text=True).strip():
    print("/repo not clean"); sys.exit(2)
claimed = [c["property_id"] for c in json.load(open("/verif/MANIFEST.json"))["checks"]]
alarms = {}
try:
    r = subprocess.run(["git", "-C", "/repo", "apply", os.path.join(out, "patch.diff")], capture_output=True, text=True)
    if r.returncode: print("patch does not apply to /repo", r.stderr); sys.exit(2)
    from concurrent.futures import ThreadPoolExecutor
    def run(p):
        r = subprocess.run(["/verif/check", p], cwd="/verif", capture_output=True, text=True)
        return p, r.returncode, [l for l in r.stdout.splitlines() if l.startswith(("DETAIL", "ERROR"))]
    first = run(ID if ID in claimed else claimed[0])
    with ThreadPoolExecutor(6) as ex:
        results = [first] + list(ex.map(run, [p for p in claimed if p != first[0]]))
    for p, rc, lines in results:
        if rc:
            alarms[p] = [l[:500] for l in lines[:6]]
            print("== FALSE ALARM? %s exit=%d" % (p, rc))
            for l in lines[:6]: print("    ", l[:500])
finally:
    subprocess.run(["git", "-C", "/repo", "checkout", "--", "."])
print("ALARMS:", sorted(alarms) or "none")
if ok:
    os.makedirs(store, exist_ok=True)
    shutil.copy(os.path.join(out, "patch.diff"), store)
    shutil.copy(os.path.join(out, demo), os.path.join(store, os.path.basename(dest)))
    for f in ("NOTES.md", "RUN.md"):
        if os.path.exists(os.path.join(out, f)): shutil.copy(os.path.join(out, f), store)
    json.dump({"id": name, "kind": "behaviour-preserving refactor", "property_exercised": ID, "origin": "independent sub-agent given only the property text and a scratch worktree",
               "demo": {"file": os.path.basename(dest), "place_at": dest, "command": " ".join(cmd)},
               "confirmed": "differential test passes on the pristine tree and with the patch; repository suite BASELINE-OK with the patch",
               "alarms_when_first_run": alarms}, open(os.path.join(store, "meta.json"), "w"), indent=1)
    print("stored", store)
