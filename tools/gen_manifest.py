#!/usr/bin/env python3
"""Generate /verif/MANIFEST.json from the table below (kept in one place so it is always valid)."""
import json, os, sys
VERIF = os.path.dirname(os.path.dirname(os.path.abspath(__file__)))
sys.path.insert(0, VERIF)

CLAIMED = {
    # id: (technique, level text, level note, design ref)
    "C18": ("serde-attribute / cargo-feature rules over the expanded AST and resolved dependency graph; enum-dispatch sibling agreement on MIR",
            "Decides, for every type reachable from GdsLibrary/LefLibrary, the structural necessary conditions of a lossless text round trip: no unconditionally skipped data field, skip_serializing_if paired with a Default it provably equals, symmetric renames, no one-sided attributes; same back-end crate per format in to_string/from_str/open; exact-number dependency features. It does not decide the dependencies' quoting/escaping behaviour.",
            "trusts rustc's expansion, serde's documented attribute semantics, cargo metadata; string escaping of serde_json/serde_yaml assumed correct",
            "DESIGN.md §3 C18"),
    "C20": ("hash-iteration / time / address-order source inventory on MIR with sink classification (sequence push, slot-key assignment) and interprocedural mutation summaries; a sort counts as a sanitiser only when its ordering function compares the entries' own keys; map-to-map collects whose closure re-keys by value; who-may-read over the components of the GDSII timestamps outside gds21; process-wide mutable statics",
            "Decides that no HashMap/HashSet iteration order, wall-clock read, pointer-address order or other per-process seed can reach a converter's output order, for all inputs at once; the documented GDSII creation timestamp is the only admitted time source.",
            "trusts resolved callee names of std collections; determinism of dependencies' own code not analysed",
            "DESIGN.md §3 C20"),
}
NA = {
    "C08": "tiling/arithmetic over runtime track positions, pitches and cut sizes: every clause is a value-level statement over + - * / % of runtime quantities; no structural necessary condition decidable by static analysis (DESIGN §5)",
    "C15": "bit-exact floating-point behaviour of log2/powi/round over all doubles; purely value-level (DESIGN §5)",
}
PENDING_REASON = "static rules for this property are not built yet in this revision (planned: see DESIGN.md §3); not claimed until its check exists"
ALL = ["C%02d" % i for i in range(1, 21)]

def main():
    extra = {}
    p = os.path.join(VERIF, "tools", "claims.json")
    if os.path.exists(p):
        extra = json.load(open(p))
    claimed = dict(CLAIMED)
    for k, v in extra.items():
        claimed[k] = tuple(v)
    checks = []
    for pid in sorted(claimed):
        tech, text, note, ref = claimed[pid]
        checks.append({
            "property_id": pid,
            "quick_cmd": "./check %s --tier quick" % pid,
            "thorough_cmd": "./check %s --tier thorough" % pid,
            "evidence_file": "evidence/%s.json" % pid,
            "replay_cmd_template": "./check %s --replay {path}" % pid,
            "engine": "l21facts+rules",
            "level_claimed": {"category": "other", "text": text, "design_ref": ref},
            "level_note": note,
            "technique": "static analysis: " + tech,
        })
    na = []
    for pid in ALL:
        if pid in claimed:
            continue
        na.append({"property_id": pid, "reason": NA.get(pid, PENDING_REASON)})
    m = {
        "version": 1,
        "setup_cmd": "./setup.sh",
        "hooks": {"guard": "layout21_verif", "enable": "none: static analysis reads the unmodified source; no hooks are compiled into /repo",
                  "baseline_off_cmd": "/verif/tools/repotest.sh /repo", "source_commits": [], "add_only": True},
        "engines": [
            {"name": "l21facts", "path": "driver/", "serves_properties": sorted(claimed), "kind_free_text": "rustc_private driver dumping MIR (resolved callees), ADTs, impls, expanded-AST attributes as JSON facts per crate"},
            {"name": "rules", "path": "rules/ + analysis/", "serves_properties": sorted(claimed), "kind_free_text": "python3 (stdlib) static analyses over the facts: CFG/dominators, call graph, dataflow summaries, tables, serde/cargo configuration"},
        ],
        "checks": checks,
        "not_applicable": na,
        "notes": "Every check extracts facts from /repo's current working tree (cache keyed by a hash of all sources + manifests), never executes Layout21 code, prints KNOWN-FINDING lines for entries of known_findings.json and VIOLATION lines for anything else.",
    }
    json.dump(m, open(os.path.join(VERIF, "MANIFEST.json"), "w"), indent=1)
    print("claimed:", sorted(claimed), "NA:", [x["property_id"] for x in na])

main()
