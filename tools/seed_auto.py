#!/usr/bin/env python3
"""Developer tool: derive seed_confirm.py's arguments from a sub-agent's RUN.md and run it.
usage: seed_auto.py <root> <ID> <a|b> <stored name>"""
import sys, os, re, subprocess, glob
root, ID, v, name = sys.argv[1:5]
out = "%s/%s/OUT/%s" % (root, ID, v)
txt = "\n".join(open(f).read() for f in glob.glob(out + "/RUN.md") + glob.glob(out + "/NOTES.md"))
demos = [os.path.basename(f) for f in glob.glob(out + "/*.rs")]
if not demos:
    print("no demo source in", out); sys.exit(2)
demo = demos[0]
m = re.search(r"cp\s+\S*%s\s+(\S+\.rs)" % re.escape(demo), txt)
dest = m.group(1) if m else None
if dest:
    dest = re.sub(r"^%s/%s/" % (re.escape(root), ID), "", dest)
m = re.search(r"cargo test ([^\n`]*?--test\s+(\w+))", txt)
if not dest and m:
    # guess crate from -p
    pm = re.search(r"-p\s+(\w+)", m.group(1))
    if pm:
        dest = "%s/tests/%s.rs" % (pm.group(1), m.group(2))
if not dest or not m:
    print("could not parse RUN.md: dest=%s cmd=%s" % (dest, m.group(0) if m else None)); sys.exit(2)
pm = re.search(r"-p\s+(\w+)", m.group(1))
crate = pm.group(1) if pm else dest.split("/")[0]
tname = os.path.basename(dest)[:-3]
cmd = ["cargo", "test", "--offline", "-p", crate, "--test", tname]
print("dest=%s demo=%s cmd=%s" % (dest, demo, " ".join(cmd)))
env = dict(os.environ, SEED_ROOT=root, SEED_NAME=name)
sys.exit(subprocess.run(["/verif/tools/seed_confirm.py", ID, v, dest, demo, "--"] + cmd, env=env).returncode)
