#!/bin/bash
# Run the repository's own test suite (guard off — there is no guard: no hooks are needed) and compare with the baseline:
# exactly one test (gds21 tests::it_has_gds_properties, failing in BASELINE.json's always_fail) may fail.
REPO=${1:-/repo}
cd "$REPO" || exit 2
out=$(CARGO_NET_OFFLINE=true cargo test --workspace --no-fail-fast --offline 2>&1)
pass=$(echo "$out" | grep -cE "^test .* \.\.\. ok$")
failed=$(echo "$out" | grep -E "^test .* \.\.\. FAILED$" | sort -u)
echo "passed=$pass"
echo "failed: $failed"
if echo "$out" | grep -qE "^error(\[|:) " && ! echo "$out" | grep -q "test failed, to rerun"; then echo "$out" | grep -E "^error" -A5 | head -40; fi
nf=$(echo "$failed" | grep -c . )
if [ "$pass" -ge 76 ] && { [ "$nf" -eq 0 ] || { [ "$nf" -eq 1 ] && echo "$failed" | grep -q "it_has_gds_properties"; }; }; then echo BASELINE-OK; exit 0; else echo BASELINE-MISMATCH; exit 1; fi
