#!/usr/bin/env python3
"""Developer tool: apply a patch (path, or corpus name such as benign/C17a, seeded/C17b) to /repo (must be clean),
run the named checks in parallel, restore.   usage: try_patch.py <patch|corpus/name> <Cxx> [<Cxx>...]"""
import sys, subprocess, os
from concurrent.futures import ThreadPoolExecutor
p = sys.argv[1]
if not os.path.isfile(p):
    p = "/verif/%s/patch.diff" % p
props = sys.argv[2:]
if subprocess.check_output(["git", "-C", "/repo", "status", "--porcelain", "--untracked-files=no"], text=True).strip():
    print("repo not clean"); sys.exit(2)
if subprocess.run(["git", "-C", "/repo", "apply", p]).returncode:
    sys.exit(2)
def run(c):
    r = subprocess.run(["/verif/check", c], cwd="/verif", capture_output=True, text=True)
    return c, r.returncode, [l for l in r.stdout.splitlines() if l.startswith(("DETAIL", "ERROR"))]
try:
    res = [run(props[0])]
    with ThreadPoolExecutor(6) as ex:
        res += list(ex.map(run, props[1:]))
    for c, rc, lines in res:
        print("== %s exit=%d" % (c, rc))
        for l in lines[:int(os.environ.get("N", "6"))]:
            print("   ", l[:int(os.environ.get("W", "400"))])
finally:
    subprocess.run(["git", "-C", "/repo", "checkout", "--", "."])
