"""C20 — conversions are deterministic (E6)."""
import re
from analysis.mir import Body, callee_name, callee_id, op_place, op_local, op_const
from analysis import nondet as nd
from analysis import ctrl

LIB_CRATES = ("gds21.lib", "lef21.lib", "layout21raw.lib", "layout21tetris.lib", "layout21utils.lib", "layout21converters.lib")


def persistent(b, root, loop_blocks):
    if root is None:
        return True
    if 1 <= root <= b.argc:
        return True
    for d in b.defs.get(root, []):
        if d[0] in loop_blocks and ((d[2] == "assign" and not d[3]["p"]["p"]) or (d[2] == "call" and not d[3]["dest"]["p"])):
            return False
    return True


CMP_ONLY = re.compile(r"::(cmp|partial_cmp|clone|deref|borrow|as_ref|eq|ne|lt|le|gt|ge|then|then_with|reverse|max|min|unwrap|as_str|as_slice|to_owned|to_string|0|1)$|Ord>::cmp$|PartialOrd(<.*>)?>::partial_cmp$|Deref>::deref$|Clone>::clone$")


def untrusted_sort(F, b, t):
    """None when the sort orders distinct map keys totally; otherwise the reason it may leave ties.
    sort()/sort_unstable() use the elements' own order (keys first).  sort_by / sort_by_key are trusted only when their
    closure compares parts of the elements themselves: a key looked up elsewhere (`table.get(k)`) need not be unique."""
    n = callee_name(t) or ""
    if re.search(r"::(sort|sort_unstable)$", n):
        return None
    if len(t["args"]) < 2:
        return "its ordering function could not be inspected"
    rv = b.def_rvalue(t["args"][1])
    cid = rv.get("id") if rv and rv["k"] == "agg" else None
    g = F.fns.get(cid) if cid else None
    if g is None:
        # a function item passed directly (e.g. `sort_by(Ord::cmp)`)
        c = (t["args"][1].get("c") or {}) if isinstance(t["args"][1], dict) else {}
        if "fn" in c and CMP_ONLY.search(c.get("rname") or c.get("fname") or ""):
            return None
        return "its ordering function could not be inspected"
    gb = Body(g)
    if rv.get("ops"):
        return "its ordering function consults captured state (%d captured values), not only the entries" % len(rv["ops"])
    for bi, u in gb.calls():
        un = callee_name(u) or ""
        if not CMP_ONLY.search(un):
            return "its ordering function calls %s, so the sort key is derived rather than the entry's own key" % un.split("::")[-1]
    return None


def rekeyed_by_value(F, b, adapters):
    """reason string when a `map`-like adapter on the way builds the first tuple component (the new key) from anything
    but the first component of its input (the old key); None otherwise"""
    for u in adapters:
        cn = callee_name(u) or ""
        if not re.search(r"Iterator>?::(map|filter_map|flat_map)$", cn) or len(u["args"]) < 2:
            continue
        rv = b.def_rvalue(u["args"][1])
        g = F.fns.get(rv.get("id")) if rv and rv["k"] == "agg" else None
        if g is None or not g.body:
            return "through a closure that could not be inspected"
        gb = Body(g)
        for bi, blk in enumerate(gb.blocks):
            for st in blk["st"]:
                if st["k"] == "assign" and st["p"]["l"] == 0 and not st["p"]["p"] and st["rv"]["k"] == "agg" and st["rv"].get("ak") == "tuple" and len(st["rv"]["ops"]) == 2:
                    for q in ctrl.slice_paths(gb, [st["rv"]["ops"][0]]):
                        if q[0] == ("arg", 2):
                            first = [x for x in q[1] if not str(x).startswith(("as ", "["))][:1]
                            if first and first[0] != "0":
                                return "with keys made from the old entries' values"
                        elif q[0][0] == "arg" and q[0][1] == 1 and q[1]:
                            return "with keys made from captured state"
    return None


_KO = {}


def keyed_overwrites(F, fid, depth=0):
    """parameter positions (1-based) of workspace function `fid` that end up as the key of a HashMap/BTreeMap insert into
    state reached through one of its reference parameters"""
    if fid in _KO:
        return _KO[fid]
    _KO[fid] = set()
    g = F.fns.get(fid)
    if g is None or depth > 3 or not fid.startswith(("layout21", "gds21", "lef21")):
        return _KO[fid]
    gb = Body(g)
    out = set()
    for bi, t in gb.calls():
        n = callee_name(t) or ""
        if re.search(r"(HashMap|BTreeMap)::<.*>::insert$", n) and len(t["args"]) >= 3:
            m = nd.root_local(gb, t["args"][0])
            k = nd.root_local(gb, t["args"][1])
            if m is not None and 1 <= m <= gb.argc and k is not None and 1 <= k <= gb.argc and k != m:
                out.add(k)
        else:
            for j in keyed_overwrites(F, callee_id(t), depth + 1):
                if j - 1 < len(t["args"]):
                    k = nd.root_local(gb, t["args"][j - 1])
                    if k is not None and 1 <= k <= gb.argc:
                        out.add(k)
    _KO[fid] = out
    return out


def sorted_after(F, b, recv, header, loop_blocks):
    r = nd.root_local(b, recv)
    fl = nd.receiver_fields(b, recv)
    for bi, t in b.calls():
        if bi in loop_blocks:
            continue
        n = callee_name(t) or ""
        if nd.SORT.search(n) and t["args"]:
            if nd.root_local(b, t["args"][0]) == r and b.dominates(header, bi) and untrusted_sort(F, b, t) is None:
                return True
    return False


def run(ctx):
    F = ctx.F
    ctx.rule("R20.1", "no HashMap/HashSet iteration order reaches an order-sensitive sink (sequence push/extend/write, slot-map key assignment later iterated)")
    ctx.rule("R20.2", "wall-clock sources are called only inside functions returning the GDSII date types (documented creation timestamp)")
    ctx.rule("R20.3", "no ordering by pointer address (Ord/PartialOrd on Ptr, sort of Ptr sequences)")
    ctx.rule("R20.4", "no random/thread/environment/process-id sources in library code")
    eff = nd.Effects(F)
    tainted_slot = {}  # key type -> site
    n_iter = 0
    for f, b, bi, t, n in nd.hash_iterations(F):
        n_iter += 1
        inst = "%s::%s" % (f.short, n.split("::")[-1])
        site = b.site(bi)
        # forward-follow the iterator value
        S = {t["dest"]["l"]}
        consumers = []  # (kind, bb, term)
        adapters = []
        changed = True
        seen_calls = set()
        while changed:
            changed = False
            for bj, blk in enumerate(b.blocks):
                if blk["cleanup"] or bj not in b.reachable:
                    continue
                for st in blk["st"]:
                    if st["k"] == "assign" and not st["p"]["p"]:
                        rv = st["rv"]
                        src = None
                        if rv["k"] == "use":
                            src = op_place(rv["o"])
                        elif rv["k"] in ("ref",):
                            src = rv["p"]
                        if src is not None and src["l"] in S and st["p"]["l"] not in S:
                            S.add(st["p"]["l"])
                            changed = True
                u = blk["term"]
                if u["k"] != "call" or bj in seen_calls:
                    continue
                if bj == bi:
                    continue
                if not any((op_place(a) or {}).get("l") in S for a in u["args"]):
                    continue
                seen_calls.add(bj)
                cn = callee_name(u) or ""
                if re.search(r"Iterator>?::next$", cn) or re.search(r"::next$", cn):
                    consumers.append(("loop", bj, u))
                elif nd.ADAPTER.search(cn):
                    S.add(u["dest"]["l"])
                    adapters.append(u)
                    changed = True
                elif re.search(r"Iterator::collect$|FromIterator<.*>>::from_iter$", cn):
                    consumers.append(("collect", bj, u))
                elif nd.INSENSITIVE_CONSUMER.search(cn):
                    consumers.append(("insensitive", bj, u))
                elif re.search(r"::size_hint$|::len$|::clone$|drop_in_place|mem::drop", cn):
                    pass
                else:
                    consumers.append(("unknown", bj, u))
        if not consumers:
            # e.g. `retain` or iterator dropped: retain's closure sees elements in hash order but only filters
            if n.endswith("::retain"):
                ctx.ok("R20.1", inst, "retain: order-insensitive")
                continue
            ctx.violation("R20.1", "%s/unconsumed" % f.short, "hash iteration whose consumer could not be identified (conservative)", site, inst)
            continue
        bad = []
        for kind, bj, u in consumers:
            if kind == "insensitive":
                continue
            if kind == "unknown":
                bad.append("iterator passed to unrecognised consumer %s" % (callee_name(u)))
                continue
            if kind == "collect":
                dty = b.local_ty(u["dest"]["l"])["s"]
                if re.search(r"Hash(Map|Set)<|BTree(Map|Set)<", dty):
                    # a map rebuilt from a map is order-free only while the keys stay the (unique) keys they were: a closure
                    # that makes the key out of the VALUE can produce the same key twice, and then the entry the hash order
                    # yields last wins
                    if re.search(r"(Hash|BTree)Map<", dty):
                        why = rekeyed_by_value(F, b, adapters)
                        if why:
                            bad.append("collected into `%s` %s: entries whose new keys collide are resolved in hash-map order (the last one visited wins)" % (dty.split("<")[0].split("::")[-1], why))
                    continue
                # sorted immediately afterwards?
                tgt = u["dest"]["l"]
                # follow one move into a named local
                names = {tgt}
                for st_bb in range(len(b.blocks)):
                    for st in b.blocks[st_bb]["st"]:
                        if st["k"] == "assign" and st["rv"]["k"] == "use" and not st["p"]["p"]:
                            q = op_place(st["rv"]["o"])
                            if q is not None and q["l"] in names and not q["p"]:
                                names.add(st["p"]["l"])
                is_sorted = False
                for bk, v in b.calls():
                    vn = callee_name(v) or ""
                    if nd.SORT.search(vn) and v["args"] and nd.root_local(b, v["args"][0]) in names and b.dominates(bj, bk):
                        why = untrusted_sort(F, b, v)
                        if why is None:
                            is_sorted = True
                        else:
                            bad.append("sequence `%s` is sorted, but %s: entries that compare equal keep their hash-map order" % (dty, why))
                            is_sorted = True
                if not is_sorted:
                    bad.append("collected into sequence `%s` without a sort" % dty)
                continue
            # loop consumer
            loop = None
            for header, blocks in b.loops():
                if bj in blocks and (loop is None or len(blocks) > len(loop[1])):
                    # outermost loop containing the next() call that is dominated by the iteration call
                    if b.dominates(bi, header):
                        loop = (header, blocks)
            if loop is None:
                bad.append("next() outside a recognisable loop")
                continue
            header, blocks = loop
            for sb, skind, recv, key in eff.direct_sinks(b, blocks):
                r = nd.root_local(b, recv)
                if not persistent(b, r, blocks):
                    continue
                if skind == "seq":
                    if sorted_after(F, b, recv, header, blocks):
                        continue
                    fl = ".".join(nd.receiver_fields(b, recv)) or (b.local_name(r) or "_%d" % r)
                    bad.append("pushes to sequence `%s` in map order (%s)" % (fl, b.site(sb)))
                else:
                    tainted_slot.setdefault(key, "%s (%s)" % (f.short, b.site(sb)))
            # last write wins: a keyed store inside the loop whose key does not vary with the iterated entry keeps the value
            # of whichever entry the hash order yields last
            for sb in sorted(blocks):
                u2 = b.term(sb)
                if u2["k"] != "call":
                    continue
                n2 = callee_name(u2) or ""
                keys = []
                if re.search(r"(HashMap|BTreeMap)::<.*>::insert$", n2) and len(u2["args"]) >= 3 and persistent(b, nd.root_local(b, u2["args"][0]), blocks):
                    keys.append(u2["args"][1])
                for j in keyed_overwrites(F, callee_id(u2)):
                    if j - 1 < len(u2["args"]):
                        keys.append(u2["args"][j - 1])
                for kop in keys:
                    sl = ctrl.slice_paths(b, [kop])
                    varies = any("[*]" in q[1] for q in sl) or any(q[0][0] == "call" for q in sl)
                    if not varies:
                        bad.append("stores under a key that is the same for every entry, in map order, so the entry visited last wins (%s via %s)" % (b.site(sb), n2.split("::")[-1]))
            for sb in sorted(blocks):
                u2 = b.term(sb)
                if u2["k"] != "call":
                    continue
                cid = callee_id(u2)
                for (pi, skind, key) in eff.eff.get(cid, ()):
                    if pi - 1 >= len(u2["args"]):
                        continue
                    r = nd.root_local(b, u2["args"][pi - 1])
                    if not persistent(b, r, blocks):
                        continue
                    if skind == "seq":
                        # receiver field path inside callee unknown; stack-discipline inside callee already removed
                        bad.append("calls %s which appends to a persistent sequence argument, in map order (%s)" % (callee_name(u2), b.site(sb)))
                    else:
                        tainted_slot.setdefault(key, "%s via %s (%s)" % (f.short, callee_name(u2), b.site(sb)))
        if bad:
            ctx.violation("R20.1", "%s" % f.short, "HashMap/HashSet iteration order reaches output: " + "; ".join(sorted(set(bad))), site, inst)
        else:
            ctx.ok("R20.1", inst, "order-insensitive consumers only")
    ctx.count("hash_iteration_sites", n_iter)
    # slot-map key taint: only a problem if a tainted slot map type is iterated anywhere
    n_slot_iter = 0
    for f in F.fns.values():
        b = Body(f)
        for bi, t in b.calls():
            n = callee_name(t) or ""
            if nd.SLOT_ITER.search(n):
                n_slot_iter += 1
                c = op_const(t["f"])
                k = (c.get("rargs") or c.get("gargs") or ["?"])[0]
                if k in tainted_slot:
                    ctx.violation("R20.1", "%s/slot-iter/%s" % (f.short, k), "slot map keyed by %s is filled in hash order at %s and iterated here" % (k, tainted_slot[k]), b.site(bi))
                else:
                    ctx.ok("R20.1", "%s/slot-iter/%s" % (f.short, k), "slot map iterated; insertion order is not hash-derived")
    # ordering by a tainted slot key (keys compare by slot index = insertion order)
    for f in F.fns.values():
        b = Body(f)
        for bi, t in b.calls():
            n = callee_name(t) or ""
            c = op_const(t["f"]) or {}
            ga = " ".join(c.get("rargs") or c.get("gargs") or [])
            if nd.SORT.search(n) or re.search(r"(Ord|PartialOrd)>::(cmp|partial_cmp|lt|le|gt|ge|max|min)$", n):
                for k in tainted_slot:
                    if k in ga or k in n:
                        ctx.violation("R20.1", "%s/slot-order/%s" % (f.short, k), "keys of %s are assigned in hash order at %s and are used as an ordering here" % (k, tainted_slot[k]), b.site(bi))
    for k, v in tainted_slot.items():
        ctx.note("R20.1", "slot-map keys of %s are assigned in hash order at %s; no iteration of that slot map exists in the workspace (keys are opaque handles)" % (k, v))
    ctx.count("slotmap_iteration_sites", n_slot_iter)

    # R20.2 time sources
    n_time = 0
    for f in F.fns.values():
        if f.crate.endswith(".bin"):
            continue
        b = Body(f)
        for bi, t in b.calls():
            n = callee_name(t) or ""
            if nd.TIME_SRC.search(n):
                n_time += 1
                out = (f.output or {}).get("s", "")
                if re.search(r"GdsDateTimes?$", out):
                    ctx.ok("R20.2", f.short, "time source inside a constructor of the GDSII date type")
                else:
                    ctx.violation("R20.2", f.short, "wall-clock source %s called outside the GDSII creation-timestamp constructor" % n, b.site(bi))
            if nd.OTHER_SEED.search(n):
                ctx.violation("R20.4", "%s/%s" % (f.short, n), "nondeterministic source %s in library code" % n, b.site(bi))
    ctx.floor("R20.2", "time_source_sites", n_time, 1)
    # ---- R20.6 the creation timestamps stay in the timestamp fields: nothing outside gds21 reads their components
    ctx.rule("R20.6", "the components of the GDSII creation timestamps (GdsDateTime: year .. second) are read only inside gds21 (its writer, reader and serialisers): converters and tools derive no other output (a name, a label, an ordering) from the wall clock")
    DT = "gds21::data::GdsDateTime"
    n_reads = 0
    n_scanned = 0

    def field_bases(b, place):
        """ADT ids that each named field projection of the place is applied to"""
        ty = b.local_ty(place["l"])
        out = []
        for e in place["p"]:
            while ty and ty.get("k") in ("ref", "ptr"):
                ty = ty["to"]
            if e == "*" or isinstance(e, str):
                continue
            if "f" in e:
                nxt = None
                if ty and ty.get("k") == "adt":
                    out.append(ty["id"])
                    adt = F.adts.get(ty["id"])
                    if adt:
                        for v in adt["variants"]:
                            for fl in v["fields"]:
                                if fl["name"] == e["n"]:
                                    nxt = fl["ty"]
                elif ty and ty.get("k") == "tuple" and e["f"] < len(ty.get("args", [])):
                    nxt = ty["args"][e["f"]]
                ty = nxt
            elif "dc" in e:
                continue
            else:
                ty = ty.get("to") if ty and ty.get("k") in ("array", "slice") else None
        return out
    from rules.deadrules import _places
    for f in F.fns.values():
        if not f.body or f.derived or not f.id.startswith(("layout21", "lef21")):
            continue
        b = Body(f)
        n_scanned += 1
        for bi, blk in enumerate(b.blocks):
            if blk["cleanup"]:
                continue
            acc = []
            for st in blk["st"]:
                if st["k"] == "assign":
                    _places(st["rv"], acc)
            t = blk["term"]
            if t["k"] == "call":
                _places(t["args"], acc)
            elif t["k"] == "switch":
                _places(t["on"], acc)
            if t["k"] == "call" and re.search(r"fmt::rt::Argument::<.*>::new_\w+$", callee_name(t) or ""):
                c_ = (t["f"] or {}).get("c") or {}
                if any("GdsDateTime" in str(x) for x in (c_.get("rargs") or c_.get("gargs") or [])):
                    n_reads += 1
                    key = "%s/timestamp-format" % f.short
                    ctx.violation("R20.6", key, "%s formats a GDSII creation timestamp into text: that text changes from one run to the next" % f.short, b.site(bi), key)
            for p in acc:
                if DT in field_bases(b, p):
                    n_reads += 1
                    key = "%s/timestamp-read" % f.short
                    ctx.violation("R20.6", key, "%s reads a component of a GDSII creation timestamp: what it produces from it changes from one run to the next (only the timestamp fields themselves are exempt from determinism)" % f.short, b.site(bi), key)
                    break
    ctx.count("timestamp_component_reads_outside_gds21", n_reads)
    ctx.floor("R20.6", "functions_scanned_for_timestamp_reads", n_scanned, 300)
    # ---- R20.5 no process-wide mutable state: a counter or table that outlives one conversion makes its result depend on
    # what the process converted before
    ctx.rule("R20.5", "library code keeps no process-wide mutable state (no `static` with interior mutability other than initialise-once cells): a conversion's result may not depend on earlier conversions in the same process")
    n_static = 0
    for f in F.fns.values():
        if f.crate.endswith(".bin") or not f.id.startswith(("layout21", "gds21", "lef21")):
            continue
        for blk in f.body["blocks"] if f.body else ():
            ops = []
            for st in blk["st"]:
                if st["k"] == "assign":
                    rv = st["rv"]
                    ops += [rv[k] for k in ("o", "l", "r") if k in rv and isinstance(rv[k], dict)]
                    if rv["k"] == "agg":
                        ops += rv["ops"]
            t = blk["term"]
            if t["k"] == "call":
                ops += t["args"]
            for o in ops:
                c = o.get("c") if isinstance(o, dict) else None
                if not c or "static" not in c:
                    continue
                n_static += 1
                tys = (c.get("ty") or {}).get("s", "")
                if re.search(r"Atomic|Mutex|RwLock|RefCell|(^|[^a-zA-Z])Cell<|UnsafeCell|ThreadLocal|LocalKey", tys) and not re.search(r"Lazy|OnceCell|OnceLock|LazyLock|Once\b", tys):
                    key = "%s/%s" % (f.short, c["static"].split("::")[-1])
                    ctx.violation("R20.5", key, "%s uses the process-wide mutable static %s (%s): what a conversion produces then depends on how many conversions the process ran before it" % (f.short, c["static"], tys), "%s:%d" % (blk["sp"][0], blk["sp"][1]), key)
    ctx.count("static_references", n_static)
    ctx.ok("R20.5", "workspace", "%d references to statics inspected, none mutable process-wide state" % n_static)
    # callers of date constructors: must be Default/new constructors in gds21 (the documented exception), or converters
    # that build a *new* GDSII library (GdsLibrary::new / GdsStruct::new).
    date_fns = {f.id for f in F.fns.values() if re.search(r"GdsDateTimes?$", (f.output or {}).get("s", "")) and f.crate == "gds21.lib"}
    for f in F.fns.values():
        if f.crate.endswith(".bin") or f.id in date_fns:
            continue
        b = Body(f)
        for bi, t in b.calls():
            cid = callee_id(t)
            if cid in date_fns and re.search(r"::now$", F.fns[cid].name):
                # direct use of `now` outside Default impl
                if f.crate != "gds21.lib":
                    ctx.violation("R20.2", "%s/now" % f.short, "timestamp taken directly in converter code", b.site(bi))
                else:
                    ctx.ok("R20.2", "%s/now" % f.short, "gds21 default constructor")

    # R20.3 pointer-address ordering
    n_ptr = 0
    for f in F.fns.values():
        b = Body(f)
        for bi, t in b.calls():
            n = callee_name(t) or ""
            c = op_const(t["f"]) or {}
            ga = " ".join(c.get("rargs") or c.get("gargs") or [])
            if re.search(r"(Ord|PartialOrd)>::(cmp|partial_cmp|lt|le|gt|ge)$", n) and re.search(r"ptr::Ptr<|\*const |\*mut ", n + " " + ga):
                n_ptr += 1
                ctx.violation("R20.3", f.short, "ordering by pointer/address (%s)" % n, b.site(bi))
            if nd.SORT.search(n) and re.search(r"ptr::Ptr<", ga) and not re.search(r"_by|_by_key", n):
                n_ptr += 1
                ctx.violation("R20.3", f.short + "/sort", "sorting a sequence of Ptr by address", b.site(bi))
    for i in F.impls:
        if i["trait"] and re.search(r"cmp::(Ord|PartialOrd)", i["trait"]) and "ptr::Ptr" in i["self"]["s"]:
            ctx.violation("R20.3", "impl/" + i["trait"], "Ptr implements an ordering (address order)", None)
    ctx.ok("R20.3", "workspace", "no ordering over Ptr / raw pointers (%d sites)" % n_ptr)
    ctx.ok("R20.4", "workspace", "no rand/thread/env/process-id calls in library crates")
    ctx.assume("determinism of dependencies' own code (slotmap, prost, serde) is not analysed")
