"""C01 — GDSII write-then-read returns the library that was written."""
from rules import gdsrules as gr


def run(ctx):
    g = gr.Gds(ctx)
    from rules import deadrules as _dr
    _dr.rule_parsed_fields_used(ctx, "R01.9", ("gds21::read::",), 30)
    gr.rule_codec_agreement(ctx, g, "R01.1")
    gr.rule_field_diagonal(ctx, g, "R01.2")
    gr.rule_repeatable_records(ctx, g, "R01.10")
    gr.rule_strings_are_utf8(ctx, g, "R01.11")
    # packed STRANS flag word: both sides place each flag on the manual's bit, hence on the same bit
    gr.rule_strans_bits_writer(ctx, g, "R01.2w")
    gr.rule_emission_purity(ctx, g, "R01.6")
    gr.rule_string_padding(ctx, g, "R01.7")
    gr.rule_payload_verbatim(ctx, g, "R01.8")
    gr.rule_strans_bits_reader(ctx, g, "R01.2r")
    # framing both ways: what the writer frames is what the reader unframes, and reading back cannot crash
    gr.rule_writer_header(ctx, g, "R01.3")
    gr.rule_exact_reads(ctx, g, "R01.4")
    from rules import panicrules as pr
    roots = pr.roots_by_short(ctx.F, ("data::GdsLibrary::from_bytes", "data::GdsLibrary::open", "data::GdsLibrary::load"))
    pr.rule_panic_free(ctx, "R01.5", roots, "GdsLibrary::from_bytes/open (reading back what was written)", scope_prefixes=["gds21::"], floor=40)
    ctx.assume("value equality of reals is C15 territory and not decided; strings already ending in NUL are outside the claim")
