"""C01 — GDSII write-then-read returns the library that was written."""
from rules import gdsrules as gr


def run(ctx):
    g = gr.Gds(ctx)
    gr.rule_codec_agreement(ctx, g, "R01.1")
    gr.rule_field_diagonal(ctx, g, "R01.2")
    ctx.assume("value equality of reals is C15 territory and not decided; strings already ending in NUL are outside the claim")
