"""Comparison-only geometry decided over the ordering / equality abstraction (analysis/evalterm.py).

rule_rect_contains      Rect::contains is the closed-box test, whatever the order of the two corners
rule_bbox_contains      BoundBox::contains is p0 <= pt <= p1 per axis; BoundBox::from_points normalises its corners
rule_boundary_as_rect   GDSII boundary -> Rect only when the four points are exactly the corners of that rectangle

These are clauses other properties lean on: net labels are re-attached to shapes by `contains` (C06, C07), and a
boundary that is turned into a Rect must be that rectangle (C06, C07).
"""
import itertools, re
from analysis import evalterm as ev
from analysis.walk import Walker, strip_calls


def _fn(F, short):
    c = [f for f in F.fns.values() if f.short == short]
    return c[0] if len(c) == 1 else None


def P(i, *path):
    t = ("param", i)
    for p in path:
        t = ("f", t, p)
    return t


def rule_rect_contains(ctx, rid):
    ctx.rule(rid, "Rect::contains(pt) is exactly min(p0,p1) <= pt <= max(p0,p1) on both axes (closed, independent of which corner is p0): decided for every relative order of the six coordinates")
    F = ctx.F
    f = _fn(F, "<geom::Rect as geom::ShapeTrait>::contains")
    if f is None:
        ctx.error(rid, "Rect::contains not found")
        return
    leaves = [P(1, "p0", "x"), P(1, "p1", "x"), P(2, "x"), P(1, "p0", "y"), P(1, "p1", "y"), P(2, "y")]

    def oracle(v):
        x0, x1, x, y0, y1, y = (v[l] for l in leaves)
        return min(x0, x1) <= x <= max(x0, x1) and min(y0, y1) <= y <= max(y0, y1)
    _decide(ctx, rid, f, leaves, oracle, "Rect::contains")


def rule_bbox_contains(ctx, rid):
    ctx.rule(rid, "BoundBox::contains(pt) is exactly p0 <= pt <= p1 on both axes, and BoundBox::from_points orders its corners (p0 = minima, p1 = maxima)")
    F = ctx.F
    f = _fn(F, "bbox::BoundBox::contains")
    if f is None:
        ctx.error(rid, "BoundBox::contains not found")
        return
    leaves = [P(1, "p0", "x"), P(1, "p1", "x"), P(2, "x"), P(1, "p0", "y"), P(1, "p1", "y"), P(2, "y")]

    def oracle(v):
        x0, x1, x, y0, y1, y = (v[l] for l in leaves)
        return x0 <= x <= x1 and y0 <= y <= y1
    _decide(ctx, rid, f, leaves, oracle, "BoundBox::contains")
    g = _fn(F, "bbox::BoundBox::from_points")
    if g is None:
        ctx.error(rid, "BoundBox::from_points not found")
        return
    try:
        paths, trunc = ev.summaries(g)
        lv = [P(1, "x"), P(2, "x"), P(1, "y"), P(2, "y")]
        bad = None
        n = 0
        for combo in itertools.product((0, 1, 2), repeat=4):
            vals = dict(zip(lv, combo))
            for facts, ret in paths:
                if not ev.facts_hold(facts, vals.get):
                    continue
                n += 1
                got = _corners(ret, vals.get)
                want = ((min(combo[0], combo[1]), min(combo[2], combo[3])), (max(combo[0], combo[1]), max(combo[2], combo[3])))
                if got != want:
                    bad = (combo, got, want)
        if bad:
            ctx.violation(rid, "BoundBox::from_points", "BoundBox::from_points((%d,%d),(%d,%d)) yields corners %s, expected %s" % (bad[0][0], bad[0][2], bad[0][1], bad[0][3], bad[1], bad[2]), "%s:%d" % (g.sp[0], g.sp[1]))
        else:
            ctx.ok(rid, "BoundBox::from_points", "%d assignments: corners ordered" % n)
    except ev.NotEvaluable as e:
        ctx.error(rid, "BoundBox::from_points not evaluable: %s" % (str(e)[:200],))


def _corners(t, leaf):
    """((x0,y0),(x1,y1)) of a two-point aggregate term"""
    if t[0] != "agg" or len(t[2]) != 2:
        raise ev.NotEvaluable(t)
    return tuple(_point(p, leaf) for p in t[2])


def _point(t, leaf):
    if t[0] == "call" and t[1] and re.search(r"Point::new$", t[1]) and len(t[2]) == 2:
        return (ev.evaluate(t[2][0], leaf), ev.evaluate(t[2][1], leaf))
    if t[0] == "agg" and len(t[2]) == 2:
        return (ev.evaluate(t[2][0], leaf), ev.evaluate(t[2][1], leaf))
    s = strip_calls(t)
    if s is not t:
        return _point(s, leaf)
    raise ev.NotEvaluable(t)


def _decide(ctx, rid, f, leaves, oracle, name):
    try:
        n, bad = ev.decide(f, leaves, (0, 1, 2), oracle)
    except ev.NotEvaluable as e:
        # the function is no longer comparison-only (or calls something unknown): this rule cannot decide it — fail closed
        ctx.error(rid, "%s is not decidable over the ordering abstraction: %s" % (name, str(e)[:200]))
        return
    if bad:
        vals, got, want = bad
        x0, x1, x, y0, y1, y = (vals[l] for l in leaves)
        ctx.violation(rid, name, "%s answers %s for corners (%d,%d),(%d,%d) and point (%d,%d); the closed box says %s" % (name, bool(got), x0, y0, x1, y1, x, y, bool(want)), "%s:%d" % (f.sp[0], f.sp[1]), name)
    else:
        ctx.ok(rid, name, "%d coordinate orderings evaluated, all agree with the closed box" % n)


INDEX = re.compile(r"ops::Index<.*>>::index$|ops::IndexMut<.*>>::index_mut$|::get_unchecked$")


def rule_boundary_as_rect(ctx, rid, tier="quick"):
    """the GDSII importer may replace a closed four-point boundary by a Rect only if those points are the rectangle's corners"""
    ctx.rule(rid, "a GDSII boundary is imported as a Rect only under a condition that makes its four points exactly the corners of that Rect (decided over every equality pattern of the eight coordinates)")
    F = ctx.F
    cands = [f for f in F.fns.values() if f.id.startswith("layout21raw::gds::") and f.inputs and len(f.inputs) == 2 and "GdsBoundary" in f.inputs[1].get("s", "")]
    if len(cands) != 1:
        ctx.error(rid, "boundary importer not found uniquely: %s" % [f.short for f in cands])
        return
    f = cands[0]
    w = Walker(f, max_visits=1, follow_errors=False, max_paths=20000)
    hits = []

    def on_stmt(path, bb, st, val):
        if val and val[0] == "agg" and str(val[1]).endswith("geom::Rect::Rect"):
            hits.append((dict(path.facts), val))
    w.run(on_stmt=on_stmt)
    if not hits:
        ctx.ok(rid, f.short + "/no-rect", "boundaries are never turned into a Rect")
        return

    def mkleaf(pts, npts):
        def leaf(t):
            if t[0] == "f" and t[2] in ("x", "y") and t[1][0] == "call" and t[1][1] and INDEX.search(t[1][1]) and len(t[1][2]) == 2:
                ix = t[1][2][1]
                if ix[0] == "const" and ix[2] is not None and ix[2] < len(pts):
                    return pts[ix[2]][0 if t[2] == "x" else 1]
            if t[0] == "call" and t[1] and re.search(r"Vec::<.*>::len$|::len$", t[1]):
                return npts
            if t[0] == "call" and t[1] and re.search(r"::is_empty$", t[1]):
                return 0
            return None
        return leaf

    def ptleaf(t, pts):
        s = t
        while s[0] == "call" and s[1] and re.search(r"Clone>::clone$|::clone$|Deref>::deref$", s[1]) and s[2]:
            s = s[2][0]
        if s[0] == "call" and s[1] and INDEX.search(s[1]) and len(s[2]) == 2 and s[2][1][0] == "const" and s[2][1][2] is not None:
            return pts[s[2][1][2]]
        raise ev.NotEvaluable(t)
    dom = (0, 1, 2) if tier == "quick" else (0, 1, 2, 3)
    n = 0
    bad = None
    undecided = 0
    for xs in itertools.product(dom, repeat=4):
        for ys in itertools.product(dom, repeat=4):
            pts = list(zip(xs, ys))
            leaf = mkleaf(pts, 4)
            for facts, val in hits:
                try:
                    if not ev.facts_hold(facts, leaf, strict=False):
                        continue
                    p0, p1 = ptleaf(val[2][0], pts), ptleaf(val[2][1], pts)
                except ev.NotEvaluable:
                    undecided += 1
                    continue
                n += 1
                corners = {(p0[0], p0[1]), (p0[0], p1[1]), (p1[0], p1[1]), (p1[0], p0[1])}
                # the closed polyline through the four points must run along the rectangle's sides
                ring = pts + [pts[0]]
                along = all(a[0] == b[0] or a[1] == b[1] for a, b in zip(ring, ring[1:]))
                if set(pts) != corners or not along:
                    if bad is None or len(set(pts)) > len(set(bad[0])):
                        bad = (pts, p0, p1)
    if undecided and not n:
        ctx.error(rid, "%s: rectangle recognition not evaluable" % f.short)
        return
    if bad:
        pts, p0, p1 = bad
        ctx.violation(rid, f.short + "/rect-recognition", "%s imports the boundary %s as Rect(%s, %s): the polygon is not that rectangle (a vertex moves and the area changes)" % (f.short, pts, p0, p1), "%s:%d" % (f.sp[0], f.sp[1]), f.short + "/rect-recognition")
    else:
        ctx.ok(rid, f.short + "/rect-recognition", "%d (equality pattern, path) pairs reach the Rect; in each the four points are its corners" % n)
    ctx.count("rect_recognition_cases", n)
