"""C10 — the GDSII reader never crashes or hangs on any input bytes (E3)."""
import re
from analysis import panics as pn, ordering as od, gdscodec as gc
from analysis.mir import Body, callee_name, callee_id
from rules import panicrules as pr, gdsrules as gr

ENTRY = ("data::GdsLibrary::from_bytes", "data::GdsLibrary::open", "data::GdsLibrary::load")


def run(ctx):
    F = ctx.F
    roots = pr.roots_by_short(F, ENTRY)
    reach = pr.rule_panic_free(ctx, "R10.1", roots, "GdsLibrary::from_bytes/open", scope_prefixes=["gds21::"], floor=40)
    pr.rule_acyclic(ctx, "R10.3", reach, "GdsLibrary::from_bytes/open", ["gds21::", "layout21utils::"])
    gr.rule_exact_reads(ctx, None, "R10.6")
    gr.rule_repeatable_records(ctx, None, "R10.7")
    gr.rule_strings_are_utf8(ctx, None, "R10.8")
    cg = pr.callgraph(F)

    # ---- R10.2 loop progress
    ctx.rule("R10.2", "every loop reachable from the reader is driven by a finite std iterator, or consumes a record on every cycle and leaves the loop on the sticky ENDLIB record")
    # consuming functions: those from which a std io read is reachable
    consuming = set()
    io_read = re.compile(r"std::io::Read::read|byteorder::ReadBytesExt::read_|io::Seek::seek")
    direct = set()
    for fid in reach:
        b = Body(F.fns[fid])
        for bi, t in b.calls():
            if io_read.search(callee_name(t) or ""):
                direct.add(fid)
    changed = True
    consuming = set(direct)
    while changed:
        changed = False
        for fid in reach:
            if fid in consuming:
                continue
            if any(c in consuming for c in cg.edges.get(fid, ())):
                consuming.add(fid)
                changed = True
    n_loops = 0
    for fid in sorted(reach):
        f = F.fns[fid]
        if not fid.startswith("gds21::"):
            continue
        b = Body(f)
        for header, blocks in b.loops():
            n_loops += 1
            key = "%s/loop@%s" % (f.short, loop_role(b, header, blocks))
            # (a) iterator driven
            nexts = [x for x in blocks if b.term(x)["k"] == "call" and re.search(r"::next$", callee_name(b.term(x)) or "") and re.search(r"Iterator", callee_name(b.term(x)) or "") and not (callee_id(b.term(x)) or "").startswith(("gds21::", "lef21::", "layout21"))]
            if nexts and not pn.cycle_without(b, header, blocks, nexts):
                ctx.ok("R10.2", key, "driven by a std iterator")
                continue
            cons = [x for x in blocks if b.term(x)["k"] == "call" and callee_id(b.term(x)) in consuming]
            if not cons:
                ctx.violation("R10.2", key, "%s has a loop that neither iterates a finite collection nor consumes input" % f.short, b.site(header))
                continue
            if pn.cycle_without(b, header, blocks, cons):
                ctx.violation("R10.2", key, "%s: a cycle of the loop avoids every input-consuming call (can spin forever)" % f.short, b.site(header))
                continue
            # sticky ENDLIB: the record switch inside the loop must not send EndLib around the loop
            sw = gc.main_record_switch(F, b)
            if sw is not None and sw[0] in blocks:
                arms = gc.parser_arms(F, f)
                if arms["cls"].get("EndLib") == "loop":
                    ctx.violation("R10.2", key + "/endlib", "%s keeps looping on ENDLIB, which the record source returns forever" % f.short, b.site(header))
                    continue
            # loops fed only by the sticky record source (GdsParser::next / peek return ENDLIB again and again without
            # consuming): some record test inside the loop must send EndLib out of the loop (or to an error)
            sticky = [x for x in cons if re.search(r"GdsParser::<.*>::(next|peek)$|GdsParser::(next|peek)$", callee_name(b.term(x)) or "")]
            if sticky and len(sticky) == len(cons):
                leaves = False
                for sbb, arms_, other, eid in od.enum_switches(F, b, "gds21::data::GdsRecord"):
                    if sbb not in blocks:
                        continue
                    tgt = arms_.get("EndLib", other)
                    if tgt is None:
                        continue
                    inside = od.reach(b, tgt) if tgt in blocks else set()
                    back = tgt in blocks and (header in {y for x in inside & blocks for y in b.succs[x]} or tgt == header)
                    # stay inside the loop's blocks only
                    if tgt not in blocks:
                        leaves = True
                    else:
                        seen_, st_ = {tgt}, [tgt]
                        hit_header = False
                        while st_:
                            x = st_.pop()
                            for y in b.succs[x]:
                                if y == header:
                                    hit_header = True
                                if y in blocks and y not in seen_:
                                    seen_.add(y)
                                    st_.append(y)
                        if not hit_header:
                            leaves = True
                if not leaves:
                    ctx.violation("R10.2", key + "/endlib", "%s: this loop is fed only by the record source, which returns ENDLIB for ever once it is reached, and nothing in the loop sends an ENDLIB record out of it: a stream that ends the library early makes the reader spin" % f.short, b.site(header), key + "/endlib")
                    continue
            ctx.ok("R10.2", key, "consumes a record per cycle; ENDLIB leaves the loop")
    ctx.floor("R10.2", "reader_loops", n_loops, 4)

    # ---- R10.4 header before payload
    ctx.rule("R10.4", "the payload decoder is only called with a header that the header reader returned successfully")
    n = 0
    for fid in reach:
        f = F.fns[fid]
        b = Body(f)
        for bi, t in b.calls():
            cn = callee_name(t) or ""
            if re.search(r"GdsReader::<.*>::read_record_content$", cn):
                n += 1
                # some call to read_record_header dominates it
                hdr = [bj for bj, u in b.calls() if re.search(r"read_record_header$", callee_name(u) or "") and b.dominates(bj, bi)]
                if hdr:
                    ctx.ok("R10.4", f.short, "header read dominates payload read")
                else:
                    ctx.violation("R10.4", f.short, "payload is decoded without a validated header", b.site(bi))
    ctx.floor("R10.4", "payload_decode_calls", n, 1)

    # ---- R10.5 truncated streams are never accepted
    ctx.rule("R10.5", "the library parser can only return Ok after having seen ENDLIB")
    prs = gr.parsers_by_type(F)
    f = prs.get("gds21::data::GdsLibrary")
    if f is None:
        ctx.error("R10.5", "library parser not found")
    else:
        b = Body(f)
        sw = gc.main_record_switch(F, b)
        okb, errb = od.ret_kind_blocks(b)
        if sw is None:
            ctx.error("R10.5", "no record switch in library parser")
        else:
            bi, arms, other, eid = sw
            tgt = arms.get("EndLib")
            r = od.reach(b, 0, removed={tgt} if tgt is not None else set())
            if tgt is None or (r & okb):
                ctx.violation("R10.5", f.short, "the library parser can return Ok without having read ENDLIB (a truncated stream would be accepted)", "%s:%d" % (f.sp[0], f.sp[1]))
            else:
                ctx.ok("R10.5", f.short, "every Ok return is dominated by the ENDLIB arm")
    ctx.assume("std::io::Read::read_exact returns Err at end of input; allocation sizes are bounded by the 16-bit record length")
    ctx.assume("time proportional to input length is decided only as per-iteration progress")


def loop_role(b, header, blocks):
    """stable label for a loop: the callee names it contains (no line numbers)"""
    names = set()
    for x in blocks:
        t = b.term(x)
        if t["k"] == "call":
            n = (callee_name(t) or "").split("::")[-1]
            if n not in ("branch", "from_residual", "into", "clone", "deref", "next", "into_iter", "iter"):
                names.add(n)
    return ",".join(sorted(names))[:80] or "empty"
