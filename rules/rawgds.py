"""Shared rules for the raw <-> GDSII converters (C06, C07)."""
import re
from analysis import flow, ordering as od
from analysis.mir import Body, callee_name, callee_id, op_const, op_place
from analysis.walk import Walker, field_chain, strip_calls
from analysis import gdscodec as gc
from analysis.inline import inlined
from rules.flowrules import select, check_flows
from rules.gdsrules import get_flow

PFX = "layout21raw::gds::"
EXP = r"^&mut gds::GdsExporter<"
IMP = r"^&mut gds::GdsImporter$"

IMPORT = [
    ("point", [IMP, r"^&gds21::GdsPoint$"], r"Result<geom::Point,", [
        (("x",), [(2, ("x",))], [(2, ("y",))]), (("y",), [(2, ("y",))], [(2, ("x",))])]),
    ("instance", [IMP, r"^&gds21::GdsStructRef$"], r"Result<data::Instance,", [
        (("cell",), [(2, ("name",))], []),
        (("loc", "x"), [(2, ("xy", "x"))], [(2, ("xy", "y")), (2, ("strans",)), (2, ("name",))]),
        (("loc", "y"), [(2, ("xy", "y"))], [(2, ("xy", "x")), (2, ("strans",)), (2, ("name",))]),
        (("reflect_vert",), [(2, ("strans", "reflected"))], [(2, ("strans", "abs_angle")), (2, ("strans", "abs_mag"))]),
        (("angle",), [(2, ("strans", "angle"))], [(2, ("strans", "mag"))]),
    ]),
    ("array", [IMP, r"^&gds21::GdsArrayRef$"], r"Result<.*Vec<data::Instance>", [
        (("[*]", "cell"), [(2, ("name",))], []),
        (("[*]", "loc", "x"), [(2, ("xy", "[0]", "x")), (2, ("xy", "[1]", "x")), (2, ("cols",))], []),
        (("[*]", "loc", "y"), [(2, ("xy", "[0]", "y")), (2, ("xy", "[2]", "y")), (2, ("rows",))], []),
        (("[*]", "reflect_vert"), [(2, ("strans", "reflected"))], []),
        (("[*]", "angle"), [(2, ("strans", "angle"))], []),
    ]),
    ("boundary", [IMP, r"^&gds21::GdsBoundary$"], r"Result<data::Element,", [
        (("inner", "as:Rect", "0", "p0"), [(2, ("xy",))], []),
        (("inner", "as:Rect", "0", "p1"), [(2, ("xy",))], []),
        (("inner", "as:Polygon", "0", "points"), [(2, ("xy",))], []),
        (("layer",), [(2, ("layer",))], []),
        (("purpose",), [(2, ("datatype",))], []),
    ]),
    ("box", [IMP, r"^&gds21::GdsBox$"], r"Result<data::Element,", [
        (("inner", "as:Rect", "0", "p0"), [(2, ("xy", "[0]"))], [(2, ("xy", "[2]")), (2, ("xy", "[1]")), (2, ("xy", "[3]"))]),
        (("inner", "as:Rect", "0", "p1"), [(2, ("xy", "[2]"))], [(2, ("xy", "[0]")), (2, ("xy", "[1]")), (2, ("xy", "[3]"))]),
        (("layer",), [(2, ("layer",))], []),
        (("purpose",), [(2, ("boxtype",))], []),
    ]),
    ("path", [IMP, r"^&gds21::GdsPath$"], r"Result<data::Element,", [
        (("inner", "as:Path", "0", "points"), [(2, ("xy",))], [(2, ("width",))]),
        (("inner", "as:Path", "0", "width"), [(2, ("width",))], [(2, ("xy",))]),
        (("layer",), [(2, ("layer",))], []),
        (("purpose",), [(2, ("datatype",))], []),
    ]),
    ("layout", [IMP, r"^&gds21::GdsStruct$"], r"Result<data::Layout,", [
        (("name",), [(2, ("name",))], []),
        (("insts",), [(2, ("elems", "as:GdsStructRef")), (2, ("elems", "as:GdsArrayRef"))], []),
        (("elems",), [(2, ("elems", "as:GdsBoundary")), (2, ("elems", "as:GdsPath")), (2, ("elems", "as:GdsBox"))], []),
        (("elems", "[*]", "net"), [(2, ("elems", "as:GdsTextElem", "0", "string"))], []),
        (("annotations", "[*]", "string"), [(2, ("elems", "as:GdsTextElem", "0", "string"))], []),
        (("annotations", "[*]", "loc"), [(2, ("elems", "as:GdsTextElem", "0", "xy"))], []),
    ]),
]
EXPORT = [
    ("point", [EXP, r"^&geom::Point$"], r"Result<gds21::GdsPoint,", [
        (("x",), [(2, ("x",))], [(2, ("y",))]), (("y",), [(2, ("y",))], [(2, ("x",))])]),
    ("instance", [EXP, r"^&data::Instance$"], r"Result<gds21::GdsStructRef,", [
        (("name",), [(2, ("cell",))], []),
        (("xy", "x"), [(2, ("loc", "x"))], [(2, ("loc", "y")), (2, ("cell",)), (2, ("reflect_vert",)), (2, ("angle",))]),
        (("xy", "y"), [(2, ("loc", "y"))], [(2, ("loc", "x")), (2, ("cell",)), (2, ("reflect_vert",)), (2, ("angle",))]),
        (("strans", "reflected"), [(2, ("reflect_vert",))], []),
        (("strans", "angle"), [(2, ("angle",))], []),
    ]),
    ("shape", [EXP, r"^&geom::Shape$", r"^&gds21::GdsLayerSpec$"], r"Result<gds21::GdsElement,", [
        (("as:GdsBoundary", "0", "xy"), [(2, ("as:Rect", "0", "p0")), (2, ("as:Rect", "0", "p1")), (2, ("as:Polygon", "0", "points"))], []),
        (("as:GdsBoundary", "0", "layer"), [(3, ("layer",))], [(3, ("xtype",))]),
        (("as:GdsBoundary", "0", "datatype"), [(3, ("xtype",))], [(3, ("layer",))]),
        (("as:GdsPath", "0", "xy"), [(2, ("as:Path", "0", "points"))], []),
        (("as:GdsPath", "0", "width"), [(2, ("as:Path", "0", "width"))], []),
        (("as:GdsPath", "0", "layer"), [(3, ("layer",))], [(3, ("xtype",))]),
        (("as:GdsPath", "0", "datatype"), [(3, ("xtype",))], [(3, ("layer",))]),
    ]),
    ("label", [EXP, r"^&str$", r"^&geom::Shape$", r"^&gds21::GdsLayerSpec$"], r"Result<gds21::GdsElement,", [
        (("as:GdsTextElem", "0", "string"), [(2, ())], []),
        (("as:GdsTextElem", "0", "xy"), [(3, ())], []),
        (("as:GdsTextElem", "0", "layer"), [(4, ("layer",))], [(4, ("xtype",))]),
        (("as:GdsTextElem", "0", "texttype"), [(4, ("xtype",))], [(4, ("layer",))]),
    ]),
    ("element", [EXP, r"^&data::Element$"], r"Result<std::vec::Vec<gds21::GdsElement>,", [
        (("[*]", "as:GdsBoundary", "0", "xy"), [(2, ("inner",))], []),
        (("[*]", "as:GdsBoundary", "0", "layer"), [(2, ("layer",))], []),
        (("[*]", "as:GdsBoundary", "0", "datatype"), [(2, ("layer",)), (2, ("purpose",))], []),
        (("[*]", "as:GdsTextElem", "0", "string"), [(2, ("net",))], []),
        (("[*]", "as:GdsTextElem", "0", "xy"), [(2, ("inner",))], []),
    ]),
    ("layout", [EXP, r"^&data::Layout$"], r"Result<gds21::GdsStruct,", [
        (("name",), [(2, ("name",))], []),
        (("elems",), [(2, ("insts",)), (2, ("elems",))], []),
    ]),
]


def run_tables(ctx, rid_e, rid_i, do_export=True, do_import=True):
    F = ctx.F
    for rid, table, side, on in ((rid_e, EXPORT, "export", do_export), (rid_i, IMPORT, "import", do_import)):
        if not on:
            continue
        n = 0
        for label, ins, out, rows in table:
            fns = select(F, PFX, ins, out)
            if len(fns) != 1:
                ctx.violation(rid, "%s/%s/anchor" % (side, label), "expected one %s converter for %s, found %s" % (side, label, [f.short for f in fns]), None)
                continue
            n += 1
            check_flows(ctx, rid, fns[0], rows, "%s_%s" % (side, label))
        ctx.floor(rid, side + "_converters", n, 5)


def export_lib_fn(F):
    fs = [f for f in select(F, PFX, [EXP], r"Result<gds21::GdsLibrary,") if not f.pub]
    return fs[0] if len(fs) == 1 else None


def float_const(t):
    if t[0] == "const" and isinstance(t[1], str):
        m = re.match(r"(-?[\d.]+(?:[eE][-+]?\d+)?)f64$", t[1].replace("_", ""))
        if m:
            return float(m.group(1))
    return None


def exporter_unit_table(F, f):
    """Units variant -> db-unit constant (metres) the exporter writes"""
    w = Walker(f, max_visits=1, max_paths=2000)
    table = {}
    uid = "layout21raw::data::Units"

    def on_call(path, bb, t, name, args):
        if name and name.endswith("GdsUnits::new") and len(args) == 2:
            v = None
            for k, fv in path.facts.items():
                if k[0] == "discr" and fv[0] == "=" and len(k) > 1:
                    root, chain = field_chain(k[1])
                    if chain and chain[-1] == "units":
                        v = F.variant_of(uid, fv[1])
            if v is not None:
                table[v] = (float_const(args[0]), float_const(args[1]))
        return None
    w.run(on_call=on_call)
    return table


def importer_unit_table(F, f):
    """Units variant -> constant the db unit is compared against on the path that returns it"""
    w = Walker(f, max_visits=1, max_paths=2000)
    table = {}

    def consts_in(t, acc):
        if not isinstance(t, tuple):
            return
        c = float_const(t)
        if c is not None:
            acc.append(c)
        for x in t[1:]:
            if isinstance(x, tuple):
                if x and isinstance(x[0], str):
                    consts_in(x, acc)
                else:
                    for y in x:
                        consts_in(y, acc)

    def on_return(path):
        ret = path.env.get(0)
        found = gc.find_terms(ret, lambda x: x[0] == "agg" and isinstance(x[1], str) and x[1].startswith("layout21raw::data::Units::")) if ret else []
        if not found:
            return
        v = found[0][1].split("::")[-1]
        # the comparison that was true on this path: facts ('val', Lt(abs(gdsunit - c), eps)) != 0
        cs = []
        for k, fv in path.facts.items():
            if k[0] == "val" and isinstance(k[1], tuple) and k[1][0] == "op" and k[1][1] in ("Lt", "Le"):
                truth = (fv[0] == "=" and fv[1] != 0) or (fv[0] == "!=" and 0 in fv[1])
                if truth:
                    acc = []
                    consts_in(k[1][2][0], acc)
                    cs += acc
        table[v] = cs
    w.run(on_return=on_return)
    return table


def rule_units(ctx, rid):
    F = ctx.F
    ctx.rule(rid, "every Units variant the exporter can write as a GDSII database unit is recognised by the importer, with the same constant")
    ef = export_lib_fn(F)
    imf = select(F, PFX, [IMP, r"^&gds21::GdsUnits$"], r"Result<data::Units,")
    if ef is None or len(imf) != 1:
        ctx.error(rid, "export_lib / import_units not found")
        return
    et = exporter_unit_table(F, ef)
    it = importer_unit_table(F, imf[0])
    allv = [v["name"] for v in F.adts["layout21raw::data::Units"]["variants"]]
    ctx.floor(rid, "unit_variants", len(allv), 3)
    SI = {"Micro": 1e-6, "Nano": 1e-9, "Angstrom": 1e-10, "Pico": 1e-12}
    for v in allv:
        e = et.get(v)
        if e is None:
            ctx.violation(rid, "export/%s" % v, "Units::%s is not exported to a GDSII unit" % v, "%s:%d" % (ef.sp[0], ef.sp[1]))
            continue
        if v in SI and e[1] is not None and abs(e[1] - SI[v]) > SI[v] * 1e-9:
            ctx.violation(rid, "export/%s/value" % v, "Units::%s is exported with database unit %g m, SI says %g m" % (v, e[1], SI[v]), "%s:%d" % (ef.sp[0], ef.sp[1]))
        i = it.get(v)
        if i is None:
            ctx.violation(rid, "import/%s" % v, "Units::%s is exported (database unit %s m) but the importer can never produce it: a %s library does not survive export and import" % (v, e[1], v), "%s:%d" % (imf[0].sp[0], imf[0].sp[1]), "import/%s" % v)
        elif e[1] is not None and not any(abs(c - e[1]) <= abs(e[1]) * 1e-9 for c in i):
            ctx.violation(rid, "import/%s/value" % v, "Units::%s is written as %g m but recognised around %s" % (v, e[1], i), "%s:%d" % (imf[0].sp[0], imf[0].sp[1]))
        else:
            ctx.ok(rid, "units/%s" % v, "%s m both ways" % e[1])


_HPF = {}


def helper_pushes_first(F, g):
    """does helper g push (a copy / conversion of) element 0 of one of its slice parameters onto a Vec?"""
    if g.id in _HPF:
        return _HPF[g.id]
    _HPF[g.id] = False
    w = Walker(g, max_visits=2, max_paths=2000)
    hit = [False]

    def on_call(path, bb, t, name, args):
        n = name or ""
        if re.search(r"Vec::<.*>::push$", n) and len(args) == 2:
            for tt in gc.find_terms(args[1], lambda x: (x[0] == "i" and x[2] == 0) or (x[0] == "call" and x[1] and re.search(r"::index$", x[1]) and len(x[2]) > 1 and x[2][1][0] == "const" and x[2][1][2] == 0)):
                base = tt[1] if tt[0] == "i" else tt[2][0]
                r2, ch2 = field_chain(base)
                if isinstance(r2, tuple) and r2[0] == "param":
                    hit[0] = True
        return None
    w.run(on_call=on_call)
    _HPF[g.id] = hit[0]
    return hit[0]


def rule_closure(ctx, rid):
    """closing point appended on export iff removed on import, per shape kind"""
    F = ctx.F
    ctx.rule(rid, "the exporter appends a copy of the first point exactly for the element kinds from which the importer removes one (closed boundaries), so an open path stays open")
    ex = select(F, PFX, [EXP, r"^&geom::Shape$", r"^&gds21::GdsLayerSpec$"], r"Result<gds21::GdsElement,")
    if len(ex) != 1:
        ctx.error(rid, "export_shape not found")
        return
    # helpers of the exporter (export_boundary / export_points ..) are read as part of export_shape
    f = inlined(F, ex[0], depth=3)
    b = Body(f)
    sws = od.enum_switches(F, b, "layout21raw::geom::Shape")
    if not sws:
        ctx.error(rid, "no match on Shape in export_shape")
        return
    bi, arms, other, eid = sws[0]
    adds = {}
    target = {}
    w = Walker(f, max_visits=2, max_paths=4000)
    info = {}

    def on_call(path, bb, t, name, args):
        v = None
        for k, fv in path.facts.items():
            if k[0] == "discr" and fv[0] == "=" and len(k) > 1 and k[1] == ("param", 2):
                v = F.variant_of(eid, fv[1])
        if v is None:
            return None
        n = name or ""
        if re.search(r"Vec::<.*>::push$", n) and len(args) == 2:
            # pushed value derives from points[0] of the shape?
            root, chain = field_chain(args[1])
            terms = gc.find_terms(args[1], lambda x: x[0] == "i" and x[2] == 0)
            idx0 = False
            for tt in terms:
                r2, ch2 = field_chain(tt)
                if ch2 and "points" in ch2:
                    idx0 = True
            for tt in gc.find_terms(args[1], lambda x: x[0] == "call" and x[1] and re.search(r"::index$", x[1]) and len(x[2]) > 1 and x[2][1][0] == "const" and x[2][1][2] == 0):
                r2, ch2 = field_chain(tt[2][0])
                if ch2 and "points" in ch2:
                    idx0 = True
                # `xy.push(xy[0].clone())`: element 0 of the very vector that is being extended
                if strip_calls(tt[2][0]) == strip_calls(args[0]):
                    idx0 = True
            if idx0:
                info.setdefault(v, set()).add("push-first")
        # the closing point may be appended by a helper that receives the shape's points
        g = F.fns.get(callee_id(t))
        if g is not None and g.id.startswith(PFX) and g.id != f.id and g.body:
            passes_points = any(a is not None and "points" in (field_chain(a)[1] or []) for a in args)
            if passes_points and helper_pushes_first(F, g):
                info.setdefault(v, set()).add("push-first")
        return None

    def on_stmt(path, bb, st, val):
        v = None
        for k, fv in path.facts.items():
            if k[0] == "discr" and fv[0] == "=" and len(k) > 1 and k[1] == ("param", 2):
                v = F.variant_of(eid, fv[1])
        if v is None:
            return
        if val[0] == "agg" and isinstance(val[1], str) and re.search(r"gds21::data::Gds(Boundary|Path|Box)::", val[1]):
            target[v] = val[1].split("::")[-1]
        if val[0] == "agg" and val[1] == "array" and len(val[2]) == 5 and val[2][0] == val[2][4]:
            info.setdefault(v, set()).add("explicit-closed")
    w.run(on_call=on_call, on_stmt=on_stmt)
    # importer side: does the importer of each GDS element kind pop a point
    removes = {}
    for kind, ty in (("GdsBoundary", r"^&gds21::GdsBoundary$"), ("GdsPath", r"^&gds21::GdsPath$")):
        fs = select(F, PFX, [IMP, ty], r"Result<data::Element,")
        if len(fs) != 1:
            ctx.error(rid, "importer for %s not found" % kind)
            continue
        bb_ = Body(fs[0])
        rem = False
        for bi2, t in bb_.calls():
            if re.search(r"Vec::<.*>::(pop|truncate|remove)$", callee_name(t) or "") and t["args"]:
                from analysis.nondet import root_local
                r = root_local(bb_, t["args"][0])
                if r is not None and "geom::Point" in bb_.local_ty(r)["s"]:
                    rem = True
        removes[kind] = rem
    n = 0
    for v in [x["name"] for x in F.adts["layout21raw::geom::Shape"]["variants"]]:
        n += 1
        tgt = target.get(v)
        added = bool(info.get(v))
        if tgt is None:
            ctx.violation(rid, "closure/%s" % v, "Shape::%s is not exported to a GDSII boundary or path" % v, "%s:%d" % (f.sp[0], f.sp[1]))
            continue
        rem = removes.get(tgt)
        if rem is None:
            continue
        if added == rem:
            ctx.ok(rid, "closure/%s" % v, "%s: closing point %s on both sides" % (tgt, "added/removed" if added else "absent"))
        elif added:
            ctx.violation(rid, "closure/%s" % v, "Shape::%s is exported as %s with its first point repeated at the end, but the importer keeps that point: the shape comes back with an extra point (an open path comes back closed)" % (v, tgt), "%s:%d" % (f.sp[0], f.sp[1]), "closure/%s" % v)
        else:
            ctx.violation(rid, "closure/%s" % v, "Shape::%s is exported as %s without a closing point, but the importer removes the last point" % (v, tgt), "%s:%d" % (f.sp[0], f.sp[1]), "closure/%s" % v)
    ctx.floor(rid, "shape_kinds", n, 3)


def rule_required_options(ctx, rid):
    """sibling agreement on optional GDSII fields: what the importer insists on, the exporter always provides"""
    from analysis import ctrl
    F = ctx.F
    ctx.rule(rid, "an optional GDSII field that the importer refuses to do without (None leads to an error) is set to Some(..) on every path of the exporter that builds that element: otherwise a library the exporter writes cannot be imported again")
    # importer side: Option fields of the GDS element parameter consumed by ok_or / ok_or_else / unwrap / expect
    required = {}   # (struct id, field) -> importer fn
    for f in F.fns.values():
        if not f.id.startswith(PFX) or not f.body or f.kind == "Closure" or len(f.inputs) != 2 or not re.search(IMP, f.inputs[0]["s"]):
            continue
        ty = f.inputs[1]
        while ty.get("k") == "ref":
            ty = ty["to"]
        if ty.get("k") != "adt" or not ty["id"].startswith("gds21::data::Gds") or ty["id"] not in F.adts:
            continue
        b = Body(f)
        opt_fields = {fl["name"] for v in F.adts[ty["id"]]["variants"] for fl in v["fields"] if fl["ty"].get("id", "").endswith("option::Option")}
        for bi, t in b.calls():
            n = callee_name(t) or ""
            if not re.search(r"Option::<.*>::(ok_or|ok_or_else|unwrap|expect)$", n) or not t["args"]:
                continue
            for q in ctrl.slice_paths(b, t["args"][:1]):
                fs = [x for x in ctrl._strip(q[1]) if not str(x).startswith("[")]
                if q[0] == ("arg", 2) and len(fs) >= 1 and fs[0] in opt_fields:
                    required[(ty["id"], fs[0])] = f
    # ... or matched with a None arm that only reaches error returns (`if let Some(w) = x.width { .. } else { return fail }`)
    for f in F.fns.values():
        if not f.id.startswith(PFX) or not f.body or f.kind == "Closure" or len(f.inputs) != 2 or not re.search(IMP, f.inputs[0]["s"]):
            continue
        ty = f.inputs[1]
        while ty.get("k") == "ref":
            ty = ty["to"]
        if ty.get("k") != "adt" or not ty["id"].startswith("gds21::data::Gds") or ty["id"] not in F.adts:
            continue
        b = Body(f)
        opt_fields = {fl["name"] for v in F.adts[ty["id"]]["variants"] for fl in v["fields"] if fl["ty"].get("id", "").endswith("option::Option")}
        okb, errb = od.ret_kind_blocks(b)
        for bi, blk in enumerate(b.blocks):
            if blk["term"]["k"] != "switch" or bi not in b.reachable or blk["cleanup"]:
                continue
            c = ctrl.classify_switch(b, bi)
            if c[0] != "discr" or c[1][0] != ("arg", 2):
                continue
            fs = [x for x in ctrl._strip(c[1][1]) if not str(x).startswith("[")]
            if len(fs) != 1 or fs[0] not in opt_fields:
                continue
            t = blk["term"]
            arms_ = dict((v, tg) for v, tg in t["arms"])
            none_t = arms_.get(0, t["else"] if 1 in arms_ else None)
            if none_t is None or b.is_unreachable_blk(none_t):
                continue
            if not (od.reach(b, none_t, removed=errb) & okb):
                required[(ty["id"], fs[0])] = f
    ctx.count(rid + "_required_fields", sorted("%s.%s" % (k[0].split("::")[-1], k[1]) for k in required))
    # exporter side: every construction of such a struct sets the field to Some(..)
    n = 0
    for f in F.fns.values():
        if not f.id.startswith(PFX) or not f.body or f.kind == "Closure" or not f.inputs or not re.search(EXP, f.inputs[0]["s"]):
            continue
        tids = {st["rv"]["id"] for blk in f.body["blocks"] for st in blk["st"] if st["k"] == "assign" and st["rv"]["k"] == "agg" and st["rv"].get("id") in {k[0] for k in required}}
        if not tids:
            continue
        w = Walker(f, max_visits=2, follow_errors=False, max_paths=4000, max_depth=24)
        seen = {}

        def on_stmt(path, bb, st, val, seen=seen, f=f):
            if val and val[0] == "agg" and isinstance(val[1], str):
                sid = val[1].rsplit("::", 1)[0]
                if sid in tids and sid in F.adts:
                    names = [fl["name"] for fl in F.adts[sid]["variants"][0]["fields"]]
                    for (rs, rf) in required:
                        if rs == sid and rf in names and names.index(rf) < len(val[2]):
                            v = strip_calls(val[2][names.index(rf)])
                            some = v and v[0] == "agg" and str(v[1]).endswith("Option::Some")
                            seen.setdefault((sid, rf), []).append((bool(some), bb, v))
        w.run(on_stmt=on_stmt)
        for (sid, rf), obs in sorted(seen.items()):
            n += 1
            key = "%s/%s.%s" % (f.short, sid.split("::")[-1], rf)
            bad = [o for o in obs if not o[0]]
            if bad:
                ctx.violation(rid, key, "%s can build a %s whose `%s` is not Some(..) (%s), but %s refuses such an element: the exported library cannot be imported again" % (
                    f.short, sid.split("::")[-1], rf, "None" if bad[0][2] and str(bad[0][2][1]).endswith("None") else "a value that may be None", required[(sid, rf)].short), Body(f).site(bad[0][1]), key)
            else:
                ctx.ok(rid, key, "always Some(..) (%d constructions on %d paths)" % (len({o[1] for o in obs}), len(obs)))
    ctx.floor(rid, "required_option_constructions", n, 1)


def rule_units_decision(ctx, rid):
    """the importer's unit recognition, evaluated for every database unit the exporter writes"""
    from analysis import evalterm as ev
    F = ctx.F
    ctx.rule(rid, "for every database unit the exporter can write, the importer's recognition (its comparisons, in their order, with their tolerances) returns the Units it was written for: evaluated over the finite set of exported constants")
    ef = export_lib_fn(F)
    imf = select(F, PFX, [IMP, r"^&gds21::GdsUnits$"], r"Result<data::Units,")
    if ef is None or len(imf) != 1:
        ctx.error(rid, "export_lib / import_units not found")
        return
    et = exporter_unit_table(F, ef)
    f = imf[0]
    try:
        paths, trunc = ev.summaries(f, follow_errors=True)
    except Exception:
        paths, trunc = [], True
    n = 0
    for v, e in sorted(et.items()):
        if e[1] is None:
            continue
        val = e[1]

        def leaf(t, val=val):
            c = float_const(t)
            if c is not None:
                return c
            if t[0] == "call" and t[1] and re.search(r"GdsUnits::db_unit$", t[1]):
                return val
            if t[0] == "f" and t[1] == ("param", 2):
                return val
            return None
        hits = []
        undecided = False
        for facts, ret in paths:
            try:
                if not ev.facts_hold({k: fv for k, fv in facts.items() if k[0] == "val"}, leaf, strict=True):
                    continue
            except ev.NotEvaluable:
                undecided = True
                continue
            found = gc.find_terms(ret, lambda x: x[0] == "agg" and isinstance(x[1], str) and x[1].startswith("layout21raw::data::Units::")) if ret else []
            hits.append(found[0][1].split("::")[-1] if found else None)
        if undecided or trunc or not paths:
            # the recognition is not a ladder of comparisons the evaluator can follow (e.g. a table searched with a closure):
            # no verdict from this rule; R07.2 still compares the constants
            ctx.note(rid, "Units::%s: importer recognition not evaluable as a decision list (no verdict)" % v)
            continue
        n += 1
        got = sorted({h for h in hits if h})
        key = "decision/%s" % v
        if got == [v]:
            ctx.ok(rid, key, "%g m is recognised as %s" % (val, v))
        else:
            ctx.violation(rid, key, "a %s library is exported with database unit %g m, which the importer recognises as %s: the comparisons are tried in an order / with tolerances that let another unit's test accept it first" % (v, val, got or "nothing"), "%s:%d" % (f.sp[0], f.sp[1]), key)
    ctx.count(rid + "_units_evaluated", n)
