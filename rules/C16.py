"""C16 — importing LEF into the raw model keeps every coordinate in place (E1 Rule A, unit tags, E7 guards, E4 table)."""
import re
from analysis import flow, ordering as od
from analysis.nondet import root_local
from analysis.mir import Body, callee_name, callee_id, op_const, op_place
from rules.flowrules import select, check_flows
from rules.gdsrules import get_flow

PFX = "layout21raw::lef::"
IMP = r"^&mut lef::LefImporter$"
UNITS = {"Micro": 1, "Nano": 1000, "Angstrom": 10000, "Pico": 1000000}  # raw units per micron (SI)
NORMALISERS = ("Decimal::trunc", "Decimal::normalize", "Decimal::round", "Decimal::round_dp", "Decimal::floor", "Decimal::ceil", "Decimal::rescale", "Decimal::trunc_with_scale")


from analysis.ordering import always_err


def run(ctx):
    F = ctx.F
    from rules import deadrules as _dr
    _dr.rule_parsed_fields_used(ctx, "R16.8", ("layout21raw::lef::",), 5)
    fl = get_flow(F)
    ctx.rule("R16.1", "LEF -> raw field correspondence: x<-x, y<-y (kept distinct), outline <- SIZE, name <- macro name, net <- pin name, shapes <- geometries, width <- WIDTH, layer <- layer name")
    ctx.rule("R16.2", "Decimal::mantissa() is only read from a value normalised to scale 0 (trunc / normalize / round), so the result does not depend on how many decimals were written")
    ctx.rule("R16.3", "a coordinate with a fractional part in raw units cannot reach an Ok return of the distance conversion")
    ctx.rule("R16.4", "every LEF geometry is imported as one shape or the import fails")
    ctx.rule("R16.5", "the scale factor and the Units the importer reports are the same row of the SI table")
    from rules import convrules as cv
    cv.run(ctx, "R16.7", ("layout21raw::lef::",), {"p": 10, "t": 3, "w": 5})
    n_anchor = 0
    # ---- R16.1
    for f in select(F, PFX, [IMP, r"^&lef21::LefPoint$"], r"Result<geom::Point,"):
        n_anchor += 1
        check_flows(ctx, "R16.1", f, [(("x",), [(2, ("x",))], [(2, ("y",))]), (("y",), [(2, ("y",))], [(2, ("x",))])], "point")
    for f in select(F, PFX, [IMP, r"^&lef21::LefMacro$"], r"Result<.*abs::Abstract,|Result<.*Abstract,"):
        n_anchor += 1
        check_flows(ctx, "R16.1", f, [
            (("name",), [(2, ("name",))], []),
            (("outline", "points", "[*]", "x"), [(2, ("size", "0"))], [(2, ("size", "1"))]),
            (("outline", "points", "[*]", "y"), [(2, ("size", "1"))], [(2, ("size", "0"))]),
            (("ports",), [(2, ("pins",))], []),
            (("blockages",), [(2, ("obs",))], []),
        ], "abstract")
    for f in select(F, PFX, [IMP, r"^&lef21::LefPin$"], r"Result<.*AbstractPort,"):
        n_anchor += 1
        check_flows(ctx, "R16.1", f, [
            (("net",), [(2, ("name",))], []),
            (("shapes",), [(2, ("ports", "[*]", "layers"))], []),
        ], "pin")
    for f in select(F, PFX, [IMP, r"^&lef21::LefLayerGeometries$"], r"Result<\(.*LayerKey, .*Vec<.*Shape>\),"):
        n_anchor += 1
        check_flows(ctx, "R16.1", f, [
            (("0",), [(2, ("layer_name",))], []),
            (("1",), [(2, ("geometries",))], []),
        ], "layer_geometries")
    for f in select(F, PFX, [IMP, r"^&lef21::LefShape$", r"^&lef21::LefLayerGeometries$"], r"Result<geom::Shape,"):
        n_anchor += 1
        check_flows(ctx, "R16.1", f, [
            (("as:Rect", "0", "p0"), [(2, ("as:Rect", "1"))], [(2, ("as:Rect", "2"))]),
            (("as:Rect", "0", "p1"), [(2, ("as:Rect", "2"))], [(2, ("as:Rect", "1"))]),
            (("as:Polygon", "0", "points"), [(2, ("as:Polygon", "1"))], []),
            (("as:Path", "0", "points"), [(2, ("as:Path", "1"))], []),
            (("as:Path", "0", "width"), [(3, ("width",))], []),
        ], "shape")
    ctx.floor("R16.1", "converter_anchors", n_anchor, 5)

    # ---- R16.2 mantissa at scale 0 (lef21 and the raw LEF importer)
    n_m = 0
    for f in F.fns.values():
        if not (f.id.startswith("lef21::") or f.id.startswith(PFX)):
            continue
        b = Body(f)
        for bi, t in b.calls():
            n = callee_name(t) or ""
            if re.search(r"Decimal::mantissa$", n) and t["args"]:
                n_m += 1
                d = fl.deps_operand(f.id, t["args"][0])
                vias = flow.vias_of(d)
                if any(v in vias for v in NORMALISERS):
                    ctx.ok("R16.2", f.short, "normalised before mantissa()")
                else:
                    ctx.violation("R16.2", f.short, "%s reads Decimal::mantissa() of a value whose scale is not 0: a number written with trailing decimals (1.50, 100.0) is multiplied by 10 per decimal digit" % f.short, b.site(bi), f.short)
    ctx.floor("R16.2", "mantissa_sites", n_m, 1)

    # ---- R16.3 fraction guard dominates the Ok return
    dist = select(F, PFX, [IMP, r"^&rust_decimal::(decimal::)?Decimal$"], r"Result<isize,")
    if len(dist) != 1:
        ctx.violation("R16.3", "dist/anchor", "distance conversion (Decimal -> Int) not found uniquely: %s" % [f.short for f in dist], None)
    else:
        f = dist[0]
        b = Body(f)
        guards = [bi for bi, t in b.calls() if re.search(r"Decimal::is_zero$", callee_name(t) or "")]
        okb, errb = od.ret_kind_blocks(b)
        good = False
        for gb in guards:
            t = b.term(gb)
            src = b.def_call(t["args"][0]) if t["args"] else None
            rv = None
            # is_zero(&fract(..))
            arg = t["args"][0]
            d = fl.deps_operand(f.id, arg)
            if "Decimal::fract" not in flow.vias_of(d):
                continue
            br = od.bool_branches(b, gb)
            if not br:
                continue
            zero_t, nonzero_t = br
            # prune Continue edges of Try::branch over always-Err calls
            removed = set(errb)
            for bj, u in b.calls():
                if (callee_name(u) or "").endswith("Try>::branch") and u["args"]:
                    inner = b.def_call(u["args"][0])
                    if inner is not None and always_err(F, callee_id(inner)):
                        # the block after the switch taking Continue: find switch successor arm 0
                        nb = u["t"]
                        sw = b.term(nb)
                        if sw["k"] == "switch":
                            for v, tgt in sw["arms"]:
                                if v == 0:
                                    removed.add(tgt)
            r = od.reach(b, nonzero_t, removed=removed)
            if not (r & okb):
                good = True
        # the value whose fraction is tested must be the exact product: a rounding step before the test makes the test vacuous
        ROUNDING = re.compile(r"Decimal::(rescale|round|round_dp|round_dp_with_strategy|round_sf|round_sf_with_strategy|trunc|trunc_with_scale|floor|ceil|set_scale|normalize_assign)$|::(round|trunc|floor|ceil)$")
        rounded = None
        for gb in guards:
            t = b.term(gb)
            fr = None
            if t["args"]:
                dd0 = b.single_def(root_local(b, t["args"][0]))
                fr = dd0[3] if dd0 and dd0[2] == "call" else None
            if fr is None or not re.search(r"Decimal::fract$", callee_name(fr) or "") or not fr["args"]:
                continue
            fract_bb = [bi for bi, u in b.calls() if u is fr][0]
            x = root_local(b, fr["args"][0])
            # (1) produced by a rounding call
            for dd in b.defs.get(x, []):
                if dd[2] == "call" and ROUNDING.search(callee_name(dd[3]) or ""):
                    rounded = (dd[0], callee_name(dd[3]))
            # (2) rounded in place before the test
            for bi, u in b.calls():
                if ROUNDING.search(callee_name(u) or "") and u["args"] and root_local(b, u["args"][0]) == x and fract_bb in od.reach(b, bi):
                    rounded = (bi, callee_name(u))
        if rounded:
            ctx.violation("R16.3", f.short + "/rounded-before-test", "%s rounds the scaled value with %s before testing its fractional part: the test can never fail, so an off-grid coordinate is silently rounded instead of reported" % (f.short, rounded[1].split("::")[-1]), b.site(rounded[0]), f.short + "/rounded-before-test")
        elif good:
            ctx.ok("R16.3", f.short + "/rounded-before-test", "fraction test sees the exact product")
        if good:
            ctx.ok("R16.3", f.short, "non-zero fraction can only leave through an error")
        else:
            ctx.violation("R16.3", f.short, "%s can return Ok for a value with a fractional part in raw units (no dominating fract().is_zero() guard that forces an error)" % f.short, "%s:%d" % (f.sp[0], f.sp[1]))

    # ---- R16.3b every place that turns a Decimal into an integer is behind an exactness guard on that very value
    ctx.rule("R16.3b", "wherever the LEF importer reads the integer value of a Decimal (mantissa / to_i*), a test that THIS value's fractional part is zero dominates the read, with the non-zero outcome unable to reach it - in the same function, or (when the value is a parameter) at every call site: a guard composed over two values (`x off && y off`) does not qualify")
    n_int = 0
    INT_READ = re.compile(r"Decimal::mantissa$|ToPrimitive>?::to_(i|u)\d+$|ToPrimitive>?::to_(i|u)size$|Decimal::to_(i|u)\w+$")

    def value_root(b, o, depth=0):
        """the local holding the Decimal a call chain (trunc / normalize / clone / deref ..) starts from"""
        r = root_local(b, o)
        d = b.single_def(r) if r is not None else None
        if d is not None and d[2] == "call" and d[3]["args"] and depth < 6 and re.search(r"Decimal::(trunc|normalize|round\w*|abs)$|::clone$|::deref$|::borrow$", callee_name(d[3]) or ""):
            return value_root(b, d[3]["args"][0], depth + 1)
        return r

    def guarded_at(b, bi, x):
        okb, errb = od.ret_kind_blocks(b)
        for gb, u in b.calls():
            if not re.search(r"Decimal::is_zero$", callee_name(u) or "") or not u["args"]:
                continue
            fr = b.def_call(u["args"][0])
            if fr is None:
                dd0 = b.single_def(root_local(b, u["args"][0]))
                fr = dd0[3] if dd0 and dd0[2] == "call" else None
            if fr is None or not re.search(r"Decimal::fract$", callee_name(fr) or "") or not fr["args"]:
                continue
            if value_root(b, fr["args"][0]) != x or not b.dominates(gb, bi):
                continue
            br = od.bool_branches(b, gb)
            if not br:
                continue
            zero_t, nonzero_t = br
            removed = set(errb)
            for bj, w_ in b.calls():
                if (callee_name(w_) or "").endswith("Try>::branch") and w_["args"] and w_["t"] is not None:
                    inner = b.def_call(w_["args"][0])
                    if inner is not None and always_err(F, callee_id(inner)) and b.term(w_["t"])["k"] == "switch":
                        for v, tgt in b.term(w_["t"])["arms"]:
                            if v == 0:
                                removed.add(tgt)
            if bi not in od.reach(b, nonzero_t, removed=removed):
                return True
        return False

    def guarded(f, b, bi, x, depth=0):
        if guarded_at(b, bi, x):
            return True, "guarded in place"
        if x is not None and 1 <= x <= b.argc and depth < 2 and not f.pub:
            callers = []
            for g in F.fns.values():
                if not g.id.startswith(PFX) or not g.body or g.id == f.id:
                    continue
                gb_ = Body(g)
                for cj, u in gb_.calls():
                    if callee_id(u) == f.id and x - 1 < len(u["args"]):
                        callers.append((g, gb_, cj, value_root(gb_, u["args"][x - 1])))
            if callers and all(guarded(g, gb_, cj, xr, depth + 1)[0] for g, gb_, cj, xr in callers):
                return True, "guarded at every call site (%s)" % ", ".join(sorted({g.short.split("::")[-1] for g, _, _, _ in callers}))
        return False, ""
    for f in F.fns.values():
        if not f.id.startswith(PFX) or not f.body or f.derived:
            continue
        b = Body(f)
        for bi, t in b.calls():
            n = callee_name(t) or ""
            if not INT_READ.search(n) or not t["args"]:
                continue
            n_int += 1
            x = value_root(b, t["args"][0])
            ok_, how = guarded(f, b, bi, x)
            key = "%s/%s" % (f.short, n.split("::")[-1])
            if ok_:
                ctx.ok("R16.3b", key, how)
            else:
                ctx.violation("R16.3b", key, "%s reads the integer value of a Decimal (%s) that is not behind a test of its own fractional part (neither here nor at every call site): an off-grid coordinate is truncated instead of reported for some inputs" % (f.short, n.split("::")[-1]), b.site(bi), key)
    ctx.floor("R16.3b", "decimal_to_integer_sites", n_int, 1)

    # ---- R16.4m repeated layers / ports are merged, not overwritten
    from rules import mergerules as mr
    folding = select(F, PFX, [IMP, r"^&lef21::LefMacro$"], r"Result<.*Abstract,") + select(F, PFX, [IMP, r"^&lef21::LefPin$"], r"Result<.*AbstractPort,")
    mr.rule_no_lossy_map_merge(ctx, "R16.4m", folding, floor=0, what="LEF text (several OBS / PORT / LAYER statements on one layer)")
    mr.rule_no_overwrite_in_loop(ctx, "R16.4o", [PFX], floor=0)

    # ---- R16.6 names are kept and matched exactly
    ctx.rule("R16.6", "layer, pin and macro names are taken over and looked up exactly as written: the LEF importer does no case folding (LEF names are case-sensitive; `m1` and `M1` are different layers)")
    FOLD = re.compile(r"::(eq_ignore_ascii_case|to_lowercase|to_uppercase|to_ascii_lowercase|to_ascii_uppercase|make_ascii_lowercase|make_ascii_uppercase)$")
    n_lookup = 0
    for f in F.fns.values():
        if not f.id.startswith(PFX):
            continue
        b = Body(f)
        for bi, t in b.calls():
            n = callee_name(t) or ""
            if re.search(r"::(keyname|get_or_insert|get)$|HashMap::<.*>::(get|entry|insert)$", n):
                n_lookup += 1
            if FOLD.search(n):
                key = "%s/%s" % (f.short.replace("::{closure#0}", ""), n.split("::")[-1])
                ctx.violation("R16.6", key, "%s compares or stores a name through %s: names that differ only in letter case are merged, so shapes land on a layer other than the one the LEF names" % (f.short, n.split("::")[-1]), b.site(bi), key)
    ctx.floor("R16.6", "name_lookup_sites", n_lookup, 1)
    if n_lookup:
        ctx.ok("R16.6", "no-case-folding", "%d name lookups, none case-folded" % n_lookup)

    # ---- R16.4 every geometry imported or error
    for f in select(F, PFX, [IMP, r"^&lef21::LefLayerGeometries$"], r"Result<\(.*LayerKey, .*Vec<.*Shape>\),"):
        b = Body(f)
        why_ = []
        loops = od.every_item_handled(F, f, lambda t: bool(re.search(r"Vec::<.*>::push$|Iterator>?::collect$|FromIterator<.*>>?::from_iter$|Extend<.*>>?::extend$", callee_name(t) or "")), why_)
        if loops and all(ok for h, ok in loops):
            ctx.ok("R16.4", f.short, "every geometry is pushed")
        else:
            ctx.violation("R16.4", f.short, "%s can skip a geometry without error" % f.short, "%s:%d" % (f.sp[0], f.sp[1]))
    for f in select(F, PFX, [IMP, r"^&lef21::LefGeometry$", r"^&lef21::LefLayerGeometries$"], r"Result<geom::Shape,"):
        b = Body(f)
        sws = od.enum_switches(F, b, "lef21::data::LefGeometry")
        okb, errb = od.ret_kind_blocks(b)
        if not sws:
            ctx.error("R16.4", "no match on LefGeometry in %s" % f.short)
            continue
        bi, arms, other, eid = sws[0]
        for v in [x["name"] for x in F.adts["lef21::data::LefGeometry"]["variants"]]:
            tgt = arms.get(v, other)
            reg = od.reach(b, tgt)
            calls = [callee_id(b.term(x)) for x in reg if b.term(x)["k"] == "call"]
            converts = any(c in F.fns and re.search(r"Result<geom::Shape,", (F.fns[c].output or {}).get("s", "")) and not always_err(F, c) for c in calls)
            errs = any(always_err(F, c) for c in calls if c)
            if converts or errs:
                ctx.ok("R16.4", "%s/%s" % (f.short, v), "converted" if converts else "error")
            else:
                ctx.violation("R16.4", "%s/%s" % (f.short, v), "LefGeometry::%s is neither converted nor rejected" % v, "%s:%d" % (f.sp[0], f.sp[1]))

    # ---- R16.5 unit row
    uf = select(F, PFX, [IMP, r"Option<lef21::LefUnits>"], r"Result<.*Units,")
    if len(uf) != 1:
        ctx.violation("R16.5", "units/anchor", "import_units not found uniquely", None)
    else:
        f = uf[0]
        b = Body(f)
        scale = None
        unit = None
        for blk in b.blocks:
            for st in blk["st"]:
                if st["k"] != "assign":
                    continue
                fields = [e["n"] for e in st["p"]["p"] if isinstance(e, dict) and "f" in e]
                if st["p"]["l"] == 1 and fields and st["rv"]["k"] == "use":
                    c = op_const(st["rv"]["o"])
                    if c and "int" in c:
                        scale = c["int"]
                if st["rv"]["k"] == "agg" and st["rv"].get("id", "").endswith("data::Units"):
                    unit = st["rv"]["variant"]
        if scale is None or unit is None:
            ctx.violation("R16.5", f.short, "scale factor / Units not constant in %s (cannot be paired)" % f.short, "%s:%d" % (f.sp[0], f.sp[1]))
        elif UNITS.get(unit) != scale:
            ctx.violation("R16.5", f.short, "importer scales microns by %d but reports Units::%s (= %s per micron)" % (scale, unit, UNITS.get(unit)), "%s:%d" % (f.sp[0], f.sp[1]))
        else:
            ctx.ok("R16.5", f.short, "%d per micron = Units::%s" % (scale, unit))
        # the scale used by the distance conversion is that field
        if dist and len(dist) == 1:
            d = fl.deps(dist[0].id, 0, ())
            if any(s[0] == "param" and s[1] == 1 and s[2][:1] == ("dist_scale",) for s in d):
                ctx.ok("R16.5", dist[0].short + "/scale", "uses the importer's scale field")
            else:
                ctx.violation("R16.5", dist[0].short + "/scale", "distance conversion does not use the importer's scale field", "%s:%d" % (dist[0].sp[0], dist[0].sp[1]))
    ctx.assume("Decimal arithmetic itself (multiplication, fract, trunc) is correct")
