"""C18 — JSON and YAML copies of GDSII and LEF libraries are lossless (E5 + E4)."""
import re
from analysis.mir import Body, callee_name, callee_id, op_const, op_place
from analysis import serdecfg as sc

ROOTS = ["gds21::data::GdsLibrary", "lef21::data::LefLibrary"]
ONE_SIDED = ("skip", "skip_deserializing", "serialize_with", "deserialize_with", "getter", "with", "flatten", "borrow", "bound")
CONTAINER_SUSPECT = ("untagged", "from", "try_from", "into", "remote")


def ast_path_of(adt_id):
    return adt_id


def is_not_fn(F, name, crate_prefix):
    """workspace predicate `fn(&bool) -> bool` whose body is `!*b`"""
    for f in F.fns.values():
        if f.short.split("::")[-1] == name and f.id.startswith(crate_prefix):
            b = Body(f)
            # body: a single `Not` of a deref of arg 1, returned
            nots = 0
            other = 0
            for blk in b.blocks:
                for st in blk["st"]:
                    if st["k"] == "assign":
                        rv = st["rv"]
                        if rv["k"] == "un" and rv["op"] == "Not":
                            nots += 1
                        elif rv["k"] in ("use", "ref"):
                            pass
                        else:
                            other += 1
                if blk["term"]["k"] == "call":
                    n = callee_name(blk["term"]) or ""
                    if re.search(r"ops::Not>::not$", n):
                        nots += 1
                    else:
                        other += 1
            ins = [i["s"] for i in f.inputs]
            return nots == 1 and other == 0 and ins == ["&bool"] and f.output["s"] == "bool"
    return None


LOSSY_NUM = re.compile(r"::(to_f64|to_f32|from_f64|from_f32|from_f64_retain|from_f32_retain|to_i64|to_i32|to_u64|to_u32|to_i128|round|round_dp|trunc|floor|ceil|normalize|rescale|to_lowercase|to_uppercase|trim|trim_matches|replace)$|ToPrimitive>::to_f(32|64)$|FromPrimitive>::from_f(32|64)$")


def lossy_custom(F, tid, path):
    """reason when the function named by a serialize_with / deserialize_with attribute converts the value through a
    narrower representation (a Decimal through f64, a string through a case fold ...); None when nothing of the kind is found"""
    last = path.split("::")[-2:] if "::" in path else [path]
    crate = tid.split("::")[0]
    cands = [g for g in F.fns.values() if g.id.startswith(crate + "::") and g.kind != "Closure" and g.short.split("::")[-len(last):] == last]
    if not cands:
        return "could not be found in the workspace (not verifiable)"
    for g in cands:
        seen, work = set(), [g.id]
        while work:
            x = work.pop()
            if x in seen or x not in F.fns:
                continue
            seen.add(x)
            gb = Body(F.fns[x])
            for bi, t in gb.calls():
                nm = callee_name(t) or ""
                if LOSSY_NUM.search(nm):
                    return "passes the value through %s: digits beyond that representation are lost (a decimal with more than ~15 significant digits changes)" % nm.split("::")[-1]
                cid = callee_id(t) or ""
                if cid.startswith(crate + "::") and len(seen) < 30:
                    work.append(cid)
            for blk in gb.blocks:
                for st in blk["st"]:
                    if st["k"] == "assign" and st["rv"]["k"] == "cast" and st["rv"].get("ck") in ("FloatToInt", "IntToFloat", "FloatToFloat"):
                        return "casts between integer and floating point"
    return None


def run(ctx):
    F = ctx.F
    ctx.rule("R18.1", "serde attributes of every type reachable from GdsLibrary / LefLibrary are loss-free and symmetric")
    ctx.rule("R18.2", "each SerializationFormat variant dispatches to the same serde back-end crate in to_string, from_str and open")
    ctx.rule("R18.3", "dependency features give exact number round trips (serde_json float_roundtrip; rust_decimal string mode)")
    # ---- which types are Serialize + Deserialize
    ser = set()
    de = set()
    for i in F.impls:
        t = i["trait"] or ""
        sid = i["self"].get("id")
        if not sid:
            continue
        if re.search(r"serde::(ser::)?Serialize$", t):
            ser.add(sid)
        if re.search(r"serde::(de::)?Deserialize<", t):
            de.add(sid)
    # ---- reachable type graph from roots
    seen = set()
    todo = [r for r in ROOTS]
    for r in ROOTS:
        if r not in F.adts:
            ctx.error("R18.1", "root type %s not found" % r)
    while todo:
        x = todo.pop()
        if x in seen or x not in F.adts:
            continue
        seen.add(x)
        for v in F.adts[x]["variants"]:
            for fl in v["fields"]:
                for a in sc.ty_adts(fl["ty"]):
                    if a not in seen and a in F.adts:
                        todo.append(a)
    ctx.floor("R18.1", "types_reachable_from_GdsLibrary_LefLibrary", len(seen), 30)
    n_fields = 0
    for tid in sorted(seen):
        adt = F.adts[tid]
        ast = F.ast.get(tid)
        tshort = tid.split("::")[-1]
        if tid not in ser or tid not in de:
            # a reachable type that is only reachable through a skipped field is fine; checked at the field
            pass
        if ast is None:
            ctx.error("R18.1", "no AST attributes found for %s" % tid)
            continue
        citems = sc.serde_items(ast["attrs"])
        for k in CONTAINER_SUSPECT:
            if k in citems:
                ctx.violation("R18.1", "%s/container/%s" % (tshort, k), "container attribute serde(%s) makes the text form ambiguous or conversion-dependent" % k, "%s:%d" % (adt["sp"][0], adt["sp"][1]))
        ra = citems.get("rename_all")
        if isinstance(ra, dict) and ra.get("serialize") != ra.get("deserialize"):
            ctx.violation("R18.1", "%s/container/rename_all" % tshort, "rename_all differs between serialize and deserialize", "%s:%d" % (adt["sp"][0], adt["sp"][1]))
        container_default = "default" in citems
        groups = []
        if ast["kind"] == "struct":
            groups.append((None, ast["fields"], adt["variants"][0]["fields"]))
        else:
            for va, vd in zip(ast["variants"], adt["variants"]):
                vi = sc.serde_items(va["attrs"])
                for k in ("skip", "skip_serializing", "skip_deserializing", "other"):
                    if k in vi:
                        ctx.violation("R18.1", "%s::%s/%s" % (tshort, va["name"], k), "variant attribute serde(%s) loses the variant in one direction" % k, "%s:%d" % (adt["sp"][0], adt["sp"][1]))
                rn = vi.get("rename")
                if isinstance(rn, dict) and rn.get("serialize") != rn.get("deserialize"):
                    ctx.violation("R18.1", "%s::%s/rename" % (tshort, va["name"]), "asymmetric rename", "%s:%d" % (adt["sp"][0], adt["sp"][1]))
                groups.append((va["name"], va["fields"], vd["fields"]))
        for vname, afields, tfields in groups:
            for af, tf in zip(afields, tfields):
                n_fields += 1
                fname = "%s%s.%s" % (tshort, ("::" + vname) if vname else "", af["name"])
                site = "%s:%d" % (adt["sp"][0], adt["sp"][1])
                items = sc.serde_items(af["attrs"])
                tys = tf["ty"]["s"]
                problems = []
                unsupported = bool(re.search(r"(^|<|::)Unsupported>?>?$", tys))
                if "skip_serializing" in items and not unsupported:
                    problems.append("unconditional skip_serializing on data field of type %s: the value is never written" % tys)
                for k in ONE_SIDED:
                    if k in items and not (k in ("skip",) and unsupported):
                        if k in ("serialize_with", "deserialize_with") and "serialize_with" in items and "deserialize_with" in items:
                            # a custom pair: not one-sided; its two halves are inspected for value-changing conversions
                            why = lossy_custom(F, tid, items[k])
                            if why:
                                problems.append("custom %s = %s %s" % (k, items[k], why))
                            else:
                                ctx.note("R18.1", "%s: custom %s %s accepted (no value-changing conversion found in it)" % (fname, k, items[k]))
                            continue
                        problems.append("attribute serde(%s) is one-sided or not verifiable" % k)
                if "skip_serializing_if" in items:
                    pred = items["skip_serializing_if"]
                    has_default = "default" in items or container_default
                    if not has_default:
                        problems.append("skip_serializing_if without default: the omitted field cannot be read back")
                    elif items.get("default") is not True and not container_default and isinstance(items.get("default"), str):
                        problems.append("custom default function %s with skip_serializing_if: equality of default and skipped value not verifiable" % items["default"])
                    okpair = False
                    if re.match(r"(std::option::)?Option<", tys) or tys.startswith("std::option::Option<"):
                        okpair = pred == "Option::is_none"
                    elif re.match(r"(std::vec::|alloc::vec::)?Vec<", tys):
                        okpair = pred == "Vec::is_empty"
                    elif tys == "std::string::String":
                        okpair = pred == "String::is_empty"
                    elif tys == "bool":
                        r = is_not_fn(F, pred.split("::")[-1], tid.split("::")[0] + "::")
                        okpair = bool(r)
                        if r is None:
                            problems.append("predicate %s not found in workspace" % pred)
                    if not okpair:
                        problems.append("skip_serializing_if = %s on type %s: skipped value is not provably the Default" % (pred, tys))
                rn = items.get("rename")
                if isinstance(rn, dict) and rn.get("serialize") != rn.get("deserialize"):
                    problems.append("rename differs between serialize (%s) and deserialize (%s)" % (rn.get("serialize"), rn.get("deserialize")))
                # fields whose type is a workspace ADT must themselves be Serialize+Deserialize (type-checked by rustc), nothing to do
                if problems:
                    ctx.violation("R18.1", fname, "; ".join(problems), site, fname)
                else:
                    ctx.ok("R18.1", fname, ",".join(sorted(items)) or "plain")
    ctx.floor("R18.1", "fields_checked", n_fields, 100)

    # ---- R18.2 dispatch symmetry
    BACKENDS = ("serde_json", "serde_yaml", "toml")
    table = {}
    from analysis.inline import inlined as _inl
    _ser_helper = lambda g_, t_: g_.id.startswith("layout21utils::ser::") and g_.kind != "Closure" and not g_.derived and not re.search(
        r"ser::(SerializationFormat::(to_string|from_str|save|open)|save|open|SerdeFile::(save|open))$|convert::From<", g_.short)
    for f in F.fns.values():
        if not f.id.startswith("layout21utils::ser::") or not f.body:
            continue
        # a back-end call moved into a small private helper (`toml_from_reader(&mut rdr)`) is read in place
        b = Body(_inl(F, f, pred=_ser_helper, depth=2, max_blocks=40))
        for bi, blk in enumerate(b.blocks):
            t = blk["term"]
            if t["k"] != "switch" or bi not in b.reachable:
                continue
            rv = b.def_rvalue(t["on"])
            if not rv or rv["k"] != "discr" or not rv["ty"]["s"].endswith("ser::SerializationFormat"):
                continue
            enum_id = rv["ty"]["id"]
            for val, tgt in t["arms"]:
                vname = F.variant_of(enum_id, val)
                region = [x for x in b.reachable if b.dominates(tgt, x)]
                crates = set()
                for x in region:
                    u = b.term(x)
                    if u["k"] == "call":
                        n = callee_name(u) or ""
                        for be in BACKENDS:
                            if re.match(r"<?%s::" % be, n) or re.search(r"[ <(]%s::" % be, n):
                                # only count (de)serialisation entry points, not error conversions
                                if re.search(r"::(to_string|to_string_pretty|to_vec|to_writer|to_writer_pretty|from_str|from_reader|from_slice)$", n):
                                    crates.add(be)
                table.setdefault(vname, {})[f.short] = crates
    n_disp = 0
    for vname, per in sorted(table.items()):
        allc = set()
        for fn, cs in per.items():
            n_disp += 1
            allc |= cs
        bad = [(fn, cs) for fn, cs in per.items() if cs != allc or len(cs) != 1]
        if bad or len(allc) != 1:
            ctx.violation("R18.2", "SerializationFormat::%s" % vname, "format %s dispatches to different back-ends: %s" % (vname, {k: sorted(v) for k, v in per.items()}), None)
        else:
            ctx.ok("R18.2", "SerializationFormat::%s" % vname, "%s in %s" % (sorted(allc)[0], sorted(per)))
    ctx.floor("R18.2", "format_dispatch_arms", n_disp, 6)
    # ---- R18.2b nothing between the serde back-end and the caller
    ctx.rule("R18.2b", "the text handed to the caller (and to the back-end on the way in) is the serde back-end's own: the serialization entry points call no workspace helper and no string-rewriting method on it (escaping, re-quoting, trimming or re-encoding belongs to the back-end, whose reader is its exact inverse)")
    from rules.lefrules import LOSSY_TEXT
    entry = [f for f in F.fns.values() if f.id.startswith("layout21utils::ser::") and f.kind != "Closure" and not f.derived and
             re.search(r"ser::(SerializationFormat::(to_string|from_str|save|open)|save|open|SerdeFile::(save|open))$", f.short)]
    entry_ids = {f.id for f in entry}
    n_entry = 0
    for f in entry:
        n_entry += 1
        b = Body(_inl(F, f, pred=_ser_helper, depth=2, max_blocks=40))
        bad = []
        for bi, t in b.calls():
            cid = callee_id(t) or ""
            nm = callee_name(t) or ""
            if cid.startswith(("layout21", "gds21", "lef21")) and cid not in entry_ids and not re.search(r"ser::Error as std::convert::From<.*>>::from$", nm):
                bad.append((bi, nm))
            elif LOSSY_TEXT.search(nm) or re.search(r"string::String::(push|push_str|insert|insert_str|replace_range)$|::chars$|::char_indices$|::bytes$|fmt::format$", nm):
                bad.append((bi, nm))
        key = f.short
        if bad:
            ctx.violation("R18.2b", key, "%s passes the serialized text through %s: what is written is no longer what the back-end's reader inverts (e.g. a hand-made \\u escape is wrong for characters outside the basic plane)" % (f.short, ", ".join(sorted({x[1].split("::")[-1] for x in bad}))), b.site(bad[0][0]), key)
        else:
            ctx.ok("R18.2b", key, "back-end text untouched")
    ctx.floor("R18.2b", "serialization_entry_points", n_entry, 2)
    # ---- R18.2c a saved file holds exactly the new document
    ctx.rule("R18.2c", "every function that opens a file for writing replaces its content: `File::create`, or `OpenOptions` with `truncate(true)` / `create_new(true)`; opening an existing, longer file with only `write(true)` leaves the tail of the old document behind the new one (trailing garbage for JSON, and for YAML a stale document that still parses)")
    n_open = 0
    for f in F.fns.values():
        if not f.id.startswith(("layout21", "gds21", "lef21")) or not f.body or f.crate.endswith(".bin"):
            continue
        b = Body(f)
        names = [callee_name(t) or "" for bi, t in b.calls()]
        creates = [n for n in names if re.search(r"fs::File::create$|File::create_new$", n)]
        oo_write = [bi for bi, t in b.calls() if re.search(r"OpenOptions::write$|OpenOptions::append$", callee_name(t) or "")]
        if not creates and not oo_write:
            continue
        n_open += 1
        key = "%s/open-for-write" % f.short
        if oo_write and not any(re.search(r"OpenOptions::(truncate|create_new|append)$", n) for n in names):
            ctx.violation("R18.2c", key, "%s opens its output with OpenOptions::write but without truncate(true): saving over a longer file leaves the old tail in place, and the file no longer loads to the value that was saved" % f.short, b.site(oo_write[0]), key)
        else:
            ctx.ok("R18.2c", key, "content replaced")
    ctx.floor("R18.2c", "file_writing_functions", n_open, 2)
    # distinct formats must use distinct back-ends (Json and Yaml must not collapse)
    used = {}
    for vname, per in table.items():
        for cs in per.values():
            for c in cs:
                used.setdefault(c, set()).add(vname)
    for c, vs in used.items():
        if len(vs) > 1:
            ctx.violation("R18.2", "backend/%s" % c, "back-end %s serves several formats %s" % (c, sorted(vs)), None)

    # to_markup / from_markup use the same format parser
    def calls_of(short):
        res = set()
        for f in F.by_short(short):
            b = Body(f)
            for bi, t in b.calls():
                res.add(callee_id(t))
        return res
    tm = calls_of("gds_serialization::to_markup")
    fm = calls_of("gds_serialization::from_markup")
    parsers = [c for c in tm & fm if c and c in F.fns and (F.fns[c].output or {}).get("s", "").find("SerializationFormat") >= 0]
    if not tm or not fm:
        ctx.error("R18.2", "to_markup/from_markup not found")
    elif not parsers:
        ctx.violation("R18.2", "markup/parse_format", "to_markup and from_markup do not share one format parser", None)
    else:
        ctx.ok("R18.2", "markup/parse_format", "shared parser %s" % F.fns[parsers[0]].short)

    # ---- R18.3 features
    fj = sc.resolved_features(F.metadata, "serde_json")
    if fj is None:
        ctx.error("R18.3", "serde_json not in resolve graph")
    elif "float_roundtrip" not in fj:
        ctx.violation("R18.3", "serde_json/float_roundtrip", "serde_json is resolved with features %s: without float_roundtrip its f64 parser is not correctly rounded, so doubles (units, mag, angle) may change in a JSON round trip" % fj, "layout21utils/Cargo.toml")
    else:
        ctx.ok("R18.3", "serde_json/float_roundtrip", str(fj))
    fd = sc.resolved_features(F.metadata, "rust_decimal")
    if fd is None:
        ctx.error("R18.3", "rust_decimal not in resolve graph")
    else:
        lossy = [x for x in fd if x in ("serde-float", "serde-with-float", "serde-arbitrary-precision")]
        if "serde-float" in fd:
            ctx.violation("R18.3", "rust_decimal/serde-float", "rust_decimal serialises through f64 (features %s)" % fd, "lef21/Cargo.toml")
        elif not any(x in fd for x in ("serde-str", "serde", "serde-with-str")):
            ctx.violation("R18.3", "rust_decimal/serde", "rust_decimal has no string serde mode (features %s)" % fd, "lef21/Cargo.toml")
        else:
            ctx.ok("R18.3", "rust_decimal/string-mode", str(fd))
    ctx.assume("serde_json / serde_yaml quoting and escaping of strings is loss-free (dependency behaviour)")
    ctx.assume("textwrap::dedent is the identity on serializer output (first line starts at column 0)")
    ctx.assume("serde_yaml prints f64 with a shortest-round-trip algorithm and parses with a correctly rounded parser")
