"""C06 — importing GDSII into the raw model preserves the flattened geometry (structural clauses)."""
import re
from analysis import flow, ordering as od
from analysis.mir import Body, callee_name, callee_id
from rules import rawgds as rg, panicrules as pr
from rules.flowrules import select
from rules.gdsrules import get_flow


def run(ctx):
    F = ctx.F
    from rules import deadrules as _dr
    _dr.rule_parsed_fields_used(ctx, "R06.10", ("layout21raw::gds::",), 10)
    fl = get_flow(F)
    ctx.rule("R06.1", "GDSII -> raw correspondence: points x<-x/y<-y, box corners <- xy[0]/xy[2], layer/purpose <- layer/datatype, path points/width, instance cell/loc/reflection/angle, array lattice <- xy[0..3]/cols/rows, labels -> net or annotation")
    rg.run_tables(ctx, "R06.1e", "R06.1", do_export=False)
    from rules import convrules as cv
    cv.run(ctx, "R06.9", ("layout21raw::gds::",), {"p": 20, "t": 5, "w": 10})
    # ---- R06.2 nothing silently dropped
    ctx.rule("R06.2", "every GDSII element kind is imported into instances / elements / labels or reported; no importer returns Ok(None)")
    from rules import C17 as c17
    c17.run(ctx.sub("R06.2o", "the GDSII structure orderer (definitions before references) satisfies the orderer rules of C17"), only=lambda f: f.id.startswith("layout21raw::gds::"), floors=False)
    lay = select(F, rg.PFX, [rg.IMP, r"^&gds21::GdsStruct$"], r"Result<data::Layout,")
    if len(lay) != 1:
        ctx.error("R06.2", "import_layout not found")
    else:
        f = lay[0]
        b = Body(f)
        sws = od.enum_switches(F, b, "gds21::data::GdsElement")
        if not sws:
            ctx.error("R06.2", "no match on GdsElement")
        else:
            bi, arms, other, eid = sws[0]
            for v in [x["name"] for x in F.adts["gds21::data::GdsElement"]["variants"]]:
                tgt = arms.get(v, other)
                reg = od.region(b, tgt)
                sinks = []
                for x in reg:
                    t = b.term(x)
                    if t["k"] == "call":
                        n = callee_name(t) or ""
                        if re.search(r"Vec::<.*>::(push|extend)$|Extend<.*>>::extend$|SlotMap::<.*>::insert$", n):
                            sinks.append(n.split("::")[-1])
                        cid = callee_id(t)
                        if cid in F.fns and re.search(r"Result<data::Element,", (F.fns[cid].output or {}).get("s", "")):
                            sinks.append("element")
                if sinks:
                    ctx.ok("R06.2", "dispatch/%s" % v, "kept via %s" % sorted(set(sinks)))
                else:
                    ctx.violation("R06.2", "dispatch/%s" % v, "GdsElement::%s is dropped by the importer" % v, b.site(tgt))
    for f in F.fns.values():
        if not f.id.startswith(rg.PFX) or f.kind == "Closure" or "GdsImporter" not in f.name:
            continue
        out = (f.output or {}).get("s", "")
        if not re.search(r"Result<std::option::Option<", out):
            continue
        b = Body(f)
        nones = []
        for bi, blk in enumerate(b.blocks):
            for st in blk["st"]:
                if st["k"] == "assign" and st["p"]["l"] == 0 and st["rv"]["k"] == "agg" and st["rv"].get("variant") == "Ok":
                    rv = b.def_rvalue(st["rv"]["ops"][0]) if st["rv"]["ops"] else None
                    if rv is not None and rv["k"] == "agg" and rv.get("variant") == "None":
                        nones.append(bi)
        if nones:
            ctx.violation("R06.2", "%s/Ok(None)" % f.short, "%s returns Ok(None): the element is silently dropped (no shape, no instance, no error)" % f.short, b.site(nones[0]), "%s/Ok(None)" % f.short)
        else:
            ctx.ok("R06.2", "%s/Ok(None)" % f.short, "never returns Ok(None)")
    # ---- R06.3 sibling agreement on GdsStrans
    ctx.rule("R06.3", "the single-reference and array-reference importers look at the same GdsStrans settings (a setting one of them rejects must not be silently ignored by the other)")
    sref = select(F, rg.PFX, [rg.IMP, r"^&gds21::GdsStructRef$"], r"Result<data::Instance,")
    aref = select(F, rg.PFX, [rg.IMP, r"^&gds21::GdsArrayRef$"], r"Result<.*Vec<data::Instance>")
    if len(sref) != 1 or len(aref) != 1:
        ctx.error("R06.3", "reference importers not found")
    else:
        def strans_fields_read(f):
            b = Body(f)
            got = set()
            for blk in b.blocks:
                for st in blk["st"]:
                    if st["k"] != "assign":
                        continue
                    for pl in places_of(st["rv"]):
                        names = [e["n"] for e in pl["p"] if isinstance(e, dict) and "f" in e]
                        # field of a GdsStrans value: the place type chain is not available, use the ADT field names
                        for nm in names:
                            if nm in STRANS_FIELDS:
                                got.add(nm)
                t = blk["term"]
                if t["k"] == "call":
                    for a in t["args"]:
                        pl = a.get("cp") or a.get("mv")
                        if pl:
                            for e in pl["p"]:
                                if isinstance(e, dict) and "f" in e and e["n"] in STRANS_FIELDS:
                                    got.add(e["n"])
            return got
        STRANS_FIELDS = {x["name"] for x in F.adts["gds21::data::GdsStrans"]["variants"][0]["fields"]}
        a, c = strans_fields_read(sref[0]), strans_fields_read(aref[0])
        for fld in sorted(STRANS_FIELDS):
            if (fld in a) == (fld in c):
                ctx.ok("R06.3", "strans/%s" % fld, "read by both" if fld in a else "read by neither")
            else:
                who = aref[0].short if fld in c else sref[0].short
                other = sref[0].short if fld in c else aref[0].short
                ctx.violation("R06.3", "strans/%s" % fld, "GdsStrans.%s is examined by %s but silently ignored by %s (e.g. a magnified reference is imported unmagnified)" % (fld, who, other), "%s:%d" % (F.fns[(sref if fld in c else aref)[0].id].sp[0], (sref if fld in c else aref)[0].sp[1]), "strans/%s" % fld)
    # ---- R06.4 degrees stay degrees
    ctx.rule("R06.4", "Instance.angle holds degrees: no value converted with to_radians flows into it")
    for f in sref + aref:
        path = ("angle",) if f in sref else ("[*]", "angle")
        d = fl.deps(f.id, 0, path)
        if "f64::to_radians" in flow.vias_of(d):
            ctx.violation("R06.4", f.short, "%s stores an angle that went through to_radians() into Instance.angle, which Transform::from_instance converts to radians again" % f.short, "%s:%d" % (f.sp[0], f.sp[1]), f.short)
        else:
            ctx.ok("R06.4", f.short, "angle copied in degrees")
    # ---- R06.6 geometry helpers the import relies on
    from rules import geomrules as gm
    gm.rule_boundary_as_rect(ctx, "R06.6", ctx.tier)
    gm.rule_rect_contains(ctx, "R06.7")
    gm.rule_bbox_contains(ctx, "R06.7b")
    from rules import boolxfer as bx
    bx.run_table(ctx, "R06.3b", bx.GDS_IMPORT)
    # ---- R06.8 flattened geometry: each reference is reflected, rotated, then translated, parents applied outermost (C12's rules)
    from rules import C12 as c12
    c12.run(ctx.sub("R06.8", "instance transforms and flattening satisfy the transform rules of C12 (reflect, then rotate, then translate; parent-first cascade)"))
    from rules import C13 as c13
    c13.run(ctx.sub("R06.11", "a label names the net of the shape that contains it: the containment tests satisfy the rules of C13 (segment rectangles with flush ends, polygon structure)"))
    # ---- R06.12 a label names the shape that CONTAINS it: nothing but the shape's own containment test decides
    ctx.rule("R06.12", "in the label pass of the layout importer, whether a label becomes an element's net is decided by that element's ShapeTrait::contains alone (besides the layer lookup, loops, and whether the element already has a net): no pre-filter (bounding box, distance, first-hit) may veto or short-cut it")
    from analysis import ctrl as _ctrl
    lay2 = select(F, rg.PFX, [rg.IMP, r"^&gds21::GdsStruct$"], r"Result<data::Layout,")
    n_net = 0
    for f2 in lay2:
        b2 = Body(f2)
        for bi, blk in enumerate(b2.blocks):
            if blk["cleanup"] or bi not in b2.reachable:
                continue
            for st in blk["st"]:
                if st["k"] != "assign":
                    continue
                fs = [e["n"] for e in st["p"]["p"] if isinstance(e, dict) and "f" in e]
                if not fs or fs[-1] != "net" or not st["p"]["p"] or st["p"]["p"][0] != "*":
                    continue
                n_net += 1
                bad = []
                for sw in sorted(_ctrl.controlling_switches(b2, bi)):
                    c = _ctrl.classify_switch(b2, sw)
                    if c[0] in ("try", "next", "discr"):
                        continue
                    if c[0] == "callres" and re.search(r"(HashMap|BTreeMap|SlotMap)::<.*>::(get|get_mut)$", c[1] or ""):
                        continue
                    if c[0] == "call" and re.search(r"ShapeTrait>?::contains$|geom::Shape::contains$|geom::ShapeTrait::contains$", c[1] or ""):
                        continue
                    if c[0] == "call" and re.search(r"::(is_some|is_none)$", c[1] or ""):
                        continue
                    bad.append(c[1].split("::")[-2] + "::" + c[1].split("::")[-1] if c[0] == "call" else str(c[:2]))
                key = "%s/net-assignment" % f2.short
                if bad:
                    ctx.violation("R06.12", key, "%s: whether a label names an element is also decided by %s: a label inside the shape can be refused (or one outside accepted) before the shape's own containment test is asked" % (f2.short, ", ".join(sorted(set(bad)))), b2.site(bi), key)
                else:
                    ctx.ok("R06.12", key + "@%d" % bi, "decided by ShapeTrait::contains")
    ctx.floor("R06.12", "net_assignments", n_net, 1)
    # ---- R06.5 error, not crash
    roots = pr.roots_by_short(F, ("gds::GdsImporter::import",))
    pr.rule_panic_free(ctx, "R06.5", roots, "Library::from_gds", scope_prefixes=["layout21raw::"], floor=5, skip_wide_signed=True)
    ctx.assume("that flattening yields the right coordinates needs the arithmetic of C12/C13 and is not decided; rotated array lattices are value-level")


def places_of(rv):
    out = []
    for key in ("o", "l", "r"):
        o = rv.get(key)
        if o:
            pl = o.get("cp") or o.get("mv")
            if pl:
                out.append(pl)
    if "p" in rv and isinstance(rv["p"], dict) and "l" in rv["p"]:
        out.append(rv["p"])
    for o in rv.get("ops", []):
        pl = o.get("cp") or o.get("mv")
        if pl:
            out.append(pl)
    return out
