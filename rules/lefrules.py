"""Shared LEF rules (C04, C05, C11)."""
import re
from analysis import units, ordering as od, panics as pn
from analysis.mir import Body, callee_name, callee_id, op_const, op_place
from rules import panicrules as pr

READ_ROOTS = ("data::LefLibrary::open", "read::parse_file", "read::parse_str")
WRITE_ROOTS = ("write::to_string", "write::save", "data::LefLibrary::to_string", "data::LefLibrary::save")
_units = {}


def get_units(F):
    u = _units.get(id(F))
    if u is None:
        u = _units[id(F)] = units.Units(F, ["lef21::"])
    return u


def lef_roots(F, shorts):
    return [f.id for f in F.fns.values() if f.short in shorts and f.id.startswith("lef21::")]


# slice bounds that move a byte offset by a literal amount, each with the reason the skipped text is single-byte
SHIFT_AUDIT = {
    "read::LefLexer::lex_number/((LefLexer.pos - LefLexer.start) - 1)":
        "lex_number is entered from lex_one only with a look-ahead character that is an ASCII digit, '.' or '-' (one byte); "
        "the slice of the text after that character ends where the consumed bytes end, i.e. in front of the current look-ahead character",
}


def rule_byte_offsets(ctx, rid):
    """every bound of a str slice in lef21 is a byte offset (never a character count)"""
    F = ctx.F
    ctx.rule(rid, "every bound of every string slice in the LEF reader is a byte offset: position fields only grow by len_utf8 of consumed characters (or byte lengths), never by 1 per character")
    U = get_units(F)
    sites = U.str_index_sites()
    ok_sites = set()
    for f, b, bi, bounds in sites:
        key = "%s/str-slice(%s)" % (f.short, ",".join(units.fmt_expr(e) for r, e, u in bounds))
        bad = [(r, e, u) for r, e, u in bounds if "CHAR" in u]
        unknown = [(r, e, u) for r, e, u in bounds if not u and e[0] not in ("const",)]
        shifted = [(r, e, u) for r, e, u in bounds if "SHIFT" in u and "CHAR" not in u]
        if shifted and not bad:
            akey = "%s/%s" % (f.short, ",".join(units.fmt_expr(e) for r, e, u in shifted))
            if akey in SHIFT_AUDIT:
                ctx.assume("byte-offset audit %s: %s" % (akey, SHIFT_AUDIT[akey]))
            else:
                ctx.violation(rid, key + "/shifted", "%s slices a string at a byte offset moved by a literal amount (%s): unless the skipped characters are known to be single-byte this lands inside a multi-byte character or past the end ('not a char boundary' / 'out of bounds' panic)" % (
                    f.short, ", ".join("%s = %s" % (r, units.fmt_expr(e)) for r, e, u in shifted)), b.site(bi), key + "/shifted")
                continue
        if bad:
            ctx.violation(rid, key, "%s slices a string with %s, which counts characters, not bytes: text containing a multi-byte character is mis-sliced or panics ('not a char boundary')" % (
                f.short, ", ".join("%s = %s" % (r, units.fmt_expr(e)) for r, e, u in bad)), b.site(bi), key)
        elif unknown:
            ctx.violation(rid, key, "%s slices a string with a bound of unknown unit (%s)" % (f.short, ", ".join(units.fmt_expr(e) for r, e, u in unknown)), b.site(bi), key)
        else:
            ok_sites.add((f.id, bi))
            ctx.ok(rid, key, "byte offsets")
    # the converse confusion: a byte count used as a number of characters
    for f, b, bi, e, u in units.char_count_sites(U):
        key = "%s/char-count(%s)" % (f.short, units.fmt_expr(e))
        if "BYTE" in u or "SHIFT" in u:
            ctx.violation(rid, key, "%s advances a character iterator by %s, which is a number of BYTES: after a multi-byte character the iterator runs past the intended position and the byte positions kept beside it no longer match the text that was consumed" % (f.short, units.fmt_expr(e)), b.site(bi), key)
        else:
            ctx.ok(rid, key, "not a byte count")
    ctx.floor(rid, "str_slice_sites", len(sites), 1)
    ctx.count(rid + "_position_fields", {"%s.%s" % (n[0].split("::")[-1], n[1]): sorted(u) for n, u in U.unit.items()})
    return ok_sites


def rule_indent_pairing(ctx, rid):
    """every `indent += c` is matched by `indent -= c` on all Ok paths of every writer routine, and the level never
    goes below zero (Indent::sub_assign panics otherwise)"""
    F = ctx.F
    ctx.rule(rid, "indentation increments and decrements are paired on every successful path of every writer routine, so the 'Indentation cannot go below 0' panic is unreachable")
    n_sites = 0
    ok_all = True
    for f in F.fns.values():
        if not f.id.startswith("lef21::write::") or f.kind == "Closure":
            continue
        b = od.pruned_body(F, Body(f))
        deltas = {}
        for bi, t in b.calls():
            n = callee_name(t) or ""
            m = re.search(r"Indent as std::ops::(Add|Sub)Assign<usize>>::(add|sub)_assign$", n)
            if m and len(t["args"]) == 2:
                c = b.const_of(t["args"][1])
                if c is None or "int" not in c:
                    ctx.violation(rid, "%s/non-constant" % f.short, "%s changes the indentation by a non-constant amount" % f.short, b.site(bi))
                    ok_all = False
                    continue
                deltas[bi] = c["int"] if m.group(1) == "Add" else -c["int"]
                n_sites += 1
        if not deltas:
            continue
        # forward dataflow of the set of possible balances at block entry
        bal = {0: {0}}
        work = [0]
        bad = None
        okb, errb = od.ret_kind_blocks(b)
        steps = 0
        while work and steps < 20000:
            steps += 1
            x = work.pop()
            cur = bal[x]
            out = set()
            for v in cur:
                nv = v + deltas.get(x, 0)
                if nv < 0:
                    bad = ("negative", x)
                out.add(nv)
            if len(out) > 12:
                bad = ("unbounded", x)
                break
            for s_ in b.succs[x]:
                old = bal.get(s_, set())
                new = old | out
                if new != old:
                    bal[s_] = new
                    work.append(s_)
        if bad is None:
            for x in okb:
                vals = bal.get(x)
                if vals and vals != {0}:
                    bad = ("unbalanced", x)
        if bad:
            ok_all = False
            ctx.violation(rid, f.short, "%s: indentation is %s on some path (an unmatched decrement panics in Indent::sub_assign; an unmatched increment mis-indents the rest)" % (f.short, bad[0]), b.site(bad[1]), f.short)
        else:
            ctx.ok(rid, f.short, "%d indent changes, balanced" % len(deltas))
    ctx.floor(rid, "indent_sites", n_sites, 2)
    return ok_all


LOSSY_TEXT = re.compile(r"str::<impl str>::(trim|trim_matches|trim_start|trim_end|trim_start_matches|trim_end_matches|trim_left|trim_right|trim_left_matches|trim_right_matches|strip_prefix|strip_suffix|replace|replacen|to_lowercase|to_uppercase|to_ascii_lowercase|to_ascii_uppercase|split|rsplit|splitn|rsplitn|split_once|rsplit_once|split_whitespace|split_at|get|get_unchecked|escape_default|escape_debug|repeat)$"
                        r"|string::String::(truncate|pop|remove|retain|drain|replace_range|insert|insert_str|split_off|clear)$|slice::<impl \[u8\]>::to_ascii_(upper|lower)case$")
TEXT_IDENTITY = re.compile(r"String as std::convert::From<&str>>::from$|::to_string$|::to_owned$|::into$|::clone$|::as_str$|Deref>::deref$|::as_ref$|::borrow$|String::from$|::from$|Option::<.*>::(unwrap|expect|unwrap_or|unwrap_or_default)$|Try>::branch$")
TEXT_CONSUMER = re.compile(r"from_str$|::parse$|PartialEq.*::(eq|ne)$|::(starts_with|ends_with|contains|cmp|partial_cmp|is_empty|len|chars|bytes|as_bytes|find|eq_ignore_ascii_case|is_char_boundary)$|fmt::|Argument::<.*>::new_|::fail|::fail_msg")


def rule_text_verbatim(ctx, rid, prefix="lef21::read::"):
    """names, strings and other text operands must reach the data model exactly as written (the writer prints them verbatim,
    and C04 requires exact values): a transformed copy of token text may be compared or parsed, but not stored"""
    ctx.rule(rid, "token text is stored verbatim: no trimmed / stripped / replaced / case-folded / split copy of input text flows into a stored value (such copies may only be compared or parsed)")
    F = ctx.F
    n_sites = 0
    n_txt = 0
    for f in F.fns.values():
        if not f.id.startswith(prefix) or f.derived:
            continue
        b = Body(f)
        for bi, t in b.calls():
            nm = callee_name(t) or ""
            if nm.endswith("LefParser::<'src>::txt") or nm.endswith("::txt"):
                n_txt += 1
            if not LOSSY_TEXT.search(nm):
                continue
            n_sites += 1
            key = "%s/%s" % (f.short, nm.split("::")[-1])
            # forward closure of the transformed text inside this function
            T = {t["dest"]["l"]}
            stored = None
            changed = True
            while changed and stored is None:
                changed = False
                for bj, blk in enumerate(b.blocks):
                    if blk["cleanup"] or bj not in b.reachable:
                        continue
                    for st in blk["st"]:
                        if st["k"] != "assign":
                            continue
                        rv = st["rv"]
                        used = []
                        for k in ("o", "l", "r"):
                            q = op_place(rv[k]) if k in rv and isinstance(rv[k], dict) else None
                            if q is not None:
                                used.append(q["l"])
                        if rv["k"] in ("ref", "rawptr"):
                            used.append(rv["p"]["l"])
                        if rv["k"] == "agg":
                            for o in rv["ops"]:
                                q = op_place(o)
                                if q is not None and q["l"] in T and rv.get("ak") == "adt" and rv.get("variant") not in ("Some", "Ok", "Continue"):
                                    stored = (bj, "built into %s" % (rv.get("variant") or rv.get("id", "a value")))
                                if q is not None and q["l"] in T and st["p"]["l"] not in T:
                                    T.add(st["p"]["l"])
                                    changed = True
                        if any(u in T for u in used) and st["p"]["l"] not in T:
                            if st["p"]["l"] == 0 or st["p"]["p"]:
                                stored = (bj, "stored into the result")
                            T.add(st["p"]["l"])
                            changed = True
                    u = blk["term"]
                    if u["k"] == "call" and u is not t:
                        hit = [a for a in u["args"] if op_place(a) is not None and op_place(a)["l"] in T]
                        if not hit:
                            continue
                        un = callee_name(u) or ""
                        if TEXT_CONSUMER.search(un):
                            continue
                        if TEXT_IDENTITY.search(un) or LOSSY_TEXT.search(un):
                            if u["dest"]["l"] not in T:
                                T.add(u["dest"]["l"])
                                changed = True
                            if u["dest"]["l"] == 0:
                                stored = (bj, "returned")
                            continue
                        # any other call receiving the transformed text keeps it (builder setter, push, constructor ...)
                        if op_place(u["args"][0]) is not None and op_place(u["args"][0])["l"] in T and len(u["args"]) == 1:
                            # unary helper on the text itself: result carries it on
                            if u["dest"]["l"] not in T:
                                T.add(u["dest"]["l"])
                                changed = True
                            continue
                        stored = (bj, "passed to %s" % un.split("::")[-1])
            if stored:
                ctx.violation(rid, key, "%s stores a %s copy of input text (%s): the value read differs from the value written in the file, and the writer prints it back without the removed characters" % (
                    f.short, nm.split("::")[-1], stored[1]), b.site(bi), key)
            else:
                ctx.ok(rid, key, "only compared / parsed")
    ctx.count("text_transform_sites", n_sites)
    ctx.floor(rid, "token_text_reads", n_txt, 2)


def template_specs(bs):
    """placeholders of a fmt::Arguments byte-code template: [(arg index, has_flags, has_width, has_precision)]"""
    out, i, n, nxt = [], 0, len(bs), 0
    while i < n:
        b = bs[i]
        if b == 0:
            break
        if b < 0x80:
            i += 1 + b
        elif b == 0x80:
            i += 3 + (bs[i + 1] | (bs[i + 2] << 8))
        elif b >= 0xC0:
            i += 1
            fl, wd, pr = bool(b & 1), bool(b & 2), bool(b & 4)
            i += 4 if fl else 0
            i += 2 if wd else 0
            i += 2 if pr else 0
            idx = None
            if b & 8:
                idx = bs[i] | (bs[i + 1] << 8)
                i += 2
            if idx is None:
                idx = nxt
            nxt = idx + 1
            out.append((idx, fl, wd, pr))
        else:
            break
    return out


def rule_plain_number_format(ctx, rid):
    """values are printed with `{}`: a precision (`{:.6}`) truncates or pads a Decimal, flags (`{:+}`, `{:#}`, `{:e}`)
    change its spelling - the text no longer reads back to the value that was written"""
    from analysis.mir import Body, callee_name, op_const
    F = ctx.F
    ctx.rule(rid, "the LEF writer and the Display impls it relies on print every value with a plain `{}`: no precision and no formatting flags (a precision cuts or pads a decimal: 0.1234567 is written as 0.123456)")
    n = 0
    for f in F.fns.values():
        if not f.id.startswith("lef21::") or not f.body or f.derived:
            continue
        if not (f.id.startswith("lef21::write::") or (f.trait_item or "").endswith("fmt::Display::fmt")):
            continue
        b = Body(f)
        for bi, t in b.calls():
            nm = callee_name(t) or ""
            if not re.search(r"fmt::Arguments::<.*>::new$|fmt::Arguments::new$", nm) or not t["args"]:
                continue
            o = t["args"][0]
            c = None
            for _ in range(5):
                c = op_const(b.resolve_copy(o))
                if c is not None:
                    break
                rv = b.def_rvalue(o)
                if rv is None:
                    break
                if rv["k"] in ("use", "cast"):
                    o = rv["o"]
                elif rv["k"] in ("ref", "rawptr"):
                    o = {"cp": {"l": rv["p"]["l"], "p": []}}
                else:
                    break
            if not c or "bytes" not in c:
                continue
            n += 1
            bad = [(idx, fl, wd, pr) for idx, fl, wd, pr in template_specs(bytes(c["bytes"])) if fl or pr]
            key = "%s/format-spec" % f.short
            if bad:
                ctx.violation(rid, key, "%s prints a value with %s: the written text does not carry the exact value (fine coordinates are truncated, short ones padded), so the library read back differs" % (
                    f.short, " and ".join(sorted({"a precision" if pr else "formatting flags" for _, fl, wd, pr in bad}))), b.site(bi), key)
            else:
                ctx.ok(rid, "%s@%d" % (f.short, bi), "plain placeholders")
    ctx.floor(rid, "format_templates", n, 20)


def rule_line_writer_verbatim(ctx, rid):
    """the function that puts a formatted statement on the output writes it as formatted"""
    from analysis.mir import Body, callee_name
    F = ctx.F
    ctx.rule(rid, "the writer's line-output routine (it receives fmt::Arguments and writes them) emits the text as formatted, with indentation only: it does not measure, split, wrap, trim or rewrite it - a quoted string or a glued token that is re-broken no longer reads back as written")
    n = 0
    EDIT = re.compile(r"alloc::fmt::format$|std::fmt::format$|str::<impl str>::\w+$|String::(push|push_str|insert\w*|remove|truncate|pop|drain|replace_range|split_off|retain)$|slice::<impl \[T\]>::(split\w*|chunks\w*|windows|join|concat)$|str::traits::.*::index$|ToString>?::to_string$")
    for f in F.fns.values():
        if not f.id.startswith("lef21::write::") or not f.body or f.kind == "Closure":
            continue
        if not any(re.search(r"fmt::Arguments<", i["s"]) for i in f.inputs):
            continue
        n += 1
        bodies = [f] + [c for c in F.fns.values() if c.kind == "Closure" and c.id.startswith(f.id + "::{closure")]
        hits = []
        for g in bodies:
            b = Body(g)
            for bi, t in b.calls():
                nm = callee_name(t) or ""
                if EDIT.search(nm):
                    hits.append((b.site(bi), nm.split("::")[-1]))
        key = "%s/verbatim" % f.short
        if hits:
            ctx.violation(rid, key, "%s works on the formatted text (%s) before writing it: statements are re-broken or altered on the way out, and text inside quotes (PROPERTY strings, BEGINEXT blocks) does not read back as written" % (f.short, ", ".join(sorted({h[1] for h in hits}))), hits[0][0], key)
        else:
            ctx.ok(rid, key, "written as formatted")
    ctx.floor(rid, "line_output_routines", n, 1)


def rule_ascii_lookahead_premise(ctx, rid):
    """the two audited facts about lex_number (its slice end `pos - start - 1`, and its first accept() making progress)
    rest on one premise: lex_number is entered only with a one-byte look-ahead character.  This rule checks the premise."""
    from analysis.mir import Body, callee_name, callee_id, op_const
    F = ctx.F
    ctx.rule(rid, "premise of the lex_number audits: every call of lex_number is reachable only over the TRUE edge of a test that the look-ahead character is an ASCII digit (`is_digit` / `is_ascii_digit`) or equals a one-byte constant; otherwise the literal `- 1` in its slice bound lands inside a multi-byte character")
    targets = [f for f in F.fns.values() if f.id.startswith("lef21::read::") and f.short.endswith("LefLexer::lex_number")]
    if len(targets) != 1:
        ctx.error(rid, "lex_number not found")
        return
    tgt = targets[0]
    n = 0
    for f in F.fns.values():
        if not f.id.startswith("lef21::read::") or not f.body or f.id == tgt.id:
            continue
        b = Body(f)
        sites = [bi for bi, t in b.calls() if callee_id(t) == tgt.id]
        if not sites:
            continue
        true_edges = set()
        for bi, t in b.calls():
            if re.search(r"char::methods::<impl char>::(is_digit|is_ascii_digit|is_ascii_\w+)$|::(is_digit|is_ascii_digit)$", callee_name(t) or ""):
                sw = od.bool_switch(b, bi)
                if sw:
                    true_edges.add((sw[0], sw[1]))
        for bi, blk in enumerate(b.blocks):
            u = blk["term"]
            if u["k"] != "switch" or blk["cleanup"]:
                continue
            rv = b.def_rvalue(u["on"])
            if rv and rv["k"] == "bin" and rv["op"] == "Eq":
                cs = [op_const(b.resolve_copy(rv[k])) for k in ("l", "r")]
                cs = [c for c in cs if c is not None and isinstance(c.get("int"), int)]
                if cs and all(0 <= c["int"] < 128 for c in cs):
                    false_t = dict((v, tg) for v, tg in u["arms"]).get(0)
                    tr = u["else"] if false_t is not None else None
                    if tr is not None:
                        true_edges.add((bi, tr))
        for s_ in sites:
            n += 1
            r = od.reach(b, 0, removed_edges=true_edges)
            key = "%s->lex_number" % f.short
            if s_ in r:
                ctx.violation(rid, key, "%s can call lex_number without having established that the look-ahead character is a single byte (an ASCII digit, '.', '-'): lex_number's slice bound subtracts a literal 1 for that character, so a multi-byte lead character makes it slice inside a character or past the end (panic)" % f.short, b.site(s_), key)
            else:
                ctx.ok(rid, key, "only behind an ASCII look-ahead test (%d true edges)" % len(true_edges))
    ctx.floor(rid, "lex_number_call_sites", n, 1)
