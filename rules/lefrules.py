"""Shared LEF rules (C04, C05, C11)."""
import re
from analysis import units, ordering as od, panics as pn
from analysis.mir import Body, callee_name, callee_id, op_const
from rules import panicrules as pr

READ_ROOTS = ("data::LefLibrary::open", "read::parse_file", "read::parse_str")
WRITE_ROOTS = ("write::to_string", "write::save", "data::LefLibrary::to_string", "data::LefLibrary::save")
_units = {}


def get_units(F):
    u = _units.get(id(F))
    if u is None:
        u = _units[id(F)] = units.Units(F, ["lef21::"])
    return u


def lef_roots(F, shorts):
    return [f.id for f in F.fns.values() if f.short in shorts and f.id.startswith("lef21::")]


def rule_byte_offsets(ctx, rid):
    """every bound of a str slice in lef21 is a byte offset (never a character count)"""
    F = ctx.F
    ctx.rule(rid, "every bound of every string slice in the LEF reader is a byte offset: position fields only grow by len_utf8 of consumed characters (or byte lengths), never by 1 per character")
    U = get_units(F)
    sites = U.str_index_sites()
    ok_sites = set()
    for f, b, bi, bounds in sites:
        key = "%s/str-slice(%s)" % (f.short, ",".join(units.fmt_expr(e) for r, e, u in bounds))
        bad = [(r, e, u) for r, e, u in bounds if "CHAR" in u]
        unknown = [(r, e, u) for r, e, u in bounds if not u and e[0] not in ("const",)]
        if bad:
            ctx.violation(rid, key, "%s slices a string with %s, which counts characters, not bytes: text containing a multi-byte character is mis-sliced or panics ('not a char boundary')" % (
                f.short, ", ".join("%s = %s" % (r, units.fmt_expr(e)) for r, e, u in bad)), b.site(bi), key)
        elif unknown:
            ctx.violation(rid, key, "%s slices a string with a bound of unknown unit (%s)" % (f.short, ", ".join(units.fmt_expr(e) for r, e, u in unknown)), b.site(bi), key)
        else:
            ok_sites.add((f.id, bi))
            ctx.ok(rid, key, "byte offsets")
    ctx.floor(rid, "str_slice_sites", len(sites), 2)
    ctx.count(rid + "_position_fields", {"%s.%s" % (n[0].split("::")[-1], n[1]): sorted(u) for n, u in U.unit.items()})
    return ok_sites


def rule_indent_pairing(ctx, rid):
    """every `indent += c` is matched by `indent -= c` on all Ok paths of every writer routine, and the level never
    goes below zero (Indent::sub_assign panics otherwise)"""
    F = ctx.F
    ctx.rule(rid, "indentation increments and decrements are paired on every successful path of every writer routine, so the 'Indentation cannot go below 0' panic is unreachable")
    n_sites = 0
    ok_all = True
    for f in F.fns.values():
        if not f.id.startswith("lef21::write::") or f.kind == "Closure":
            continue
        b = od.pruned_body(F, Body(f))
        deltas = {}
        for bi, t in b.calls():
            n = callee_name(t) or ""
            m = re.search(r"Indent as std::ops::(Add|Sub)Assign<usize>>::(add|sub)_assign$", n)
            if m and len(t["args"]) == 2:
                c = b.const_of(t["args"][1])
                if c is None or "int" not in c:
                    ctx.violation(rid, "%s/non-constant" % f.short, "%s changes the indentation by a non-constant amount" % f.short, b.site(bi))
                    ok_all = False
                    continue
                deltas[bi] = c["int"] if m.group(1) == "Add" else -c["int"]
                n_sites += 1
        if not deltas:
            continue
        # forward dataflow of the set of possible balances at block entry
        bal = {0: {0}}
        work = [0]
        bad = None
        okb, errb = od.ret_kind_blocks(b)
        steps = 0
        while work and steps < 20000:
            steps += 1
            x = work.pop()
            cur = bal[x]
            out = set()
            for v in cur:
                nv = v + deltas.get(x, 0)
                if nv < 0:
                    bad = ("negative", x)
                out.add(nv)
            if len(out) > 12:
                bad = ("unbounded", x)
                break
            for s_ in b.succs[x]:
                old = bal.get(s_, set())
                new = old | out
                if new != old:
                    bal[s_] = new
                    work.append(s_)
        if bad is None:
            for x in okb:
                vals = bal.get(x)
                if vals and vals != {0}:
                    bad = ("unbalanced", x)
        if bad:
            ok_all = False
            ctx.violation(rid, f.short, "%s: indentation is %s on some path (an unmatched decrement panics in Indent::sub_assign; an unmatched increment mis-indents the rest)" % (f.short, bad[0]), b.site(bad[1]), f.short)
        else:
            ctx.ok(rid, f.short, "%d indent changes, balanced" % len(deltas))
    ctx.floor(rid, "indent_sites", n_sites, 4)
    return ok_all
