"""C12 — instance transforms compose like the geometric operations they name (E1 dependence signatures, E7 order)."""
import re
from analysis import flow, ordering as od
from analysis.mir import Body, callee_name, callee_id
from analysis.walk import Walker, field_chain, strip_calls
from rules.gdsrules import get_flow

T = "layout21raw::geom::Transform"


def sig(f):
    return [i["s"] for i in f.inputs], (f.output or {}).get("s", "")


def find(F, ins_pat, out_pat, prefix="layout21raw::geom::"):
    res = []
    for f in F.fns.values():
        if not f.id.startswith(prefix) or f.kind == "Closure" or f.derived or f.trait:
            continue
        i, o = sig(f)
        if len(i) == len(ins_pat) and all(re.search(p, s) for p, s in zip(ins_pat, i)) and re.search(out_pat, o):
            res.append(f)
    return res


def P(i, *path):
    return (i, tuple(path))


def _proj(t, path):
    """project a walker term along a field / constant-index path"""
    for pth in path:
        if t is None:
            return None
        if pth.startswith("["):
            i = int(pth.strip("[]"))
            if t[0] == "agg" and i < len(t[2]):
                t = t[2][i]
            else:
                return None
        else:
            if t[0] == "agg" and isinstance(t[1], str):
                return_none = True
                # struct aggregate: field order from the ADT table is not in the term; use names when the walker kept them
                t = ("f", t, pth) if False else _agg_field(t, pth)
            else:
                t = ("f", t, pth)
    return t


_FIELDS = {}


def _agg_field(t, name):
    F = _FIELDS.get("F")
    adt = F.adts.get(str(t[1]).rsplit("::", 1)[0]) if F else None
    if adt:
        names = [x["name"] for x in adt["variants"][0]["fields"]]
        if name in names and names.index(name) < len(t[2]):
            return t[2][names.index(name)]
    return None


def _strip_sites(t):
    if isinstance(t, tuple):
        if t and t[0] == "call" and len(t) == 4:
            return ("call", t[1], tuple(_strip_sites(x) for x in t[2]))
        return tuple(_strip_sites(x) for x in t)
    return t


def same_on_all_branches(F, f, path, src):
    """does output entry `path` of loop-free `f` have the same symbolic value on every path, i.e. is its may-dependence on
    parameter `src` (a value only ever *tested*) an artefact of a select?  True only when that is established."""
    from analysis.walk import Walker
    _FIELDS["F"] = F
    w = Walker(f, max_visits=1, follow_errors=True, max_paths=512)
    terms = []
    w.run(on_return=lambda p: terms.append((dict(p.facts), p.env.get(0))))
    if w.truncated or not terms:
        return False
    # group paths by all facts that do NOT mention the parameter; within a group the entry must be one term
    def mentions(t):
        if isinstance(t, tuple):
            if t[:2] == ("param", src[0]):
                return True
            return any(mentions(x) for x in t)
        return False
    groups = {}
    for facts, ret in terms:
        key = tuple(sorted((str(_strip_sites(k)), str(v)) for k, v in facts.items() if not mentions(k)))
        val = _proj(ret, path)
        if val is None or mentions(val):
            return False
        groups.setdefault(key, set()).add(str(_strip_sites(val)))
    return all(len(v) == 1 for v in groups.values())


def run(ctx):
    F = ctx.F
    fl = get_flow(F)
    ctx.rule("R12.1", "dependence signature of every transform primitive equals the signature of the matrix algebra it names (T(loc)·R(θ)·F^r, 2x2 products, affine application): each output entry depends on exactly the inputs the algebra says")
    ctx.rule("R12.2", "flattening composes parent-first: cascade(incoming, from_instance(inst.loc, inst.reflect_vert, inst.angle)), recursion receives the cascade, every element is transformed by the incoming transform, every instance and element is visited")
    M = r"^&\[\[f64; 2\]; 2\]$"
    V = r"^&\[f64; 2\]$"
    specs = []

    def one(name, fns):
        if len(fns) != 1:
            ctx.violation("R12.1", name + "/anchor", "expected exactly one function with the signature of %s, found %s" % (name, [f.short for f in fns]), None)
            return None
        return fns[0]

    matmul = one("matmul", find(F, [M, M], r"^\[\[f64; 2\]; 2\]$"))
    matvec = one("matvec", find(F, [M, V], r"^\[f64; 2\]$"))
    cascade = one("cascade", find(F, [r"^&geom::Transform$", r"^&geom::Transform$"], r"^geom::Transform$"))
    from_inst = one("from_instance", find(F, [r"^&geom::Point$", r"^bool$", r"Option<f64>$"], r"^geom::Transform$"))
    ptx = one("Point::transform", find(F, [r"^&geom::Point$", r"^&geom::Transform$"], r"^geom::Point$"))
    rotate = one("rotate", find(F, [r"^f64$"], r"^geom::Transform$"))
    translate = one("translate", find(F, [r"^f64$", r"^f64$"], r"^geom::Transform$"))
    I = ("[0]", "[1]")
    if matmul:
        for i in (0, 1):
            for j in (0, 1):
                specs.append((matmul, (I[i], I[j]), {P(1, I[i], "[0]"), P(1, I[i], "[1]"), P(2, "[0]", I[j]), P(2, "[1]", I[j])}, True))
    if matvec:
        for i in (0, 1):
            specs.append((matvec, (I[i],), {P(1, I[i], "[0]"), P(1, I[i], "[1]"), P(2, "[0]"), P(2, "[1]")}, True))
    if cascade:
        for i in (0, 1):
            for j in (0, 1):
                specs.append((cascade, ("a", I[i], I[j]), {P(1, "a", I[i], "[0]"), P(1, "a", I[i], "[1]"), P(2, "a", "[0]", I[j]), P(2, "a", "[1]", I[j])}, True))
            specs.append((cascade, ("b", I[i]), {P(1, "a", I[i], "[0]"), P(1, "a", I[i], "[1]"), P(2, "b", "[0]"), P(2, "b", "[1]"), P(1, "b", I[i])}, True))
    if ptx:
        specs.append((ptx, ("x",), {P(1, "x"), P(1, "y"), P(2, "a", "[0]", "[0]"), P(2, "a", "[0]", "[1]"), P(2, "b", "[0]")}, True))
        specs.append((ptx, ("y",), {P(1, "x"), P(1, "y"), P(2, "a", "[1]", "[0]"), P(2, "a", "[1]", "[1]"), P(2, "b", "[1]")}, True))
    if from_inst:
        specs.append((from_inst, ("a", "[0]", "[0]"), {P(3)}, True))
        specs.append((from_inst, ("a", "[0]", "[1]"), {P(3), P(2)}, True))
        specs.append((from_inst, ("a", "[1]", "[0]"), {P(3)}, True))
        specs.append((from_inst, ("a", "[1]", "[1]"), {P(3), P(2)}, True))
        specs.append((from_inst, ("b", "[0]"), {P(1, "x")}, True))
        specs.append((from_inst, ("b", "[1]"), {P(1, "y")}, True))
    if rotate:
        for i in (0, 1):
            for j in (0, 1):
                specs.append((rotate, ("a", I[i], I[j]), {P(1)}, True))
            specs.append((rotate, ("b", I[i]), set(), True))
    if translate:
        specs.append((translate, ("b", "[0]"), {P(1)}, True))
        specs.append((translate, ("b", "[1]"), {P(2)}, True))
        for i in (0, 1):
            for j in (0, 1):
                specs.append((translate, ("a", I[i], I[j]), set(), True))
    n = 0
    for f, path, want, exact in specs:
        n += 1
        d = fl.deps(f.id, 0, path)
        inst = "%s%s" % (f.short.split("::")[-1], "".join("." + p if not p.startswith("[") else p for p in path))
        site = "%s:%d" % (f.sp[0], f.sp[1])
        if flow.has_unknown(d):
            ctx.note("R12.1", "%s: analysis budget exhausted, skipped" % inst)
            continue
        got = set()
        for s in d:
            if s[0] == "param":
                pth = tuple(x for x in s[2] if x not in ("#d", "#cmp", "#sel"))
                # Option<f64> payload of angle: drop 'as:Some' remnants
                pth = tuple(x for x in pth if not x.startswith("as:"))
                if pth and pth[-1] == "0" and f is from_inst and s[1] == 3:
                    pth = pth[:-1]
                got.add((s[1], pth))
        # exactness is only claimed when the function (and its callees in geom) are loop-free straight-line code
        loopfree = not Body(f).loops()
        missing = {w for w in want if not any(g[0] == w[0] and (g[1][:len(w[1])] == w[1] or w[1][:len(g[1])] == g[1]) for g in got)}
        extra = {g for g in got if not any(g[0] == w[0] and (g[1][:len(w[1])] == w[1] or w[1][:len(g[1])] == g[1]) for w in want)}
        fmt = lambda ps: sorted("arg%d%s" % (p[0], "".join("." + x if not x.startswith("[") else x for x in p[1])) for p in ps)
        if extra and exact and loopfree and not missing:
            # a may-dependence through a `select` (the same value stored on both sides of a test of that parameter) is not a
            # dependence: compare the entry's symbolic value across the paths that differ only in the test of the parameter
            extra = {g for g in extra if not same_on_all_branches(F, f, path, g)}
        if missing:
            ctx.violation("R12.1", inst, "%s does not depend on %s, which the algebra requires (it depends on %s)" % (inst, fmt(missing), fmt(got)), site, inst)
        elif extra and exact and loopfree:
            ctx.violation("R12.1", inst, "%s depends on %s, which the algebra excludes" % (inst, fmt(extra)), site, inst)
        else:
            ctx.ok("R12.1", inst, "= %s" % fmt(want))
    ctx.floor("R12.1", "signature_entries", n, 30)
    # constants of identity / reflect_vert
    consts = find(F, [], r"^geom::Transform$")
    for f in consts:
        vals = {}
        for i in (0, 1):
            for j in (0, 1):
                d = fl.deps(f.id, 0, ("a", I[i], I[j]))
                vals[(i, j)] = sorted(s[1] for s in d if s[0] == "const")
        b0 = [sorted(s[1] for s in fl.deps(f.id, 0, ("b", I[i])) if s[0] == "const") for i in (0, 1)]
        flat = (vals[(0, 0)], vals[(0, 1)], vals[(1, 0)], vals[(1, 1)])
        ident = (["1f64"], ["0f64"], ["0f64"], ["1f64"])
        refl = (["1f64"], ["0f64"], ["0f64"], ["-1f64"])
        if flat in (ident, refl) and b0 == [["0f64"], ["0f64"]]:
            ctx.ok("R12.1", f.short.split("::")[-1] + "/constants", str(flat))
        else:
            ctx.violation("R12.1", f.short.split("::")[-1] + "/constants", "%s is neither the identity nor the x-axis reflection matrix: a=%s b=%s" % (f.short, flat, b0), "%s:%d" % (f.sp[0], f.sp[1]))
    if len(consts) < 2:
        ctx.violation("R12.1", "constants/anchor", "identity and reflect_vert constructors not both found", None)

    # ---- R12.2 flatten
    def calls_itself(f):
        if any(callee_id(t) == f.id for bi, t in Body(f).calls()):
            return True
        # the recursive call may sit in a closure handed to an iterator adapter
        return any(any(callee_id(t) == f.id for bi, t in Body(cf).calls()) for cf, abb, an in od.closure_loops(F, f))
    rec = [f for f in F.fns.values() if f.id.startswith("layout21raw::data::") and f.kind != "Closure" and any(re.search(r"geom::Transform$", i["s"]) for i in f.inputs)
           and calls_itself(f)]
    if len(rec) != 1 or not cascade or not from_inst:
        ctx.violation("R12.2", "flatten/anchor", "expected one recursive flattening function taking a Transform, found %s" % [f.short for f in rec], None)
        return
    f = rec[0]
    b = Body(f)
    site = "%s:%d" % (f.sp[0], f.sp[1])
    tparam = [k + 1 for k, i in enumerate(f.inputs) if re.search(r"geom::Transform$", i["s"])][0]
    w = Walker(f, max_visits=2, max_paths=3000)
    seen = {"cascade": [], "from": [], "rec": [], "xf": []}

    def on_call(path, bb, t, name, args):
        cid = callee_id(t)
        if cid == cascade.id:
            seen["cascade"].append(args)
        elif cid == from_inst.id:
            seen["from"].append(args)
        elif cid == f.id:
            seen["rec"].append(args)
        elif name and re.search(r"TransformTrait>::transform$|::transform$", name) and len(args) == 2:
            seen["xf"].append(args)
        return None
    from analysis.walk import with_closures
    w.run(on_call=with_closures(F, on_call))

    def is_param(t, k):
        t = strip_calls(t)
        return t == ("param", k)

    def contains_call(t, fid_name):
        from analysis.gdscodec import find_terms
        return bool(find_terms(t, lambda x: x[0] == "call" and x[1] and x[1].endswith(fid_name)))
    # cascade(parent = incoming, child = from_instance(..))
    if not seen["cascade"]:
        ctx.violation("R12.2", "flatten/cascade", "%s never cascades transforms" % f.short, site)
    else:
        ok = all(is_param(a[0], tparam) and contains_call(a[1], "::from_instance") for a in seen["cascade"])
        if ok:
            ctx.ok("R12.2", "flatten/cascade-order", "cascade(incoming, from_instance(..))")
        else:
            ctx.violation("R12.2", "flatten/cascade-order", "%s: cascade must be called as (incoming transform, instance transform); the arguments are swapped or derive from something else" % f.short, site)
    # from_instance(inst.loc, inst.reflect_vert, inst.angle)
    inst_adt = F.adts.get("layout21raw::data::Instance")
    want_fields = None
    if inst_adt:
        fl_ = inst_adt["variants"][0]["fields"]
        pt = [x["name"] for x in fl_ if x["ty"]["s"].endswith("geom::Point")]
        bo = [x["name"] for x in fl_ if x["ty"]["s"] == "bool"]
        an = [x["name"] for x in fl_ if re.search(r"Option<f64>$", x["ty"]["s"])]
        if len(pt) == 1 and len(bo) == 1 and len(an) == 1:
            want_fields = [pt[0], bo[0], an[0]]
    if not seen["from"] or want_fields is None:
        ctx.violation("R12.2", "flatten/from_instance", "%s does not build the instance transform from the instance fields" % f.short, site)
    else:
        good = True
        for a in seen["from"]:
            chains = []
            for k in range(3):
                root, chain = field_chain(a[k])
                if not chain or chain[-1] != want_fields[k]:
                    good = False
                chains.append((root, tuple(chain[:-1])))
            if len(set(chains)) != 1:
                good = False
        if good:
            ctx.ok("R12.2", "flatten/from_instance", "from_instance(inst.%s, inst.%s, inst.%s)" % tuple(want_fields))
        else:
            ctx.violation("R12.2", "flatten/from_instance", "%s: from_instance must receive (inst.%s, inst.%s, inst.%s) of one instance" % ((f.short,) + tuple(want_fields)), site)
    # recursion receives the cascade result
    if not seen["rec"]:
        ctx.violation("R12.2", "flatten/recursion", "no recursive descent", site)
    else:
        ok = all(contains_call(a[tparam - 1], "::cascade") for a in seen["rec"])
        if ok:
            ctx.ok("R12.2", "flatten/recursion", "child layouts are flattened under the cascaded transform")
        else:
            ctx.violation("R12.2", "flatten/recursion", "%s: the recursive call does not receive the cascaded transform" % f.short, site)
    # elements transformed by the incoming transform
    if not seen["xf"]:
        ctx.violation("R12.2", "flatten/elements", "%s never transforms element shapes" % f.short, site)
    else:
        ok = all(is_param(a[1], tparam) for a in seen["xf"])
        if ok:
            ctx.ok("R12.2", "flatten/elements", "elements transformed by the incoming transform")
        else:
            ctx.violation("R12.2", "flatten/elements", "%s: element shapes are not transformed by the incoming transform" % f.short, site)
    # every element / instance visited
    for label, is_target in (("elements", lambda t: bool(re.search(r"Vec::<.*>::push$|Extend<.*>>::extend$", callee_name(t) or ""))),
                             ("instances", lambda t: callee_id(t) == f.id)):
        why = []
        loops = od.every_item_handled(F, f, is_target, why)
        if not loops or not all(ok for h, ok in loops):
            ctx.violation("R12.2", "flatten/all-" + label, "%s: an iteration over %s can skip the %s (%s)" % (f.short, label, "push" if label == "elements" else "descent", "; ".join(why) or "no loop found"), site)
        else:
            ctx.ok("R12.2", "flatten/all-" + label, "every iteration handles its item")
    ctx.assume("signs and rounding of the matrix entries are value-level and not decided; only which inputs each entry depends on, and the composition order")

    # ---- R12.5 transforms are composed in floating point: rounding belongs to the final point conversion only
    ctx.rule("R12.5", "functions that build or compose transforms (results of type Transform / matrix / vector of f64) never round: no round / floor / ceil / trunc and no float-to-integer conversion on the way - rounding an intermediate origin or matrix entry makes nested placements drift by up to a unit per level")
    n_tf = 0
    for f in F.fns.values():
        if not f.id.startswith("layout21raw::geom::") or f.derived or f.kind == "Closure" or not f.body:
            continue
        out = (f.output or {}).get("s", "")
        if not re.search(r"^geom::Transform$|^\[\[f64; 2\]; 2\]$|^\[f64; 2\]$", out):
            continue
        n_tf += 1
        bodies = [(f, Body(f))] + [(cf, Body(cf)) for cf in F.fns.values() if cf.kind == "Closure" and cf.id.startswith(f.id + "::{closure")]
        hits = []
        for g_, b_ in bodies:
            for bi, t in b_.calls():
                nm = callee_name(t) or ""
                if re.search(r"f64::<impl f64>::(round|floor|ceil|trunc|round_ties_even)$|::(round|floor|ceil|trunc)$", nm):
                    hits.append((b_.site(bi), nm.split("::")[-1]))
            for bi, blk in enumerate(b_.blocks):
                for st in blk["st"]:
                    if st["k"] == "assign" and st["rv"]["k"] == "cast" and st["rv"].get("ck") == "FloatToInt":
                        hits.append((b_.site(bi), "as-integer"))
        key = "%s/rounds" % f.short
        if hits:
            ctx.violation("R12.5", key, "%s builds a transform but applies %s to an intermediate value: composition is no longer exact (cascade(rotate(30), translate(3,0)) gets origin (3,1) instead of (2.598,1.5)); only the final point conversion may round" % (f.short, ", ".join(sorted({h[1] for h in hits}))), hits[0][0], key)
        else:
            ctx.ok("R12.5", f.short, "no rounding inside")
    ctx.floor("R12.5", "transform_builders", n_tf, 5)

    # ---- R12.3 signed quantities stay signed
    ctx.rule("R12.4", "every float-to-integer conversion in the transform code is applied to a value that was rounded first (round to nearest, then convert)")
    ctx.rule("R12.3", "angles, matrix entries and coordinates are signed: the transform code contains no conversion of a float or signed integer to an unsigned integer (such a cast clamps every negative value to zero)")
    n_casts = 0
    UNS = ("u8", "u16", "u32", "u64", "u128", "usize")
    for f in F.fns.values():
        if not f.id.startswith("layout21raw::geom::") or f.derived:
            continue
        b = Body(f)
        for bi, blk in enumerate(b.blocks):
            if blk["cleanup"]:
                continue
            for st in blk["st"]:
                if st["k"] != "assign" or st["rv"]["k"] != "cast":
                    continue
                rv = st["rv"]
                ck, fr, to = rv.get("ck"), (rv.get("from") or {}).get("s", ""), (rv.get("to") or {}).get("s", "")
                if ck in ("FloatToInt", "IntToInt", "IntToFloat"):
                    n_casts += 1
                src = b.def_call(rv["o"])
                if src is not None and re.search(r"::(rem_euclid|abs|unsigned_abs)$", callee_name(src) or ""):
                    continue  # provably non-negative
                if ck == "FloatToInt":
                    # R12.4: `as Int` truncates towards zero: it may only be applied to a value that was rounded first
                    if src is None or not re.search(r"f64::<impl f64>::round$|::round$|::round_ties_even$", callee_name(src) or ""):
                        k4 = "%s/%s->%s/unrounded" % (f.short, fr, to)
                        ctx.violation("R12.4", k4, "%s converts a float to %s without rounding it first: `as` truncates towards zero, so a value such as -2.9999999999999996 (a right-angle rotation leaves residues of that size) becomes -2 instead of -3" % (f.short, to), b.site(bi), k4)
                    else:
                        ctx.ok("R12.4", "%s/%s->%s@%d" % (f.short, fr, to, bi), "rounded before the cast")
                if to in UNS and (ck == "FloatToInt" or (ck == "IntToInt" and fr.startswith("i"))):
                    key = "%s/%s->%s" % (f.short, fr, to)
                    ctx.violation("R12.3", key, "%s converts a signed %s to %s: negative values (a clockwise angle such as -90, a negative coordinate) become 0, so the transform built from them is wrong" % (f.short, fr, to), b.site(bi), key)
    ctx.floor("R12.3", "numeric_casts_in_geom", n_casts, 2)
    if n_casts:
        ctx.ok("R12.3", "no-sign-losing-cast", "%d numeric casts inspected" % n_casts)

