"""C14 — raw layout survives the trip through the protobuf schema (E1 Rule A both ways, E4 units, E3 export panics)."""
import re
from analysis import flow, ordering as od
from analysis.mir import Body, callee_name, callee_id
from rules.flowrules import select, check_flows
from rules.gdsrules import get_flow
from rules import panicrules as pr

PFX = "layout21raw::proto::"
EXP = r"^&mut proto::ProtoExporter<"
IMP = r"^&mut proto::ProtoImporter$"
XY = lambda o, i: [((o, "x"), [(2, (i, "x"))], [(2, (i, "y"))]), ((o, "y"), [(2, (i, "y"))], [(2, (i, "x"))])]

EXPORT = [
    ("point", [EXP, r"^&geom::Point$"], r"Result<layout21protos::Point,", [
        (("x",), [(2, ("x",))], [(2, ("y",))]), (("y",), [(2, ("y",))], [(2, ("x",))])]),
    ("instance", [EXP, r"^&data::Instance$"], r"Result<layout21protos::Instance,", [
        (("name",), [(2, ("inst_name",))], []),
        (("cell",), [(2, ("cell",))], []),
        (("reflect_vert",), [(2, ("reflect_vert",))], []),
        (("origin_location", "x"), [(2, ("loc", "x"))], [(2, ("loc", "y")), (2, ("cell",)), (2, ("reflect_vert",)), (2, ("angle",))]),
        (("origin_location", "y"), [(2, ("loc", "y"))], [(2, ("loc", "x")), (2, ("cell",)), (2, ("reflect_vert",)), (2, ("angle",))]),
        (("rotation_clockwise_degrees",), [(2, ("angle",))], []),
    ]),
    ("rect", [EXP, r"^&geom::Rect$"], r"Result<layout21protos::Rectangle,", [
        (("lower_left", "x"), [(2, ("p0", "x")), (2, ("p1", "x"))], [(2, ("p0", "y")), (2, ("p1", "y"))]),
        (("lower_left", "y"), [(2, ("p0", "y")), (2, ("p1", "y"))], [(2, ("p0", "x")), (2, ("p1", "x"))]),
        (("width",), [(2, ("p0", "x")), (2, ("p1", "x"))], [(2, ("p0", "y")), (2, ("p1", "y"))]),
        (("height",), [(2, ("p0", "y")), (2, ("p1", "y"))], [(2, ("p0", "x")), (2, ("p1", "x"))]),
    ]),
    ("polygon", [EXP, r"^&geom::Polygon$"], r"Result<layout21protos::Polygon,", [(("vertices",), [(2, ("points",))], [])]),
    ("path", [EXP, r"^&geom::Path$"], r"Result<layout21protos::Path,", [(("points",), [(2, ("points",))], [(2, ("width",))]), (("width",), [(2, ("width",))], [(2, ("points",))])]),
    ("annotation", [EXP, r"^&data::TextElement$"], r"Result<layout21protos::TextElement,", [
        (("string",), [(2, ("string",))], []), (("loc",), [(2, ("loc",))], [])]),
    ("element", [EXP, r"^&data::Element$"], r"Result<proto::ProtoShape,", [
        (("as:Rect", "0", "net"), [(2, ("net",))], []), (("as:Poly", "0", "net"), [(2, ("net",))], []), (("as:Path", "0", "net"), [(2, ("net",))], []),
        (("as:Rect", "0", "lower_left"), [(2, ("inner",))], []), (("as:Poly", "0", "vertices"), [(2, ("inner",))], []), (("as:Path", "0", "points"), [(2, ("inner",))], []),
    ]),
    ("cell", [EXP, r"^&data::Cell$"], r"Result<layout21protos::Cell,", [
        (("name",), [(2, ("name",))], [(2, ("layout", "name")), (2, ("abs", "name"))]), (("layout",), [(2, ("layout",))], []), (("abstract",), [(2, ("abs",))], [])]),
    ("layout", [EXP, r"^&data::Layout$"], r"Result<layout21protos::Layout,", [
        (("name",), [(2, ("name",))], []), (("instances",), [(2, ("insts",))], []), (("annotations",), [(2, ("annotations",))], []),
        (("shapes",), [(2, ("elems",))], []), (("shapes", "[*]", "layer", "number"), [(2, ("elems", "layer"))], []), (("shapes", "[*]", "layer", "purpose"), [(2, ("elems", "purpose"))], [])]),
    ("abstract", [EXP, r"^&abs::Abstract$|^&data::Abstract$"], r"Result<layout21protos::Abstract,", [
        (("name",), [(2, ("name",))], []), (("ports",), [(2, ("ports",))], []), (("blockages",), [(2, ("blockages",))], []), (("outline",), [(2, ("outline",))], [])]),
    ("abstract_port", [EXP, r"AbstractPort$"], r"Result<layout21protos::AbstractPort,", [
        (("net",), [(2, ("net",))], []), (("shapes",), [(2, ("shapes",))], [])]),
]
IMPORT = [
    ("point", [IMP, r"^&layout21protos::Point$"], r"Result<geom::Point,", [
        (("x",), [(2, ("x",))], [(2, ("y",))]), (("y",), [(2, ("y",))], [(2, ("x",))])]),
    ("instance", [IMP, r"^&layout21protos::Instance$"], r"Result<data::Instance,", [
        (("inst_name",), [(2, ("name",))], []),
        (("cell",), [(2, ("cell",))], []),
        (("reflect_vert",), [(2, ("reflect_vert",))], []),
        (("loc", "x"), [(2, ("origin_location", "x"))], [(2, ("origin_location", "y")), (2, ("cell",)), (2, ("reflect_vertically",)), (2, ("rotation_clockwise_degrees",))]),
        (("loc", "y"), [(2, ("origin_location", "y"))], [(2, ("origin_location", "x")), (2, ("cell",)), (2, ("reflect_vertically",)), (2, ("rotation_clockwise_degrees",))]),
        (("angle",), [(2, ("rotation_clockwise_degrees",))], []),
    ]),
    ("rect", [IMP, r"^&layout21protos::Rectangle$"], r"Result<geom::Shape,", [
        (("as:Rect", "0", "p0", "x"), [(2, ("lower_left", "x"))], [(2, ("lower_left", "y")), (2, ("height",)), (2, ("width",))]),
        (("as:Rect", "0", "p0", "y"), [(2, ("lower_left", "y"))], [(2, ("lower_left", "x")), (2, ("height",)), (2, ("width",))]),
        (("as:Rect", "0", "p1", "x"), [(2, ("lower_left", "x")), (2, ("width",))], [(2, ("lower_left", "y")), (2, ("height",))]),
        (("as:Rect", "0", "p1", "y"), [(2, ("lower_left", "y")), (2, ("height",))], [(2, ("lower_left", "x")), (2, ("width",))]),
    ]),
    ("polygon", [IMP, r"^&layout21protos::Polygon$"], r"Result<geom::Shape,", [(("as:Polygon", "0", "points"), [(2, ("vertices",))], [])]),
    ("path", [IMP, r"^&layout21protos::Path$"], r"Result<geom::Shape,", [
        (("as:Path", "0", "points"), [(2, ("points",))], [(2, ("width",))]), (("as:Path", "0", "width"), [(2, ("width",))], [(2, ("points",))])]),
    ("annotation", [IMP, r"^&layout21protos::TextElement$"], r"Result<data::TextElement,", [
        (("string",), [(2, ("string",))], []), (("loc",), [(2, ("loc",))], [])]),
    ("cell", [IMP, r"^&layout21protos::Cell$"], r"Result<data::Cell,", [
        (("name",), [(2, ("name",))], [(2, ("layout", "name")), (2, ("abstract", "name"))]), (("layout",), [(2, ("layout",))], []), (("abs",), [(2, ("abstract",))], [])]),
    ("layout", [IMP, r"^&layout21protos::Layout$"], r"Result<data::Layout,", [
        (("name",), [(2, ("name",))], []), (("insts",), [(2, ("instances",))], []), (("annotations",), [(2, ("annotations",))], []), (("elems",), [(2, ("shapes",))], [])]),
    ("layer_shapes", [IMP, r"^&layout21protos::LayerShapes$"], r"Result<std::vec::Vec<data::Element>,", [
        (("[*]", "net"), [(2, ("rectangles", "net")), (2, ("polygons", "net")), (2, ("paths", "net"))], []),
        (("[*]", "inner"), [(2, ("rectangles",)), (2, ("polygons",)), (2, ("paths",))], []),
        (("[*]", "layer"), [(2, ("layer", "number"))], []),
        (("[*]", "purpose"), [(2, ("layer", "purpose"))], []),
    ]),
    ("abstract", [IMP, r"^&layout21protos::Abstract$"], r"Result<.*Abstract,", [
        (("name",), [(2, ("name",))], []), (("ports",), [(2, ("ports",))], []), (("blockages",), [(2, ("blockages",))], []), (("outline",), [(2, ("outline",))], [])]),
    ("abstract_port", [IMP, r"^&layout21protos::AbstractPort$"], r"Result<.*AbstractPort,", [
        (("net",), [(2, ("net",))], []), (("shapes",), [(2, ("shapes",))], [])]),
]


def run(ctx):
    F = ctx.F
    from rules import deadrules as _dr
    _dr.rule_parsed_fields_used(ctx, "R14.8", ("layout21raw::proto::",), 10)
    fl = get_flow(F)
    ctx.rule("R14.1e", "raw -> proto: every field of every converter's output derives from the corresponding raw field (x/y, width/height never crossed)")
    ctx.rule("R14.1i", "proto -> raw: every field of every converter's output derives from the corresponding message field")
    ctx.rule("R14.2", "Units: every raw unit is exported to a schema unit or reported as an error (never a panic); every schema unit is importable")
    ctx.rule("R14.3", "exported cells are listed in dependency order: the cell list derives from the orderer's result")
    from rules import C17 as c17
    c17.run(ctx.sub("R14.3o", "the raw cell orderer the exporter relies on satisfies the orderer rules of C17"), only=lambda f: f.id.startswith("layout21raw::data::"), floors=False)
    ctx.rule("R14.4", "exporting cannot panic on any raw library")
    from rules import convrules as cv
    cv.run(ctx, "R14.7", ("layout21raw::proto::",), {"p": 20, "t": 5, "w": 10})
    for rid, table, side in (("R14.1e", EXPORT, "export"), ("R14.1i", IMPORT, "import")):
        n = 0
        for label, ins, out, rows in table:
            fns = select(F, PFX, ins, out)
            if len(fns) != 1:
                ctx.violation(rid, "%s/%s/anchor" % (side, label), "expected one %s converter for %s, found %s" % (side, label, [f.short for f in fns]), None)
                continue
            n += 1
            check_flows(ctx, rid, fns[0], rows, "%s_%s" % (side, label))
        ctx.floor(rid, side + "_converters", n, 10)
    # library level
    for f in select(F, PFX, [EXP], r"Result<layout21protos::Library,"):
        if f.pub:
            continue
        d = fl.deps(f.id, 0, ("cells",))
        vias = flow.vias_of(d)
        if any("DepOrder::order" in v or v.endswith("::order") for v in vias):
            ctx.ok("R14.3", f.short, "cells derive from the orderer's result")
        else:
            ctx.violation("R14.3", f.short, "%s: exported cell list does not derive from the dependency orderer (cells could be listed before the cells they instantiate)" % f.short, "%s:%d" % (f.sp[0], f.sp[1]))
        for out, src in ((("domain",), ("lib", "name")), (("units",), ("lib", "units"))):
            d = fl.deps(f.id, 0, out)
            if any(s[0] == "param" and s[1] == 1 and tuple(x for x in s[2] if not x.startswith(("#", "["))) [:2] == src for s in d):
                ctx.ok("R14.1e", "export_lib:%s" % out[0], "<- lib.%s" % src[1])
            else:
                ctx.violation("R14.1e", "export_lib:%s" % out[0], "%s: library %s does not derive from lib.%s" % (f.short, out[0], src[1]), "%s:%d" % (f.sp[0], f.sp[1]))
    # ---- R14.2 units
    ue = select(F, PFX, [EXP, r"^&data::Units$"], r"Result<layout21protos::Units,")
    if len(ue) != 1:
        ctx.violation("R14.2", "export_units/anchor", "export_units not found", None)
    else:
        f = ue[0]
        b = Body(f)
        sws = od.enum_switches(F, b, "layout21raw::data::Units")
        if not sws:
            ctx.error("R14.2", "no match on Units")
        else:
            bi, arms, other, eid = sws[0]
            okb, errb = od.ret_kind_blocks(b)
            for v in [x["name"] for x in F.adts["layout21raw::data::Units"]["variants"]]:
                tgt = arms.get(v, other)
                r = od.reach(b, tgt)
                panics = [x for x in r if b.term(x)["k"] == "call" and re.search(r"core::panicking|std::rt::begin_panic", callee_name(b.term(x)) or "")]
                if panics and not (od.reach(b, tgt, removed=set(panics)) & (okb | errb)):
                    ctx.violation("R14.2", "export_units/%s" % v, "exporting a library in Units::%s panics (unimplemented!) instead of returning an error" % v, b.site(panics[0]), "export_units/%s" % v)
                else:
                    ctx.ok("R14.2", "export_units/%s" % v, "value or error")
    from rules import boolxfer as bx
    bx.run_table(ctx, "R14.1b", bx.RAW_PROTO)
    # ---- R14.4 export panic freedom
    roots = pr.roots_by_short(F, ("proto::ProtoExporter::export",))
    pr.rule_panic_free(ctx, "R14.4", roots, "Library::to_proto", scope_prefixes=["layout21raw::"], floor=1)
    rule_context_purpose(ctx, "R14.9")
    ctx.assume("rectangle corner normalisation (p0/p1 -> lower-left + size) is value-level; numeric ranges are checked conversions")
    ctx.assume("from_proto's unwraps on absent optional sub-messages are outside the statement (it promises errors only for undefined references)")


# ---- R14.9 which purpose a view's shapes are exported under ------------------------------------------------------
# The raw model keeps an abstract's port shapes and blockages per *layer*; the purpose half of the exported
# (number, purpose) pair is supplied by the exporter.  Audited from layout21raw/src/data.rs (`LayerPurpose`: "Pin" =
# pins / ports, "Obstruction" = blockages): each context below must reach `export_layerspec` with exactly that purpose,
# directly or through helpers of the same exporter that pass their own purpose parameter along.
# Contexts are found by the type a method converts, not by its name: a method of the exporter that takes an
# `&AbstractPort` is the port context; one that takes an `&Abstract` is the blockage context (calls it makes into the port
# context excluded).
PURPOSE_OF_CONTEXT = [
    ("AbstractPort", "Pin", ()),
    ("Abstract", "Obstruction", ("AbstractPort",)),
]


def _takes(g, tyname):
    return any(re.search(r"(^|[^\w])%s$" % tyname, i.get("s", "").replace("&", "").strip()) for i in g.inputs)


def _purpose_operand(F, f, b, o, binding):
    """variant name of the LayerPurpose behind operand `o`: a promoted constant, a local aggregate, or a parameter of f"""
    from analysis.mir import op_place, op_const
    for _ in range(12):
        o = b.resolve_copy(o)
        pl = op_place(o)
        if pl is None:
            c = op_const(o)
            if c and "promoted" in c and isinstance(c["promoted"], int) and c["promoted"] < len(f.promoted):
                for blk in f.promoted[c["promoted"]]["blocks"]:
                    for st in blk["st"]:
                        rv = st.get("rv", {})
                        if rv.get("k") == "agg" and rv.get("id", "").endswith("LayerPurpose"):
                            return rv.get("variant", "?")
            return "?"
        l = pl["l"]
        if 1 <= l <= b.argc:
            return binding.get(l, "param")
        ds = b.defs.get(l, [])
        if len(ds) != 1:
            return "?"
        d = ds[0]
        if d[2] != "assign":
            return "?"
        rv = d[3]["rv"]
        if rv["k"] == "ref":
            o = {"cp": {"l": rv["p"]["l"], "p": []}}
            continue
        if rv["k"] == "agg" and rv.get("id", "").endswith("LayerPurpose"):
            return rv.get("variant", "?")
        if rv["k"] == "use":
            o = rv["o"]
            continue
        return "?"
    return "?"


def _purposes_reached(F, f, binding, depth, seen, skip=()):
    out = []
    b = Body(f)
    impl = f.id.rsplit("::", 1)[0]
    for bi, t in b.calls():
        cid = callee_id(t) or ""
        if cid.endswith("::export_layerspec") and len(t["args"]) > 2:
            out.append((_purpose_operand(F, f, b, t["args"][2], binding), b.site(bi)))
        elif cid.startswith(impl + "::") and cid in F.fns and depth < 3 and cid not in seen:
            g = F.fns[cid]
            if any(_takes(g, ty) for ty in skip):
                continue
            nb = {}
            for j, a in enumerate(t["args"]):
                lt = g.inputs[j].get("s", "") if j < len(g.inputs) else ""
                if "LayerPurpose" in lt:
                    nb[j + 1] = _purpose_operand(F, f, b, a, binding)
            out += _purposes_reached(F, g, nb, depth + 1, seen | {cid}, skip)
    return out


def rule_context_purpose(ctx, rid):
    ctx.rule(rid, "port shapes of an abstract are exported under the layer's Pin purpose and blockages under its Obstruction purpose (the raw model stores them per layer; the exporter supplies the purpose), through whatever helper the exporter uses")
    F = ctx.F
    n = 0
    for f in F.fns.values():
        if not f.id.startswith("layout21raw::proto::") or "ProtoExporter::" not in f.short or f.kind == "Closure":
            continue
        ctxs = [(ty, want, skip) for ty, want, skip in PURPOSE_OF_CONTEXT if _takes(f, ty)]
        if not ctxs:
            continue
        ty, want, skip = ctxs[0]
        n += 1
        got = _purposes_reached(F, f, {}, 0, {f.id}, skip)
        key = "%s/purpose" % f.short
        bad = [(p, s) for p, s in got if p != want]
        if not got:
            ctx.violation(rid, key, "%s never reaches export_layerspec: its shapes are exported without the %s layer/purpose pair" % (f.short, want), "%s:%d" % (f.sp[0], f.sp[1]), key)
        elif bad:
            ctx.violation(rid, key, "%s exports its shapes under purpose %s (at %s) instead of %s: the layer/purpose numbers of an abstract's %s change on the way through the schema" % (f.short, sorted(set(p for p, _ in bad)), bad[0][1], want, "ports" if want == "Pin" else "blockages"), bad[0][1], key)
        else:
            ctx.ok(rid, key, "reaches export_layerspec with %s only (%d call sites)" % (want, len(got)))
    ctx.floor(rid, "purpose_contexts", n, 2)
