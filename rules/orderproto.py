"""Representation-independent reading of a recursive orderer's visit protocol.

The protocol of C17 ("already ordered -> return; on the stack -> cycle error; mark pending; descend; release; mark done;
emit") can be kept in two sets, in one map from item to a state enum, or with `insert`'s boolean result standing in for
`contains`.  This module reduces all of them to three kinds of facts about the (helper-inlined) body of `push`:

  mark     a store that puts the item into state K      HashSet::insert(set, item)            K = (set field, None)
                                                         HashMap::insert(map, item, V)         K = (map field, V)
  test     a branch that is taken iff the item is in K   HashSet::contains(set, item) == true
                                                         HashSet::insert(set, item) == false   (was present)
                                                         match map.get(item) { Some(V) => .. } (arm of V)
  release  a store after which the item is no longer K   HashSet::remove(set, item); HashMap::remove;
                                                         HashMap::insert(map, item, V') with V' != V
"""
import re
from analysis import ordering as od
from analysis.mir import callee_name, op_place, op_local, op_const

SETS = r"(HashSet|BTreeSet)::<.*>::"
MAPS = r"(HashMap|BTreeMap)::<.*>::"


def variant_of_operand(b, o):
    """name of the unit enum variant an operand holds (a freshly built `State::Pending`), or None"""
    rv = b.def_rvalue(o)
    if rv is not None and rv["k"] == "agg" and rv.get("variant"):
        return rv["variant"]
    c = op_const(b.resolve_copy(o))
    if c is not None and isinstance(c.get("s"), str) and "::" in c["s"]:
        return c["s"].split("::")[-1]
    return None


def _derived_locals(b, root):
    """locals that hold (a part of) the value of `root`: copies, moves, reborrows and projections of it"""
    S = {root}
    changed = True
    while changed:
        changed = False
        for blk in b.blocks:
            for st in blk["st"]:
                if st["k"] != "assign" or st["p"]["p"] or st["p"]["l"] in S:
                    continue
                rv = st["rv"]
                src = None
                if rv["k"] in ("use", "cast"):
                    src = op_place(rv["o"])
                elif rv["k"] in ("ref", "rawptr"):
                    src = rv["p"]
                if src is not None and src["l"] in S:
                    S.add(st["p"]["l"])
                    changed = True
    return S


def map_value_arms(F, b, call_bb):
    """for `match map.get(item)`: [(switch bb, variant name, target bb)] of the switch on the stored value's discriminant,
    plus (switch bb, None-marker) is not reported: absence is simply "no arm taken" """
    t = b.term(call_bb)
    S = _derived_locals(b, t["dest"]["l"])
    out = []
    for bi, blk in enumerate(b.blocks):
        u = blk["term"]
        if u["k"] != "switch" or bi not in b.reachable or blk["cleanup"]:
            continue
        rv = b.def_rvalue(u["on"])
        if not rv or rv["k"] != "discr" or rv["p"]["l"] not in S:
            continue
        ty = rv["ty"]
        while ty.get("k") == "ref":
            ty = ty["to"]
        if ty.get("k") != "adt" or ty["id"].endswith("option::Option"):
            continue
        seen_t = set()
        for v, tgt in u["arms"]:
            name = F.variant_of(ty["id"], v)
            if name:
                out.append((bi, name, tgt))
                seen_t.add(name)
        # the otherwise arm stands for the remaining variants when exactly one is left
        adt = F.adts.get(ty["id"])
        if adt and not b.is_unreachable_blk(u["else"]):
            rest = [x["name"] for x in adt["variants"] if x["name"] not in seen_t]
            if len(rest) == 1:
                out.append((bi, rest[0], u["else"]))
    return out


def membership_ops(F, b):
    """(tests, marks, releases) — see module doc.  Only containers that are fields of *self are considered."""
    tests, marks, releases = [], [], []
    for bi, t, fld in od.field_calls(b, SETS + "contains$"):
        sw = od.bool_switch(b, bi)
        tests.append({"key": (fld, None), "call": bi, "sw": sw[0] if sw else None, "present": sw[1] if sw else None})
    for bi, t, fld in od.field_calls(b, SETS + "insert$"):
        marks.append({"key": (fld, None), "bb": bi})
        sw = od.bool_switch(b, bi)
        if sw:
            # insert() answers false when the item was there already
            tests.append({"key": (fld, None), "call": bi, "sw": sw[0], "present": sw[2], "is_mark": True})
    for bi, t, fld in od.field_calls(b, SETS + "remove$"):
        releases.append({"field": fld, "bb": bi, "to": None})
    for bi, t, fld in od.field_calls(b, MAPS + "insert$"):
        val = variant_of_operand(b, t["args"][2]) if len(t["args"]) > 2 else None
        marks.append({"key": (fld, val), "bb": bi})
        releases.append({"field": fld, "bb": bi, "to": val})
    for bi, t, fld in od.field_calls(b, MAPS + "remove$"):
        releases.append({"field": fld, "bb": bi, "to": None})
    for bi, t, fld in od.field_calls(b, MAPS + "(get|get_mut)$"):
        for swbb, variant, tgt in map_value_arms(F, b, bi):
            tests.append({"key": (fld, variant), "call": bi, "sw": swbb, "present": tgt})
    return tests, marks, releases


def fmt_key(k):
    fld, val = k
    return ".".join(fld) + ("=" + val if val else "")


PROTOCOL_CALL = re.compile(SETS + r"(contains|insert|remove)$|" + MAPS + r"(get|get_mut|insert|remove|contains_key)$")
