"""Accumulate-don't-overwrite rules shared by the reader / importer properties (C04, C06, C16).

A statement kind that may occur several times (PROPERTY, OBS on one layer, several PORTs of a pin, several elements on a
layer) is collected into a Vec or a map of Vecs.  Two shapes lose earlier occurrences while every single occurrence still
works, so no one-statement test notices:

  * overwrite in a loop:   `acc = parse_x()?;`            instead of `acc.extend(parse_x()?)` / `acc = parse_x(acc)?`
  * lossy map merge:       `map.insert(k, vec)` / `map.entry(k).or_insert(vec);`   when k can repeat
"""
import re, json
from analysis import ctrl, ordering as od
from analysis.mir import Body, callee_name, op_place
from analysis.nondet import root_local

COLL = re.compile(r"^(std::vec::Vec|std::collections::(HashMap|HashSet|BTreeMap|BTreeSet|VecDeque))<")
GROW = re.compile(r"::(push|extend|insert|append|push_back|extend_from_slice)$")


def rule_no_overwrite_in_loop(ctx, rid, prefixes, floor):
    ctx.rule(rid, "a collection that accumulates repeated statements across a loop is never re-assigned from a value that does not derive from its previous content")
    F = ctx.F
    n_acc = 0
    for f in F.fns.values():
        if not f.id.startswith(tuple(prefixes)):
            continue
        b = Body(f)
        loops = b.loops()
        if not loops:
            continue
        for l in range(b.argc + 1, len(b.locals)):
            ty = b.local_ty(l)["s"]
            if not COLL.match(ty) or b.local_name(l) is None:
                continue
            defs = b.defs.get(l, [])
            whole = [d for d in defs if (d[2] == "assign" and not d[3]["p"]["p"]) or (d[2] == "call" and not d[3]["dest"]["p"])]
            grown = [bi for bi, t in b.calls() if GROW.search(callee_name(t) or "") and t["args"] and root_local(b, t["args"][0]) == l and any(bi in blks for h, blks in loops)]
            in_loop_defs = [d for d in whole if any(d[0] in blks for h, blks in loops)]
            # an accumulator: initialised outside every loop, then grown or re-assigned inside one
            outside = [d for d in whole if not any(d[0] in blks for h, blks in loops)]
            if not outside or not (grown or in_loop_defs):
                continue
            n_acc += 1
            key = "%s/%s" % (f.short, b.local_name(l))
            bad = None
            for d in in_loop_defs:
                if d[2] == "assign":
                    ops = [d[3]["rv"].get("o")] if d[3]["rv"]["k"] == "use" else []
                    sl = ctrl.slice_paths(b, [o for o in ops if o])
                else:
                    sl = ctrl.slice_paths(b, d[3]["args"])
                if not any(q[0] == ("local", l) for q in sl):
                    bad = d
            if bad:
                ctx.violation(rid, key, "%s: `%s` (%s) is re-assigned inside a loop from a value that does not include its previous content: every earlier occurrence of the statement is discarded, only the last one survives" % (
                    f.short, b.local_name(l), ty.split("<")[0].split("::")[-1]), b.site(bad[0]), key)
            else:
                ctx.ok(rid, key, "grown in place or threaded through")
    ctx.floor(rid, "loop_accumulators", n_acc, floor)


def _dest_used(b, t):
    dest = t["dest"]["l"]
    for blk in b.blocks:
        for st in blk["st"]:
            if st["k"] == "assign" and ('"l": %d,' % dest) in json.dumps(st["rv"]):
                return True
        u = blk["term"]
        if u["k"] == "call" and u is not t:
            for a in u["args"]:
                q = op_place(a)
                if q and q["l"] == dest:
                    return True
        if u["k"] == "switch":
            q = op_place(u["on"])
            if q and q["l"] == dest:
                return True
    return False


def rule_no_lossy_map_merge(ctx, rid, fns, floor, what="input"):
    """fns: functions that fold a repeatable input statement into a map of collections"""
    ctx.rule(rid, "a collection stored under a key that the %s can repeat is merged into the existing entry: no `insert` that overwrites and no `or_insert(value)` that drops the new value when the key is already present" % what)
    n = 0
    for f in fns:
        b = Body(f)
        for bi, t in b.calls():
            nm = callee_name(t) or ""
            if re.search(r"::extend$", nm) and t["args"] and op_place(t["args"][0]) is not None:
                # `map.extend(other_map)` replaces the value of every key the map already has
                rt = b.local_ty(op_place(t["args"][0])["l"])["s"]
                if re.search(r"(HashMap|BTreeMap)<[^<>]*, *(std::vec::Vec|std::collections::\w+)<", rt):
                    n += 1
                    key = "%s/map-extend" % f.short
                    if any(bi in blks for h, blks in b.loops()):
                        ctx.violation(rid, key, "%s merges a map of collections into another with extend(..) inside a loop: for a key both maps hold, the collection gathered earlier is replaced, not appended to (shapes of a layer used by two ports disappear)" % f.short, b.site(bi), key)
                    else:
                        ctx.ok(rid, key, "single extend outside any loop")
                continue
            if not re.search(r"(HashMap|BTreeMap)::<.*>::insert$|Entry::<.*>::or_insert$|Entry<.*>::or_insert$|::or_insert$|VacantEntry::<.*>::insert$|VacantEntry<.*>::insert$", nm):
                continue
            vals = [a for a in t["args"][1:] if op_place(a) is not None and COLL.match(b.local_ty(op_place(a)["l"])["s"])]
            if not vals:
                continue
            n += 1
            key = "%s/%s" % (f.short, nm.split("::")[-1])
            if "VacantEntry" in nm:
                ctx.ok(rid, key + "@vacant", "inserted through a vacant entry")
                continue
            if re.search(r"or_insert$", nm):
                if _dest_used(b, t):
                    ctx.ok(rid, key, "entry reference is used afterwards")
                else:
                    ctx.violation(rid, key, "%s stores a collection with entry(..).or_insert(value) and ignores the result: when the key is already present the new value is dropped (shapes of a revisited layer disappear)" % f.short, b.site(bi), key)
                continue
            # plain insert: must be dominated by negative membership evidence for the same map
            m = root_local(b, t["args"][0])
            guarded = False
            for bj, u in b.calls():
                un = callee_name(u) or ""
                if re.search(r"::(get|get_mut|contains_key)$", un) and u["args"] and root_local(b, u["args"][0]) == m and b.dominates(bj, bi):
                    guarded = True
            # a map created in this function and filled once outside any loop cannot see a repeated key
            fresh = not any(bi in blks for h, blks in b.loops())
            if guarded or fresh:
                ctx.ok(rid, key, "guarded by a lookup on the same map" if guarded else "single insert outside any loop")
            else:
                ctx.violation(rid, key, "%s stores a collection with insert(key, value) inside a loop without looking the key up first: a repeated key overwrites what was collected before" % f.short, b.site(bi), key)
    ctx.floor(rid, "map_merge_sites", n, floor)


def rule_fresh_buffers(ctx, rid, prefixes, floor=0):
    """a per-item buffer must be fresh for every item"""
    ctx.rule(rid, "a collection that is filled for one item of a loop and copied into that item's object is created (or emptied) inside the same loop iteration — a buffer that lives across iterations hands the items of earlier objects to later ones")
    F = ctx.F
    n = 0
    for f in F.fns.values():
        if not f.id.startswith(tuple(prefixes)):
            continue
        b = Body(f)
        loops = b.loops()
        if not loops:
            continue
        for l in range(b.argc + 1, len(b.locals)):
            ty = b.local_ty(l)["s"]
            if not COLL.match(ty) or b.local_name(l) is None:
                continue
            grow = [bi for bi, t in b.calls() if GROW.search(callee_name(t) or "") and t["args"] and root_local(b, t["args"][0]) == l]
            copies = [bi for bi, t in b.calls() if re.search(r"Clone>::clone$|::to_vec$|::to_owned$", callee_name(t) or "") and t["args"] and root_local(b, t["args"][0]) == l]
            if not grow or not copies:
                continue
            defs = b.defs.get(l, [])
            whole = [d[0] for d in defs if (d[2] == "assign" and not d[3]["p"]["p"]) or (d[2] == "call" and not d[3]["dest"]["p"])]
            resets = whole + [bi for bi, t in b.calls() if re.search(r"::(clear|drain|split_off)$|mem::(take|replace|swap)$", callee_name(t) or "") and t["args"] and any(root_local(b, a) == l for a in t["args"] if op_place(a) is not None)]
            for cb in copies:
                for header, blocks in loops:
                    if cb not in blocks or not any(g in blocks for g in grow):
                        continue
                    n += 1
                    key = "%s/%s" % (f.short, b.local_name(l))
                    if any(r in blocks for r in resets):
                        ctx.ok(rid, key, "created or emptied inside the loop that copies it")
                    else:
                        ctx.violation(rid, key, "%s: `%s` is filled and copied into an object inside a loop, but it is created outside that loop and never emptied in it: each later object also receives the entries collected for the earlier ones" % (
                            f.short, b.local_name(l)), b.site(cb), key)
    ctx.count("copied_loop_buffers", n)
