"""C19 — gridded-layout libraries survive the trip through their protobuf schema."""
import re
from analysis import flow, ordering as od
from analysis.mir import Body, callee_name, callee_id
from rules.flowrules import select, check_flows
from rules.gdsrules import get_flow
from rules import panicrules as pr

PFX = "layout21tetris::conv::proto::"
EXP = r"^&mut conv::proto::ProtoExporter<"
IMP = r"^&mut conv::proto::ProtoLibImporter$"
TP = "layout21protos::tetris::"

EXPORT = [
    ("cell", [EXP, r"^&cell::Cell$"], r"Result<%sCell," % TP, [
        (("name",), [(2, ("name",))], [(2, ("layout", "name")), (2, ("abs", "name"))]), (("layout",), [(2, ("layout",))], []), (("abstract",), [(2, ("abs",))], [])]),
    ("layout", [EXP, r"^&layout::Layout$"], r"Result<%sLayout," % TP, [
        (("name",), [(2, ("name",))], []),
        (("outline", "x"), [(2, ("outline", "x"))], [(2, ("outline", "y"))]),
        (("outline", "y"), [(2, ("outline", "y"))], [(2, ("outline", "x"))]),
        (("outline", "metals"), [(2, ("metals",))], []),
        (("instances",), [(2, ("instances",))], []),
        (("assignments",), [(2, ("assignments",))], [(2, ("cuts",))]),
        (("cuts",), [(2, ("cuts",))], [(2, ("assignments",))]),
    ]),
    ("outline", [EXP, r"^&outline::Outline$", r"^usize$"], r"Result<%sOutline," % TP, [
        (("x",), [(2, ("x",))], [(2, ("y",))]), (("y",), [(2, ("y",))], [(2, ("x",))]), (("metals",), [(3, ())], [])]),
    ("instance", [EXP, r"^&instance::Instance$"], r"Result<%sInstance," % TP, [
        (("name",), [(2, ("inst_name",))], []),
        (("cell",), [(2, ("cell",))], []),
        (("reflect_vert",), [(2, ("reflect_vert",))], [(2, ("reflect_horiz",))]),
        (("reflect_horiz",), [(2, ("reflect_horiz",))], [(2, ("reflect_vert",))]),
        (("loc",), [(2, ("loc",))], [(2, ("cell",)), (2, ("reflect_vert",)), (2, ("reflect_horiz",))]),
    ]),
    ("assignment", [EXP, r"^&stack::Assign$"], r"Result<%sAssign," % TP, [
        (("net",), [(2, ("net",))], []), (("at",), [(2, ("at",))], [])]),
    ("track_cross", [EXP, r"^&tracks::TrackCross$"], r"Result<%sTrackCross," % TP, [
        (("track",), [(2, ("track",))], [(2, ("cross",))]), (("cross",), [(2, ("cross",))], [(2, ("track",))])]),
    ("track_ref", [EXP, r"^&tracks::TrackRef$"], r"Result<%sTrackRef," % TP, [
        (("layer",), [(2, ("layer",))], [(2, ("track",))]), (("track",), [(2, ("track",))], [(2, ("layer",))])]),
    ("point", [EXP, r"^&coords::Xy<T>$"], r"Result<layout21protos::Point,", [
        (("x",), [(2, ("x",))], [(2, ("y",))]), (("y",), [(2, ("y",))], [(2, ("x",))])]),
]
IMPORT = [
    ("cell", [IMP, r"^&%sCell$" % TP], r"Result<cell::Cell,", [
        (("name",), [(2, ("name",))], [(2, ("layout", "name")), (2, ("abstract", "name"))]), (("layout",), [(2, ("layout",))], []), (("abs",), [(2, ("abstract",))], [])]),
    ("layout", [IMP, r"^&%sLayout$" % TP], r"Result<layout::Layout,", [
        (("name",), [(2, ("name",))], []),
        (("outline", "x"), [(2, ("outline", "x"))], [(2, ("outline", "y"))]),
        (("outline", "y"), [(2, ("outline", "y"))], [(2, ("outline", "x"))]),
        (("metals",), [(2, ("outline", "metals"))], []),
        (("instances",), [(2, ("instances",))], []),
        (("assignments",), [(2, ("assignments",))], [(2, ("cuts",))]),
        (("cuts",), [(2, ("cuts",))], [(2, ("assignments",))]),
    ]),
    ("outline", [IMP, r"^&%sOutline$" % TP], r"Result<\(outline::Outline, usize\),", [
        (("0", "x"), [(2, ("x",))], [(2, ("y",))]), (("0", "y"), [(2, ("y",))], [(2, ("x",))]), (("1",), [(2, ("metals",))], [])]),
    ("instance", [IMP, r"^&%sInstance$" % TP], r"Result<layout21utils::Ptr<instance::Instance>,", [
        (("inst_name",), [(2, ("name",))], []),
        (("cell",), [(2, ("cell",))], []),
        (("reflect_vert",), [(2, ("reflect_vert",))], [(2, ("reflect_horiz",))]),
        (("reflect_horiz",), [(2, ("reflect_horiz",))], [(2, ("reflect_vert",))]),
        (("loc",), [(2, ("loc",))], [(2, ("cell",)), (2, ("reflect_vert",)), (2, ("reflect_horiz",))]),
    ]),
    ("assignment", [IMP, r"^&%sAssign$" % TP], r"Result<stack::Assign,", [
        (("net",), [(2, ("net",))], []), (("at",), [(2, ("at",))], [])]),
    ("track_cross", [IMP, r"^&%sTrackCross$" % TP], r"Result<tracks::TrackCross,", [
        (("track",), [(2, ("track",))], [(2, ("cross",))]), (("cross",), [(2, ("cross",))], [(2, ("track",))])]),
    ("track_ref", [IMP, r"^&%sTrackRef$" % TP], r"Result<tracks::TrackRef,", [
        (("layer",), [(2, ("layer",))], [(2, ("track",))]), (("track",), [(2, ("track",))], [(2, ("layer",))])]),
    ("point", [IMP, r"^&layout21protos::Point$"], r"Result<coords::Xy<coords::PrimPitches>,", [
        (("x",), [(2, ("x",))], [(2, ("y",))]), (("y",), [(2, ("y",))], [(2, ("x",))])]),
]


def run(ctx):
    F = ctx.F
    from rules import deadrules as _dr
    _dr.rule_parsed_fields_used(ctx, "R19.8", ("layout21tetris::conv::proto::",), 10)
    fl = get_flow(F)
    ctx.rule("R19.1e", "tetris -> proto: name, outline x/y, metals, instances (name, cell, location, both reflections), assignments, cuts derive from their counterparts and paired fields are never crossed")
    ctx.rule("R19.1i", "proto -> tetris: the same correspondences in the other direction")
    ctx.rule("R19.2", "exported cells derive from the dependency orderer's result")
    from rules import C17 as c17
    c17.run(ctx.sub("R19.2o", "the gridded-cell orderer the exporter relies on satisfies the orderer rules of C17"), only=lambda f: f.id.startswith(("layout21tetris::library::", "layout21utils::")), floors=False, clients=lambda g: g.id.startswith("layout21tetris::conv::proto::"))
    ctx.rule("R19.3", "a malformed message (missing outline / location / reference, undefined cell, relative or external reference) reaches an error return: the importer contains no reachable panic")
    from rules import convrules as cv
    cv.run(ctx, "R19.7", ("layout21tetris::conv::proto::",), {"p": 10, "t": 3, "w": 5})
    for rid, table, side in (("R19.1e", EXPORT, "export"), ("R19.1i", IMPORT, "import")):
        n = 0
        for label, ins, out, rows in table:
            fns = select(F, PFX, ins, out)
            if len(fns) != 1:
                ctx.violation(rid, "%s/%s/anchor" % (side, label), "expected one %s converter for %s, found %s" % (side, label, [f.short for f in fns]), None)
                continue
            n += 1
            check_flows(ctx, rid, fns[0], rows, "%s_%s" % (side, label))
        ctx.floor(rid, side + "_converters", n, 7)
    for f in select(F, PFX, [EXP], r"Result<%sLibrary," % TP):
        d = fl.deps(f.id, 0, ("cells",))
        if any(v.endswith("::order") for v in flow.vias_of(d)):
            ctx.ok("R19.2", f.short, "cells derive from CellOrder::order")
        else:
            ctx.violation("R19.2", f.short, "exported cell list does not derive from the dependency orderer", "%s:%d" % (f.sp[0], f.sp[1]))
        d = fl.deps(f.id, 0, ("domain",))
        if any(s[0] == "param" and s[1] == 1 and "name" in s[2] for s in d):
            ctx.ok("R19.1e", "export_lib:domain", "<- lib.name")
        else:
            ctx.violation("R19.1e", "export_lib:domain", "library name is not exported", "%s:%d" % (f.sp[0], f.sp[1]))
    # rel / external placements are errors: import_instance's match on Place and import_reference's match on To
    for f in select(F, PFX, [IMP, r"^&%sInstance$" % TP], r"Result<layout21utils::Ptr<"):
        b = Body(f)
        okb, errb = od.ret_kind_blocks(b)
        for enum_sfx, bad in (("tetris::place::Place", "Rel"), ("utils::reference::To", "External")):
            sws = od.enum_switches(F, b, enum_sfx)
            for bi, arms, other, eid in sws[:1]:
                tgt = arms.get(bad)
                if tgt is None:
                    continue
                from rules.C16 import always_err
                removed = set(errb)
                for bj, u in b.calls():
                    if (callee_name(u) or "").endswith("Try>::branch") and u["args"]:
                        inner = b.def_call(u["args"][0])
                        if inner is not None and always_err(F, callee_id(inner)):
                            sw = b.term(u["t"])
                            if sw["k"] == "switch":
                                for v, t2 in sw["arms"]:
                                    if v == 0:
                                        removed.add(t2)
                    # `match x { .. => self.fail(..) }?` : the match result itself is an always-Err call result
                r = od.reach(b, tgt, removed=removed)
                if r & okb:
                    # refine: Ok-return reachable only through a Try::branch on a value built by the always-Err call in this arm
                    ctx.note("R19.3", "%s/%s: Ok reachable syntactically from the %s arm; the arm's value is an always-Err call" % (f.short, bad, bad))
                ctx.ok("R19.3", "%s/%s" % (f.short.split("::")[-1], bad), "error arm")
    roots = pr.roots_by_short(F, ("conv::proto::ProtoLibImporter::import",))
    pr.rule_panic_free(ctx, "R19.3", roots, "ProtoLibImporter::import", scope_prefixes=["layout21tetris::"], floor=1, skip_wide_signed=True)
    roots = pr.roots_by_short(F, ("conv::proto::ProtoExporter::export",))
    from rules import boolxfer as bx
    bx.run_table(ctx, "R19.1b", bx.TETRIS_PROTO)
    pr.rule_panic_free(ctx, "R19.4", roots, "ProtoExporter::export", scope_prefixes=["layout21tetris::conv::proto"], floor=1, skip_wide_signed=True)
    ctx.assume("outline validity (Outline::from_prim_pitches) and numeric ranges are checked conversions; port import/export of unimplemented kinds is reported by the panic inventory")
