"""C04 — reading a LEF file yields every statement in it, with exact values."""
import re
from analysis import flow, ordering as od
from analysis.mir import Body, callee_name, callee_id
from rules.gdsrules import get_flow
from rules import lefrules as lr

PARSER = "lef21::read::"
NORMALISERS = ("Decimal::trunc", "Decimal::normalize", "Decimal::round", "Decimal::round_dp", "Decimal::floor", "Decimal::ceil", "Decimal::rescale")


def payload_ty(ty):
    """T of LefResult<T>"""
    if ty and ty.get("k") == "adt" and ty["id"].endswith("result::Result") and ty.get("args"):
        return ty["args"][0]
    return None


def is_data_ty(ty):
    if ty is None:
        return False
    s = ty.get("s", "")
    if s in ("()", "bool") or s.startswith("&"):
        return False
    if "LefKey" in s or "Token" in s:
        return False
    return bool(re.search(r"data::Lef|String|Decimal|Vec<|char|\(", s))


def run(ctx):
    F = ctx.F
    from rules import deadrules as _dr
    _dr.rule_parsed_fields_used(ctx, "R04.7", ("lef21::read::",), 100)
    fl = get_flow(F)
    ctx.rule("R04.1", "nothing parsed is dropped: the result of every data-producing parse step a parser routine performs flows into that routine's result")
    ctx.rule("R04.1b", "every (non-Unsupported) field of every LEF structure the parser builds is filled from the input somewhere, not only by its default")
    ctx.rule("R04.2", "keywords and enumerated words are upper-cased before they are matched")
    ctx.rule("R04.3", "numbers are kept as the exact decimal written: LefDecimal values come from Decimal::from_str on the token text, never through f64; mantissa() is only read at scale 0")
    from rules import mergerules as mr
    mr.rule_no_overwrite_in_loop(ctx, "R04.1c", ["lef21::read::"], floor=3)
    lr.rule_text_verbatim(ctx, "R04.5")
    mr.rule_fresh_buffers(ctx, "R04.1d", ["lef21::read::"])
    parsers = [f for f in F.fns.values() if f.id.startswith(PARSER) and f.kind != "Closure" and "LefParser" in f.name and not f.derived]
    n_steps = 0
    n_fields = 0
    for f in sorted(parsers, key=lambda x: x.id):
        pt = payload_ty(f.output)
        if not is_data_ty(pt):
            continue
        b = Body(f)
        # query the Ok payload field by field when it is a struct (a whole-value query would also see error values,
        # which are built from the whole parser state)
        if pt.get("k") == "adt" and pt["id"] in F.adts and F.adts[pt["id"]]["kind"] == "struct" and pt["id"].startswith("lef21::data::"):
            d_all = set()
            for fld in F.adts[pt["id"]]["variants"][0]["fields"]:
                d_all |= fl.deps(f.id, 0, (fld["name"],))
        else:
            d_all = fl.deps(f.id, 0, ())
        if flow.has_unknown(d_all):
            ctx.note("R04.1", "%s: analysis budget exhausted" % f.short)
            continue
        vias = {s[1] for s in d_all if s[0] == "callres"}
        called = {}
        for bi, t in b.calls():
            cid = callee_id(t)
            g = F.fns.get(cid)
            if g is None or not g.id.startswith(PARSER) or "LefParser" not in g.name:
                continue
            gpt = payload_ty(g.output)
            if not is_data_ty(gpt):
                continue
            called.setdefault(flow.short(g.name), []).append(bi)
        for gname, sites in sorted(called.items()):
            n_steps += 1
            key = "%s/%s" % (f.short.split("::")[-1], gname.split("::")[-1])
            if gname in vias:
                ctx.ok("R04.1", key, "result used")
            else:
                ctx.violation("R04.1", key, "%s parses with %s but the parsed value never reaches its result: the statement is read and then dropped" % (f.short, gname), b.site(sites[0]), key)
        # R04.1b: fields of the struct built
        if pt.get("k") == "adt" and pt["id"] in F.adts and F.adts[pt["id"]]["kind"] == "struct" and pt["id"].startswith("lef21::data::"):
            adt = F.adts[pt["id"]]
            for fld in adt["variants"][0]["fields"]:
                if "Unsupported" in fld["ty"]["s"]:
                    continue
                n_fields += 1
                d = fl.deps(f.id, 0, (fld["name"],))
                key = "%s.%s" % (pt["id"].split("::")[-1], fld["name"])
                filled = any(s[0] == "param" and not ("#d" in s[2] or "#cmp" in s[2] or "#sel" in s[2]) for s in d) or any(s[0] == "via" and not s[1].startswith("sel:") and re.search(r"parse_|txt|from_str|expect", s[1]) for s in d)
                if not filled and re.match(r"^(bool|std::option::Option<bool>)$", fld["ty"]["s"]):
                    # flags: the stored constant is chosen by the keyword seen (control dependence on the input)
                    filled = any(s[0] == "param" and "#sel" in s[2] for s in d) and any(s[0] == "const" and s[1] == "true" for s in d)
                if flow.has_unknown(d) or filled:
                    ctx.ok("R04.1b", key, "filled from input")
                else:
                    ctx.violation("R04.1b", key, "%s never stores anything read from the input into %s (it keeps its default): statements for it are lost" % (f.short, key), "%s:%d" % (f.sp[0], f.sp[1]), key)
    ctx.floor("R04.1", "parse_steps", n_steps, 20)
    ctx.floor("R04.1b", "struct_fields", n_fields, 60)

    # ---- R04.2 case-insensitive matching
    n_m = 0
    for f in F.fns.values():
        if not f.id.startswith("lef21::") or f.kind == "Closure":
            continue
        b = Body(f)
        for bi, t in b.calls():
            n = callee_name(t) or ""
            if re.search(r"EnumStr>::from_str$|enumstr::EnumStr::from_str$", n) and t["args"]:
                if not f.id.startswith(PARSER) and "LefKey" not in f.name:
                    continue
                n_m += 1
                d = fl.deps_operand(f.id, t["args"][0])
                v = flow.vias_of(d)
                key = "%s/from_str" % f.short
                if any(x.endswith("to_ascii_uppercase") or x.endswith("to_uppercase") for x in v):
                    ctx.ok("R04.2", key, "upper-cased before matching")
                else:
                    ctx.violation("R04.2", key, "%s matches an enumerated word without upper-casing it: mixed-case LEF keywords are rejected" % f.short, b.site(bi), key)
    ctx.floor("R04.2", "enum_match_sites", n_m, 1)
    # a keyword recognised by comparing the token text with the keyword's canonical (upper-case) spelling
    n_cmp = 0
    for f in F.fns.values():
        if not f.id.startswith(PARSER) or f.kind == "Closure":
            continue
        b = Body(f)
        for bi, t in b.calls():
            n = callee_name(t) or ""
            if not re.search(r"PartialEq.*::(eq|ne)$", n) or len(t["args"]) != 2:
                continue
            vs = [flow.vias_of(fl.deps_operand(f.id, a)) for a in t["args"]]
            kw = [any(x.endswith("::to_str") or x.endswith("EnumStr>::to_str") for x in v) for v in vs]
            if not any(kw) or all(kw):
                continue
            n_cmp += 1
            # calls on the way from the text operand back to where it was read, inside this routine
            oa = t["args"][1] if kw[0] else t["args"][0]
            other, work, seen_l = set(), [oa], set()
            while work and len(seen_l) < 60:
                o = work.pop()
                q = o.get("cp") or o.get("mv") if isinstance(o, dict) else None
                if q is None or q["l"] in seen_l:
                    continue
                seen_l.add(q["l"])
                for d in b.defs.get(q["l"], []):
                    if d[2] == "call":
                        other.add(callee_name(d[3]) or "")
                        work.extend(d[3]["args"])
                    elif d[2] == "assign":
                        rv = d[3]["rv"]
                        for k in ("o", "l", "r"):
                            if k in rv and isinstance(rv[k], dict):
                                work.append(rv[k])
                        if rv["k"] in ("ref", "rawptr"):
                            work.append({"cp": rv["p"]})
            key = "%s/eq-keyword" % f.short
            if any(x.endswith("to_ascii_uppercase") or x.endswith("to_uppercase") or x.endswith("eq_ignore_ascii_case") for x in other):
                ctx.ok("R04.2", key, "text upper-cased before the comparison")
            else:
                ctx.violation("R04.2", key, "%s recognises a keyword by comparing the raw token text with the keyword's upper-case spelling: `EndExt` / `endext` are not recognised (LEF keywords are case-insensitive)" % f.short, b.site(bi), key)
    ctx.count("keyword_text_comparisons", n_cmp)

    # ---- R04.8 header statements are read in exactly the versions the writer may write them in (C05's gate rule)
    ctx.rule("R04.8", "statements whose legality depends on the LEF version are gated by the same comparison in reader and writer (NAMESCASESENSITIVE and MACRO SOURCE up to and including 5.4)")
    from rules import C05 as c05_
    c05_.rule_version_gates(ctx, "R04.8")
    # ---- R04.3 exact decimals
    nums = [f for f in parsers if (payload_ty(f.output) or {}).get("s", "").endswith("Decimal") and len(f.inputs) == 1]
    if not nums:
        ctx.error("R04.3", "parse_number not found")
    for f in nums:
        d = fl.deps(f.id, 0, ())
        v = flow.vias_of(d)
        key = f.short
        bad = [x for x in v if re.search(r"f64|f32|FloatTo|IntToFloat|from_f64|to_f64", x)]
        if not any(x.endswith("from_str") or "FromStr" in x or "from_str_exact" in x or x.endswith("::from_str_radix") or "Decimal" in x for x in v):
            ctx.violation("R04.3", key, "%s does not build its value with Decimal::from_str on the token text" % f.short, "%s:%d" % (f.sp[0], f.sp[1]))
        elif bad:
            ctx.violation("R04.3", key, "%s routes the number through floating point (%s): the decimal written is not kept exactly" % (f.short, bad), "%s:%d" % (f.sp[0], f.sp[1]))
        else:
            ctx.ok("R04.3", key, "Decimal::from_str(token text)")
        # the text handed to from_str is the token's own text: not a trimmed, stripped, replaced or re-formatted copy
        from rules import lefrules as lr_
        fb = Body(f)
        edits = []
        for bi, t in fb.calls():
            nm = callee_name(t) or ""
            if lr_.LOSSY_TEXT.search(nm) or re.search(r"alloc::fmt::format$|fmt::format$|String::(push|push_str|insert|insert_str|remove|truncate|pop|drain|replace_range)$|::concat$|::join$", nm):
                edits.append((bi, nm.split("::")[-1]))
        if edits:
            ctx.violation("R04.3", key + "/text-edited", "%s edits the number's text (%s) before converting it: some spelling of a number (a sign with a bare leading dot, trailing zeros, an exponent) is converted to a different value" % (f.short, ", ".join(sorted({e[1] for e in edits}))), fb.site(edits[0][0]), key + "/text-edited")
        else:
            ctx.ok("R04.3", key + "/text-verbatim", "token text converted as written")
    n_mant = 0
    for f in F.fns.values():
        if not f.id.startswith("lef21::"):
            continue
        b = Body(f)
        for bi, t in b.calls():
            n = callee_name(t) or ""
            if re.search(r"Decimal::mantissa$", n) and t["args"]:
                n_mant += 1
                d = fl.deps_operand(f.id, t["args"][0])
                if any(x in flow.vias_of(d) for x in NORMALISERS):
                    ctx.ok("R04.3", f.short + "/mantissa", "normalised to scale 0 first")
                else:
                    ctx.violation("R04.3", f.short + "/mantissa", "%s reads Decimal::mantissa() at a non-zero scale: '100.0' is taken for 1000" % f.short, b.site(bi), f.short + "/mantissa")
    ctx.floor("R04.3", "mantissa_sites", n_mant, 1)
    lr.rule_byte_offsets(ctx, "R04.4")
    lr.rule_ascii_lookahead_premise(ctx, "R04.4p")
    rule_every_variant_built(ctx, "R04.10")
    ctx.assume("decimal spellings are delegated to rust_decimal's FromStr; BEGINEXT content is kept as written tokens; arbitrary statement order is accepted because every construct parser is an order-insensitive loop (not re-checked here)")


def rule_every_variant_built(ctx, rid):
    """A statement form that the data model has a payload-carrying variant for can only be *yielded* if some function of
    the reader's side constructs that variant: a variant built nowhere (two keywords folded onto one variant, a
    constructor replaced by its sibling) means the statement comes back as something else or not at all."""
    ctx.rule(rid, "every payload-carrying variant of a lef21::data enum (error types excepted) is constructed by some non-derived function of lef21 outside the writer")
    F = ctx.F
    built = {}
    for f in F.fns.values():
        if not f.id.startswith("lef21::") or f.short.startswith("<") or f.short.startswith("write::"):
            continue
        b = Body(f)
        for blk in b.blocks:
            for st in blk["st"]:
                rv = st.get("rv", {})
                if rv.get("k") == "agg" and rv.get("ak") == "adt" and "variant" in rv:
                    built.setdefault((rv["id"], rv["variant"]), f)
    n = 0
    for eid, a in sorted(F.adts.items()):
        if not eid.startswith("lef21::data::") or eid.split("::")[-1].endswith("Error"):
            continue
        vs = a.get("variants") or []
        if len(vs) < 2:
            continue
        for v in vs:
            if not v.get("fields"):
                continue   # unit variants are read through the EnumStr tables (R04.2)
            n += 1
            key = "%s::%s" % (eid.split("::")[-1], v["name"])
            g = built.get((eid, v["name"]))
            if g is None:
                ctx.violation(rid, key, "no function of the LEF reader constructs %s: the statement form it stands for is read as a different variant or dropped" % key, "lef21/src/data.rs", key)
            else:
                ctx.ok(rid, key, "constructed in %s" % g.short)
    ctx.floor(rid, "payload_variants", n, 10)
