"""Shared GDSII codec rule implementations for C01, C02, C03 (E4 tables + E2 guarded walks)."""
import json, os, re
from analysis.mir import Body, callee_name, callee_id, op_const, op_place
from analysis import gdscodec as gc, ordering as od, flow
from analysis.walk import Walker, strip_calls, field_chain

ORACLE = json.load(open(os.path.join(os.path.dirname(__file__), "oracle", "gdsii.json")))
REC_BY_VARIANT = {r["variant"]: r for r in ORACLE["records"]}
PRIM_SIZE = {"write_u8": 1, "write_i16": 2, "write_u16": 2, "write_i32": 4, "write_u32": 4, "write_u64": 8, "write_i64": 8, "write_f64": 8}
READ_OF_DTYPE = {"I16": "read_i16", "I32": "read_i32", "F64": "read_f64", "BitArray": "read_bytes", "Str": "read_str", "NoData": None}
WRITE_OF_DTYPE = {"I16": "write_i16", "I32": "write_i32", "F64": "write_u64", "BitArray": "write_u8", "Str": "write_u8", "NoData": None}


class Gds:
    """lazy extraction of all GDSII codec tables from the facts"""

    def __init__(self, ctx):
        self.ctx = ctx
        self.F = ctx.F
        F = self.F
        fns = gc.record_switch_fns(F)
        self.hdr_fn = None
        self.cnt_fn = None
        for f in fns:
            b = Body(f)
            has_rt = any(st["k"] == "assign" and st["rv"]["k"] == "agg" and st["rv"].get("id") == gc.RTYPE for blk in b.blocks for st in blk["st"])
            if has_rt:
                self.hdr_fn = f
            else:
                self.cnt_fn = f
        rds = [f for f in F.fns.values() if f.id.startswith("gds21::read::") and any(
            st["k"] == "assign" and st["rv"]["k"] == "agg" and st["rv"].get("id") == gc.REC for blk in f.body["blocks"] for st in blk["st"]) and
            len([1 for blk in f.body["blocks"] for st in blk["st"] if st["k"] == "assign" and st["rv"]["k"] == "agg" and st["rv"].get("id") == gc.REC]) >= 40]
        self.dec_fn = rds[0] if rds else None
        self._hdr = self._cnt = self._dec = None
        self.rec_variants = [v["name"] for v in F.adts[gc.REC]["variants"]] if gc.REC in F.adts else []

    @property
    def hdr(self):
        if self._hdr is None:
            self._hdr = gc.writer_header_table(self.F, self.hdr_fn) if self.hdr_fn else {}
        return self._hdr

    @property
    def cnt(self):
        if self._cnt is None:
            self._cnt = gc.writer_content_table(self.F, self.cnt_fn) if self.cnt_fn else {}
        return self._cnt

    @property
    def dec(self):
        if self._dec is None:
            self._dec, self.dec_truncated = gc.reader_decode_table(self.F, self.dec_fn) if self.dec_fn else ([], False)
        return self._dec

    def site(self, fn):
        return "%s:%d" % (fn.sp[0], fn.sp[1]) if fn else None

    def rec_field_type(self, variant, field):
        for v in self.F.adts[gc.REC]["variants"]:
            if v["name"] == variant:
                for fl in v["fields"]:
                    if fl["name"] == field:
                        return fl["ty"]
        return None


# ----------------------------------------------------------------------------------------------------------
def rule_enum_numbers(ctx, g, rid):
    """R02.1: discriminants of GdsRecordType / GdsDataType equal the manual's numbers"""
    F = ctx.F
    ctx.rule(rid, "record-type and data-type numbers equal the GDSII manual's")
    if gc.RTYPE not in F.adts or gc.DTYPE not in F.adts:
        ctx.error(rid, "GdsRecordType/GdsDataType not found")
        return
    rt = gc.enum_table(F, gc.RTYPE)
    n = 0
    for r in ORACLE["records"]:
        n += 1
        have = rt.get(r["variant"])
        if have is None:
            ctx.violation(rid, "GdsRecordType::%s/missing" % r["variant"], "record %s (0x%02X) has no variant %s" % (r["mnemonic"], r["num"], r["variant"]), None)
        elif have != r["num"]:
            ctx.violation(rid, "GdsRecordType::%s" % r["variant"], "record %s must be numbered 0x%02X by the GDSII manual but GdsRecordType::%s = 0x%02X" % (r["mnemonic"], r["num"], r["variant"], have), ctx_site(F, gc.RTYPE))
        else:
            ctx.ok(rid, "GdsRecordType::%s" % r["variant"], "0x%02X" % have)
    for v, num in rt.items():
        if v not in REC_BY_VARIANT:
            ctx.violation(rid, "GdsRecordType::%s/extra" % v, "variant %s (=%d) is not a GDSII record" % (v, num), ctx_site(F, gc.RTYPE))
    dt = gc.enum_table(F, gc.DTYPE)
    for v, num in ORACLE["datatypes"].items():
        n += 1
        if dt.get(v) != num:
            ctx.violation(rid, "GdsDataType::%s" % v, "data type %s must be %d, is %s" % (v, num, dt.get(v)), ctx_site(F, gc.DTYPE))
        else:
            ctx.ok(rid, "GdsDataType::%s" % v, str(num))
    for v in dt:
        if v not in ORACLE["datatypes"]:
            ctx.violation(rid, "GdsDataType::%s/extra" % v, "variant %s is not a GDSII data type" % v, ctx_site(F, gc.DTYPE))
    ctx.floor(rid, "enum_rows_checked", n, 67)


def ctx_site(F, adt_id):
    a = F.adts.get(adt_id)
    return "%s:%d" % (a["sp"][0], a["sp"][1]) if a else None


def strlen_closure_ok(F, name):
    """closure computing len + len % 2"""
    for f in F.fns.values():
        if f.kind == "Closure" and f.name == name:
            w = Walker(f)
            res = []
            w.run(on_return=lambda p: res.append(p.env.get(0)))
            if len(res) != 1 or res[0] is None:
                return False
            t = res[0]
            # Add(len, Rem(len, 2))
            def is_len(x):
                x = strip_calls(x)
                return x[0] == "call" and x[1] and x[1].endswith("::len")
            def peel(x):
                while x[0] == "f" and x[2] == "0":
                    x = x[1]
                return x
            t = peel(t)
            if t[0] == "op" and t[1] in ("Add", "AddWithOverflow"):
                a, b = peel(t[2][0]), peel(t[2][1])
                for x, y in ((a, b), (b, a)):
                    if x[0] == "call" and x[1].endswith("::len") and y[0] == "op" and y[1] in ("Rem", "RemWithOverflow"):
                        l, m = peel(y[2][0]), y[2][1]
                        if l[0] == "call" and l[1].endswith("::len") and m[0] == "const" and m[2] == 2:
                            return True
            return False
    return False


def rule_writer_header(ctx, g, rid, emitted=None):
    """R02.2 + R02.8(a): the (record type, data type, length) the writer puts in the header equals the manual's"""
    ctx.rule(rid, "writer header triple (record type, data type, length) per GdsRecord variant equals the manual's; length is even and checked to 16 bits")
    if g.hdr_fn is None:
        ctx.error(rid, "header writer not found")
        return
    tab = g.hdr
    n = 0
    for v in g.rec_variants:
        o = REC_BY_VARIANT.get(v)
        row = tab.get(v)
        key = "GdsRecord::%s" % v
        if o is None:
            ctx.violation(rid, key + "/unknown", "GdsRecord::%s has no counterpart in the manual" % v, g.site(g.hdr_fn))
            continue
        if row is None:
            ctx.violation(rid, key + "/nohdr", "no header is written for GdsRecord::%s" % v, g.site(g.hdr_fn))
            continue
        n += 1
        problems = []
        if row["rtype"] != o["variant"]:
            problems.append("record type %s written, manual says %s" % (row["rtype"], o["variant"]))
        if row["dtype"] != o["dtype"]:
            problems.append("data type %s written, manual says %s" % (row["dtype"], o["dtype"]))
        if row["plus"] != 4:
            problems.append("total length must be payload + 4, is payload + %s" % row["plus"])
        if not row["checked"]:
            problems.append("16-bit length is not produced by a checked conversion")
        if row["prims"] != ["write_u16", "write_u8", "write_u8"]:
            problems.append("header must be u16 length, u8 record type, u8 data type; is %s" % row["prims"])
        if "byteorder::BigEndian" not in " ".join(row["endian"][0]):
            problems.append("length not big-endian")
        ln = row["len"]
        ol = o["len"]
        if isinstance(ol, int) and o["status"] in ("supported", "tape"):
            if ln != ("const", ol):
                problems.append("payload length %s, manual says %d" % (ln, ol))
        elif isinstance(ol, int):
            if ln != ("const", ol):
                problems.append("payload length %s, manual says %d" % (ln, ol))
        else:
            if o["dtype"] == "Str":
                if not ln or ln[0] != "closure" or not strlen_closure_ok(ctx.F, ln[1]):
                    problems.append("string length must be len + len %% 2 (even padded), is %s" % (ln,))
            elif o["dtype"] == "I32":
                if ln != ("mul", 4):
                    problems.append("XY length must be 4 x number of coordinates, is %s" % (ln,))
            elif v == "LibSecur":
                pass
            else:
                problems.append("variable length %s not recognised" % (ln,))
        if ln and ln[0] == "const" and ln[1] % 2 != 0:
            problems.append("odd constant length %d" % ln[1])
        if problems:
            ctx.violation(rid, key, "; ".join(problems), g.site(g.hdr_fn), key)
        else:
            ctx.ok(rid, key, "%s %s %s" % (row["rtype"], row["dtype"], ln))
    ctx.floor(rid, "header_rows", n, 45)


def rule_writer_content(ctx, g, rid):
    """R02.3 / R02.7 / R02.8(b): payload primitives per variant: kind matches data type, big-endian, reals via encode,
    byte count equals the header length, fields in declaration (= manual) order"""
    ctx.rule(rid, "payload bytes per GdsRecord variant: primitive matches the data type, big-endian, reals through GdsFloat64::encode, byte count equals header length, payload fields in the manual's order")
    if g.cnt_fn is None:
        ctx.error(rid, "content writer not found")
        return
    tab = g.cnt
    n = 0
    for v in g.rec_variants:
        o = REC_BY_VARIANT.get(v)
        if o is None:
            continue
        key = "GdsRecord::%s" % v
        paths = tab.get(v)
        if paths is None:
            ctx.violation(rid, key + "/nocontent", "no content path for %s" % v, g.site(g.cnt_fn))
            continue
        n += 1
        problems = []
        dt = o["dtype"]
        want = WRITE_OF_DTYPE[dt]
        adtv = [x for x in ctx.F.adts[gc.REC]["variants"] if x["name"] == v][0]
        fnames = [fl["name"] for fl in adtv["fields"]]
        hl = g.hdr.get(v, {}).get("len")
        for evs in paths:
            prims = [e[0] for e in evs]
            if want is None:
                if prims:
                    problems.append("no-data record writes %s" % prims)
                continue
            for e in evs:
                if e[0] != want:
                    problems.append("writes %s, data type %s needs %s" % (e[0], dt, want))
                if PRIM_SIZE.get(e[0], 1) > 1 and "byteorder::BigEndian" not in " ".join(e[1]):
                    problems.append("%s is not big-endian (%s)" % (e[0], e[1]))
                if dt == "F64" and not e[3]:
                    problems.append("real written without GdsFloat64::encode")
                if dt != "F64" and e[3]:
                    problems.append("non-real passed through GdsFloat64::encode")
        # fixed-size records: byte count and field order on the (single) straight path
        fixed = [evs for evs in paths if not any(e[4] for e in evs)]
        looped = [evs for evs in paths if any(e[4] for e in evs)]
        if want is not None and hl and hl[0] == "const" and dt != "Str":
            if looped:
                # array payload: one write per element of a fixed-size array field
                arr = g.rec_field_type(v, fnames[0]) if fnames else None
                cnt = arr.get("len") if arr and arr.get("k") == "array" else None
                sz = PRIM_SIZE[want]
                if cnt is None or cnt * sz != hl[1]:
                    problems.append("array payload of %s elements x %d bytes does not equal header length %d" % (cnt, sz, hl[1]))
                # every loop event writes the (element of the) payload field
                for evs in looped:
                    for e in evs:
                        if e[4] and (not e[2] or e[2][-1].strip("[]*0123456789") not in ("",) and e[2][-1] not in fnames and (len(e[2]) < 1 or e[2][0] != "as:" + v)):
                            problems.append("loop writes %s" % (e[2],))
            else:
                for evs in fixed:
                    total = sum(PRIM_SIZE[e[0]] for e in evs)
                    if total != hl[1]:
                        problems.append("writes %d payload bytes, header says %d" % (total, hl[1]))
                    order = [e[2][-1] if e[2] else None for e in evs]
                    if order != fnames:
                        problems.append("payload fields written in order %s, record declares %s" % (order, fnames))
        elif dt == "Str":
            # bytes of the string in a loop + one conditional pad byte (constant 0)
            shapes = set()
            for evs in paths:
                shapes.add(tuple(("b" if e[4] else "pad") for e in evs))
                for e in evs:
                    if not e[4]:
                        val = e[6]
                        if not (val[0] == "const" and val[2] == 0):
                            problems.append("pad byte is not the constant 0")
                    elif not e[2] or e[2][0] != "as:" + v:
                        problems.append("string bytes come from %s" % (e[2],))
            if ("pad",) not in shapes and ("b", "pad") not in shapes:
                problems.append("odd-length strings are not padded")
            if () not in shapes and ("b",) not in shapes:
                problems.append("even-length strings are always padded")
            if any(s.count("pad") > 1 for s in shapes):
                problems.append("more than one pad byte")
        elif hl and hl[0] == "mul":
            for evs in looped:
                for e in evs:
                    if e[4] and PRIM_SIZE[e[0]] != hl[1]:
                        problems.append("element size %d but header counts %d per element" % (PRIM_SIZE[e[0]], hl[1]))
            if not looped:
                problems.append("vector payload never written")
        if problems:
            ctx.violation(rid, key, "; ".join(sorted(set(problems))), g.site(g.cnt_fn), key)
        else:
            ctx.ok(rid, key, "%s via %s" % (dt, want))
    ctx.floor(rid, "content_rows", n, 45)


def rule_endianness(ctx, g, rid, module_prefix, what):
    """every byteorder call in the module is instantiated with BigEndian"""
    ctx.rule(rid, "every multi-byte byteorder primitive in %s is instantiated with BigEndian" % what)
    n = 0
    for f in ctx.F.fns.values():
        if not f.id.startswith(module_prefix):
            continue
        b = Body(f)
        for bi, t in b.calls():
            nme = callee_name(t) or ""
            m = re.search(r"byteorder::(ReadBytesExt|WriteBytesExt|ByteOrder)::(\w+)$", nme)
            if not m:
                continue
            prim = m.group(2)
            if prim in ("read_u8", "write_u8", "read_i8", "write_i8"):
                continue
            n += 1
            c = op_const(t["f"])
            ga = " ".join(c.get("rargs") or c.get("gargs") or [])
            if "byteorder::BigEndian" not in ga:
                ctx.violation(rid, "%s/%s" % (f.short, prim), "%s in %s is not big-endian (%s)" % (prim, f.short, ga), b.site(bi))
            else:
                ctx.ok(rid, "%s/%s" % (f.short, prim), "BigEndian")
    ctx.floor(rid, "byteorder_sites_" + what, n, 3)


def bit_of_term(t):
    """evaluate a pure bit expression term over boolean fields: returns {field name: mask} or None"""
    # t is built from casts of fields, Shl by const, BitOr
    def ev(x, env):
        if x[0] == "const":
            return x[2]
        if x[0] == "op":
            if x[1].startswith("cast:"):
                return ev(x[2][0], env)
            if x[1] in ("Shl", "ShlUnchecked"):
                a, b = ev(x[2][0], env), ev(x[2][1], env)
                return None if a is None or b is None else (a << b) & 0xFF
            if x[1] == "BitOr":
                a, b = ev(x[2][0], env), ev(x[2][1], env)
                return None if a is None or b is None else a | b
            if x[1] == "BitAnd":
                a, b = ev(x[2][0], env), ev(x[2][1], env)
                return None if a is None or b is None else a & b
            if x[1] in ("Ne", "Eq"):
                a, b = ev(x[2][0], env), ev(x[2][1], env)
                if a is None or b is None:
                    return None
                return int((a != b) if x[1] == "Ne" else (a == b))
            return None
        root, chain = field_chain(x)
        if chain and root[0] in ("param", "local") and chain[-1] in env:
            return env[chain[-1]]
        if x[0] == "f" and x[2] == "0" and x[1][0] == "op":
            return ev(x[1], env)
        return None
    return ev


def rule_strans_bits_writer(ctx, g, rid):
    ctx.rule(rid, "STRANS flag bits: reflected = byte0 0x80, abs_mag = byte1 0x04, abs_angle = byte1 0x02 (evaluated over all 8 flag combinations)")
    F = ctx.F
    fns = [f for f in F.fns.values() if f.id.startswith("gds21::write::Encode::") and any(
        st["k"] == "assign" and st["rv"]["k"] == "agg" and st["rv"].get("id") == gc.REC and st["rv"].get("variant") == "Strans"
        for blk in f.body["blocks"] for st in blk["st"])]
    if not fns:
        ctx.error(rid, "no encoder constructs GdsRecord::Strans")
        return
    for f in fns:
        w = Walker(f)
        terms = []

        def on_stmt(path, bb, st, val):
            if val[0] == "agg" and val[1] == gc.REC + "::Strans":
                terms.append(val)
        w.run(on_stmt=on_stmt)
        if not terms:
            ctx.error(rid, "Strans aggregate not reached")
            continue
        t = terms[0]
        ev = bit_of_term(t)
        names = list(ORACLE["strans_bits"].keys())
        ok = True
        detail = []
        for combo in range(8):
            env = {nm: (combo >> i) & 1 for i, nm in enumerate(names)}
            b0 = ev(t[2][0], env)
            b1 = ev(t[2][1], env)
            if b0 is None or b1 is None:
                ctx.violation(rid, f.short + "/strans-eval", "STRANS flag expression is not a pure bit expression over the three flags (cannot be evaluated statically)", g.site(f))
                ok = False
                break
            want = [0, 0]
            for nm in names:
                byte, mask = ORACLE["strans_bits"][nm]
                if env[nm]:
                    want[byte] |= mask
            if [b0, b1] != want:
                ok = False
                detail.append("%s -> %02X %02X, manual %02X %02X" % (env, b0, b1, want[0], want[1]))
        if ok:
            ctx.ok(rid, f.short + "/strans-bits", "8/8 flag combinations")
        elif detail:
            ctx.violation(rid, f.short + "/strans-bits", "STRANS bits differ from the manual: " + "; ".join(detail[:3]), g.site(f))


def rule_strans_bits_reader(ctx, g, rid):
    ctx.rule(rid, "STRANS flag decoding: reflected <- byte0 & 0x80, abs_mag <- byte1 & 0x04, abs_angle <- byte1 & 0x02")
    F = ctx.F
    fns = [f for f in F.fns.values() if f.id.startswith("gds21::read::") and any(
        st["k"] == "assign" and st["rv"]["k"] == "agg" and st["rv"].get("id") == "gds21::data::GdsStrans"
        for blk in f.body["blocks"] for st in blk["st"])]
    if not fns:
        ctx.error(rid, "no reader function constructs GdsStrans")
        return
    for f in fns:
        w = Walker(f, max_visits=1)
        terms = []

        def on_stmt(path, bb, st, val):
            if val[0] == "agg" and val[1] == "gds21::data::GdsStrans::GdsStrans":
                terms.append(val)
        w.run(on_stmt=on_stmt)
        if not terms:
            ctx.error(rid, "GdsStrans aggregate not reached")
            continue
        t = terms[0]
        adt = F.adts["gds21::data::GdsStrans"]["variants"][0]["fields"]
        fnames = [x["name"] for x in adt]
        # the two flag bytes are the function's two u8 parameters, in order (a method has self first, a free helper does not)
        bytes_p = [i + 1 for i, ty in enumerate(f.inputs) if ty.get("s") == "u8"]
        if len(bytes_p) != 2:
            ctx.note(rid, "%s builds GdsStrans from something other than two flag bytes %s: bit positions not decided here" % (f.short, [ty.get("s") for ty in f.inputs]))
            continue
        for nm, (byte, mask) in ORACLE["strans_bits"].items():
            i = fnames.index(nm)
            term = t[2][i]
            # evaluate on values: every value of the manual's byte that matters, against several fillings of the other byte
            good = True
            for val in (0, mask, 0xFF, 0xFF ^ mask, 1, 0x80, 0x04, 0x02, 0x06, 0x7F):
                for other in (0, 0xFF, 0x80, 0x04, 0x02, 0x79):
                    got = eval_param_expr(term, {bytes_p[byte]: val, bytes_p[1 - byte]: other})
                    if got is None or got != int(bool(val & mask)):
                        good = False
            if good:
                ctx.ok(rid, "%s/%s" % (f.short, nm), "byte%d & 0x%02X" % (byte, mask))
            else:
                ctx.violation(rid, "%s/%s" % (f.short, nm), "GdsStrans.%s is not decoded as byte%d & 0x%02X != 0" % (nm, byte, mask), g.site(f))


def _width(cs):
    m = re.search(r"_([ui])(8|16|32|64|128|size)$", cs or "")
    if not m:
        return None
    return 64 if m.group(2) == "size" else int(m.group(2))


def eval_param_expr(x, env):
    """value of a walker term over the byte parameters in env (unsigned arithmetic; None = not evaluable)"""
    if x[0] == "const":
        return x[2]
    if x[0] == "param":
        return env.get(x[1])
    if x[0] == "call":
        n = x[1]
        if re.search(r"::from_(be|le)_bytes$", n) and x[2] and x[2][0][0] == "agg" and x[2][0][1] == "array":
            vals = [eval_param_expr(a, env) for a in x[2][0][2]]
            if any(v is None for v in vals):
                return None
            if n.endswith("from_le_bytes"):
                vals = vals[::-1]
            r = 0
            for v in vals:
                r = (r << 8) | (v & 0xFF)
            return r
        if re.search(r"::(from|into)$", n) and x[2]:
            return eval_param_expr(x[2][0], env)
        return None
    if x[0] == "op":
        if x[1].startswith("cast:"):
            v = eval_param_expr(x[2][0], env)
            w = _width("_" + x[1].split(":", 1)[1])
            return v if v is None or w is None else v & ((1 << w) - 1)
        vals = [eval_param_expr(a, env) for a in x[2]]
        if any(v is None for v in vals):
            return None
        if x[1] == "BitAnd":
            return vals[0] & vals[1]
        if x[1] == "BitOr":
            return vals[0] | vals[1]
        if x[1] == "BitXor":
            return vals[0] ^ vals[1]
        if x[1] == "Ne":
            return int(vals[0] != vals[1])
        if x[1] == "Eq":
            return int(vals[0] == vals[1])
        if x[1] == "Shr":
            return vals[0] >> vals[1]
        if x[1] == "Shl":
            # width of the left operand when it is a typed constant; bytes otherwise
            w = _width(x[2][0][1]) if x[2][0][0] == "const" else None
            return (vals[0] << vals[1]) & ((1 << (w or 64)) - 1) if (w or x[2][0][0] != "param") else (vals[0] << vals[1]) & 0xFF
        if x[1] == "Gt":
            return int(vals[0] > vals[1])
        if x[1] == "Ge":
            return int(vals[0] >= vals[1])
        if x[1] == "Lt":
            return int(vals[0] < vals[1])
        if x[1] == "Not":
            return int(not vals[0])
    return None


def rule_dates_writer(ctx, g, rid):
    ctx.rule(rid, "date fields are written year, month, day, hour, minute, second; modification time first, access time second")
    F = ctx.F
    fl = flow.Flow(F)
    n = 0
    for f in F.fns.values():
        if not f.id.startswith("gds21::write::Encode::"):
            continue
        ins = [i["s"] for i in f.inputs]
        if any(s.endswith("data::GdsDateTime") for s in ins) and any("[i16]" in s for s in ins):
            # encode_datetime(&self, dt, dest): dest[k] <- dt.field_k
            n += 1
            w = Walker(f)
            arrs = []

            def on_stmt(path, bb, st, val):
                if val[0] == "agg" and val[1] == "array" and len(val[2]) == 6:
                    arrs.append(val)
            w.run(on_stmt=on_stmt)
            order = []
            if arrs:
                for o in arrs[0][2]:
                    root, chain = field_chain(o)
                    order.append(chain[-1] if chain else None)
            if order == ORACLE["date_order"]:
                ctx.ok(rid, f.short, "order %s" % order)
            else:
                ctx.violation(rid, f.short, "date fields written in order %s, manual says %s" % (order, ORACLE["date_order"]), g.site(f))
        if any(s.endswith("data::GdsDateTimes") for s in ins):
            n += 1
            # encode_datetimes: slice [0..6] <- modified, [6..12] <- accessed
            b = Body(f)
            w = Walker(f)
            calls = []

            def on_call(path, bb, t, name, args):
                if name and re.search(r"encode_datetime$", name):
                    calls.append(args)
                return None
            w.run(on_call=on_call)
            got = []
            for args in calls:
                root, chain = field_chain(args[1])
                # the destination slice: index_mut(rv, Range{a, b})
                idx = gc.find_terms(args[2], lambda x: x[0] == "call" and x[1] and re.search(r"::index_mut$|::index$", x[1]))
                lo = None
                if idx and len(idx[0][2]) > 1:
                    rng = idx[0][2][1]
                    if rng[0] == "agg" and rng[2] and rng[2][0][0] == "const":
                        lo = rng[2][0][2]
                got.append((chain[-1] if chain else None, lo))
            want = [("modified", 0), ("accessed", 6)]
            if sorted(got, key=lambda x: (x[1] is None, x[1])) == want:
                ctx.ok(rid, f.short, str(got))
            else:
                ctx.violation(rid, f.short, "modification/access times are written at %s, manual says %s" % (got, want), g.site(f))
    ctx.floor(rid, "date_encoders", n, 2)


GRAMMAR_RE = {k: re.compile("^" + v.strip() + " ?$") for k, v in ORACLE["grammar"].items()}


def rule_encoder_grammar(ctx, g, rid):
    """R02.4: every bounded path of every encoder emits a record sequence that the manual's production derives"""
    ctx.rule(rid, "every path (loops 0/1 iterations, every subset of optional fields) of every encoder emits records in the order of the manual's production")
    F = ctx.F
    seen_prod = set()
    emitted = set()
    nonterm = {}
    encs = [f for f in F.fns.values() if f.id.startswith("gds21::write::Encode::encode_") and f.impl is None]
    npaths = 0
    raw = {}
    for f in encs:
        raw[f.short.split("::")[-1]] = gc.encoder_paths(F, f)
    # fragments: helpers that other encoders call and whose first record begins no production of the manual
    # (a property list, an element head ...).  Their record sequences are spliced into their callers.
    NT_NAMES = {"encode_struct", "encode_element", "encode_strans", "encode_lib"}

    def firsts_of(nm):
        return {p[0][1] for p in raw[nm][0] if p and p[0][0] == "rec"}
    called = {e[1] for nm in raw for p in raw[nm][0] for e in p if e[0] == "call"}
    fragments = {nm for nm in raw if nm in called and nm not in NT_NAMES and firsts_of(nm) and not (firsts_of(nm) & set(GRAMMAR_RE))}

    def expand(nm, depth=0):
        out = []
        for p in raw[nm][0]:
            alts = [[]]
            for e in p:
                if e[0] == "call" and e[1] in fragments and depth < 3:
                    sub = expand(e[1], depth + 1)
                    alts = [a + sb for a in alts for sb in sub][:4000]
                else:
                    for a in alts:
                        a.append(e)
            out += alts
        # dedupe
        seen_, res = set(), []
        for a in out:
            k = tuple((e[0], e[1]) for e in a)
            if k not in seen_:
                seen_.add(k)
                res.append(a)
        return res
    for f in encs:
        nm0 = f.short.split("::")[-1]
        if nm0 in fragments:
            ctx.ok(rid, f.short + "/fragment", "helper spliced into its callers")
            continue
        ps, trunc = expand(nm0), raw[nm0][1]
        firsts = {p[0][1] for p in ps if p and p[0][0] == "rec"}
        if not firsts:
            # pure dispatcher (encode_element): every path is one call
            continue
        if len(firsts) != 1:
            ctx.violation(rid, f.short + "/first", "%s starts with different records on different paths: %s" % (f.short, sorted(firsts)), g.site(f))
            continue
        first = list(firsts)[0]
        prod = GRAMMAR_RE.get(first)
        if prod is None:
            ctx.violation(rid, f.short + "/prod", "%s starts with %s which begins no production" % (f.short, first), g.site(f))
            continue
        seen_prod.add(first)
        nonterm[f.short.split("::")[-1]] = first
        if trunc:
            ctx.error(rid, "%s: path enumeration truncated" % f.short)
        bad = None
        for p in ps:
            npaths += 1
            toks = []
            for e in p:
                if e[0] == "rec":
                    toks.append(e[1])
                    emitted.add(e[1])
                else:
                    toks.append({"encode_struct": "<struct>", "encode_element": "<element>", "encode_strans": "<strans>"}.get(e[1], "<%s>" % e[1]))
            s = " ".join(toks) + " "
            if not prod.match(s):
                bad = s
                break
        if bad:
            ctx.violation(rid, f.short, "%s can emit `%s` which the production %s := %s does not derive" % (f.short, bad.strip(), first, ORACLE["grammar"][first]), g.site(f), f.short)
        else:
            ctx.ok(rid, f.short, "%d paths ⊆ %s" % (len(ps), ORACLE["grammar"][first]))
    missing = set(GRAMMAR_RE) - seen_prod
    for m in sorted(missing):
        ctx.violation(rid, "production/" + m, "no encoder implements the production starting with %s" % m, None)
    ctx.floor(rid, "encoder_paths", npaths, 30)
    # element dispatcher: every GdsElement variant reaches its own encoder
    for f in encs:
        b = Body(f)
        sws = od.enum_switches(F, b, "gds21::data::GdsElement")
        if not sws:
            continue
        bi, arms, other, eid = sws[0]
        want = {"GdsBoundary": "Boundary", "GdsPath": "Path", "GdsStructRef": "StructRef", "GdsArrayRef": "ArrayRef", "GdsTextElem": "Text", "GdsNode": "Node", "GdsBox": "Box"}
        for v, first in want.items():
            tgt = arms.get(v)
            callee = None
            if tgt is not None:
                for x in od.region(b, tgt):
                    t = b.term(x)
                    if t["k"] == "call":
                        m = re.search(r"Encode::(encode_\w+)$", callee_name(t) or "")
                        if m:
                            callee = m.group(1)
            if callee and nonterm.get(callee) == first:
                ctx.ok(rid, "dispatch/%s" % v, callee)
            else:
                ctx.violation(rid, "dispatch/%s" % v, "GdsElement::%s is encoded by %s, which emits a %s element" % (v, callee, nonterm.get(callee)), g.site(f))
    return emitted


def rule_decode_table(ctx, g, rid):
    """R03.1: reader decode table equals the manual's for every non-obsolete record"""
    ctx.rule(rid, "reader decode table: (record number, data type, length) pattern -> GdsRecord variant equals the manual's; variable-length kinds accept any length")
    F = ctx.F
    if g.dec_fn is None:
        ctx.error(rid, "record decoder not found")
        return
    leaves = g.dec
    if g.dec_truncated:
        ctx.error(rid, "decoder path enumeration truncated")
    rt = {v: k for k, v in gc.enum_table(F, gc.RTYPE).items()}
    dt = {v: k for k, v in gc.enum_table(F, gc.DTYPE).items()}
    byvar = {}
    for l in leaves:
        byvar.setdefault(l["variant"], []).append(l)
    n = 0
    for o in ORACLE["records"]:
        if o["status"] == "obsolete":
            if o["variant"] in byvar:
                ctx.violation(rid, "decode/%s" % o["variant"], "obsolete record %s is decoded" % o["mnemonic"], g.site(g.dec_fn))
            continue
        v = o["variant"]
        ls = byvar.get(v, [])
        key = "decode/%s" % v
        if not ls:
            ctx.violation(rid, key, "record %s is never decoded to GdsRecord::%s" % (o["mnemonic"], v), g.site(g.dec_fn))
            continue
        n += 1
        problems = []
        for l in ls:
            c = l["cons"]
            if rt.get(c.get("rtype")) != v:
                problems.append("built from record type %s" % rt.get(c.get("rtype")))
            if dt.get(c.get("dtype")) != o["dtype"]:
                problems.append("accepted with data type %s, manual says %s" % (dt.get(c.get("dtype")), o["dtype"]))
            if isinstance(o["len"], int):
                if c.get("len") != o["len"]:
                    problems.append("accepted with length %s, manual says %d" % (c.get("len", "any"), o["len"]))
            elif v != "LibSecur":
                if "len" in c:
                    problems.append("variable-length record only accepted with length %s" % c["len"])
            want = READ_OF_DTYPE[o["dtype"]]
            reads = [r[0] for r in l["reads"]]
            if want is None:
                if reads:
                    problems.append("no-data record reads %s" % reads)
            else:
                if reads != [want]:
                    problems.append("payload read with %s, data type %s needs [%s]" % (reads, o["dtype"], want))
                for r in l["reads"]:
                    lk = r[1]
                    if lk[0] == "const" and isinstance(o["len"], int) and lk[1] != o["len"]:
                        problems.append("reads %d bytes of a %d-byte payload" % (lk[1], o["len"]))
                    if lk[0] == "hdr" and lk[1] != "len":
                        problems.append("read length comes from header field %s" % lk[1])
            # payload positions: field i of the record <- element i of the read
            fields = l["fields"]
            multi = [fl for fl in fields if fl[1] is not None]
            if len(fields) > 1 or (fields and fields[0][1] is not None):
                for i, fl in enumerate(fields):
                    if fl[1] != i:
                        problems.append("payload field %s is taken from element %s, manual order says %d" % (fl[0], fl[1], i))
        if problems:
            ctx.violation(rid, key, "; ".join(sorted(set(problems))), g.site(g.dec_fn), key)
        else:
            ctx.ok(rid, key, "%s/%s/%s" % (o["num"], o["dtype"], o["len"]))
    for v in byvar:
        if v not in REC_BY_VARIANT:
            ctx.violation(rid, "decode/%s/extra" % v, "decoder builds unknown record %s" % v, g.site(g.dec_fn))
    ctx.floor(rid, "decode_rows", n, 45)


def rule_codec_agreement(ctx, g, rid):
    """R01.1: writer's header/content tables and reader's decode table agree with each other, variant by variant"""
    ctx.rule(rid, "writer and reader agree per GdsRecord variant on (record type, data type, length), on the payload primitive and on the position of every payload field")
    F = ctx.F
    rt = {v: k for k, v in gc.enum_table(F, gc.RTYPE).items()}
    dt = {v: k for k, v in gc.enum_table(F, gc.DTYPE).items()}
    byvar = {}
    for l in g.dec:
        byvar.setdefault(l["variant"], []).append(l)
    n = 0
    for v in g.rec_variants:
        key = "GdsRecord::%s" % v
        h = g.hdr.get(v)
        ls = byvar.get(v)
        if h is None or not ls:
            ctx.violation(rid, key + "/missing", "variant %s lacks a %s" % (v, "writer header" if h is None else "reader pattern"), g.site(g.dec_fn))
            continue
        n += 1
        problems = []
        for l in ls:
            c = l["cons"]
            if rt.get(c.get("rtype")) != h["rtype"]:
                problems.append("written as record %s, read from record %s" % (h["rtype"], rt.get(c.get("rtype"))))
            if dt.get(c.get("dtype")) != h["dtype"]:
                problems.append("written with data type %s, read with %s" % (h["dtype"], dt.get(c.get("dtype"))))
            hl = h["len"]
            if hl and hl[0] == "const":
                if "len" in c and c.get("len") != hl[1]:
                    problems.append("written with length %d, accepted only with length %s" % (hl[1], c.get("len")))
            else:
                if "len" in c:
                    problems.append("written with a variable length, accepted only with length %s" % c["len"])
            # payload primitive pairing
            wp = set()
            for evs in g.cnt.get(v, []):
                for e in evs:
                    wp.add((e[0], e[3]))
            reads = [r[0] for r in l["reads"]]
            pair = {"write_i16": "read_i16", "write_i32": "read_i32", "write_u64": "read_f64"}
            for (prim, enc) in wp:
                if prim == "write_u8":
                    if reads not in (["read_bytes"], ["read_str"]):
                        problems.append("bytes written, read with %s" % reads)
                elif pair.get(prim) not in reads:
                    problems.append("%s written, read with %s" % (prim, reads))
                if prim == "write_u64" and not enc:
                    problems.append("real written raw but read through decode")
            if not wp and reads:
                problems.append("nothing written but %s read" % reads)
            # field positions: writer order index == reader element index
            fixed = [evs for evs in g.cnt.get(v, []) if evs and not any(e[4] for e in evs)]
            for evs in fixed:
                worder = [e[2][-1] if e[2] else None for e in evs]
                rorder = {fl[0]: fl[1] for fl in l["fields"]}
                if len(worder) > 1:
                    for i, fn_ in enumerate(worder):
                        if fn_ in rorder and rorder[fn_] is not None and rorder[fn_] != i:
                            problems.append("payload field %s written at position %d but read from position %s" % (fn_, i, rorder[fn_]))
        if problems:
            ctx.violation(rid, key, "; ".join(sorted(set(problems))), g.site(g.dec_fn), key)
        else:
            ctx.ok(rid, key, "%s %s" % (h["rtype"], h["dtype"]))
    ctx.floor(rid, "codec_rows", n, 45)


# ----------------------------------------------------------------------------------------------------------
# element-level field placement: writer (records <- fields) and reader (fields <- records)
# ----------------------------------------------------------------------------------------------------------
FIELDS = ORACLE["fields"]
_flow_cache = {}


def get_flow(F):
    fl = _flow_cache.get(id(F))
    if fl is None:
        fl = _flow_cache[id(F)] = flow.Flow(F)
    return fl


_WFM = {}


def _field_map_full(F, fn, depth=0):
    """(first record, {'V.payload' | '<nonterminal>': set of (param index, field chain)}) over all paths of an encoder,
    with helper encoders (fragments such as a shared property-list or element-head writer) composed in"""
    if fn.id in _WFM:
        return _WFM[fn.id]
    _WFM[fn.id] = (None, {})
    ps, trunc = gc.encoder_paths(F, fn)
    m = {}
    first = None
    recv = {v["name"]: [fl["name"] for fl in v["fields"]] for v in F.adts[gc.REC]["variants"]}
    helpers = {f.short.split("::")[-1]: f for f in F.fns.values() if f.id.startswith("gds21::write::Encode::encode_") and f.impl is None}
    clean = lambda ch: tuple(c for c in ch if not c.startswith("["))
    for p in ps:
        if p and p[0][0] == "rec":
            first = p[0][1]
        for e in p:
            if e[0] == "rec":
                names = recv.get(e[1], [])
                for j, chains in enumerate(e[2]):
                    key = "%s.%s" % (e[1], names[j] if j < len(names) else j)
                    for (pi, ch) in chains:
                        m.setdefault(key, set()).add((pi, clean(ch)))
            else:
                nt = {"encode_struct": "<struct>", "encode_element": "<element>", "encode_strans": "<strans>"}.get(e[1])
                if nt:
                    for chains in e[2]:
                        for (pi, ch) in chains:
                            m.setdefault(nt, set()).add((pi, clean(ch)))
                elif e[1] in helpers and depth < 3 and helpers[e[1]].id != fn.id:
                    hf, hm = _field_map_full(F, helpers[e[1]], depth + 1)
                    for key, srcs in hm.items():
                        for (hp, hch) in srcs:
                            j = hp - 2
                            if 0 <= j < len(e[2]):
                                for (pi, ch) in e[2][j]:
                                    m.setdefault(key, set()).add((pi, clean(ch) + hch))
    _WFM[fn.id] = (first, m)
    return _WFM[fn.id]


def writer_field_map(F, fn):
    """{'V.payload' | '<nonterminal>': set of element field chains (tuples)} over all paths of an encoder"""
    first, full = _field_map_full(F, fn)
    m = {}
    for key, srcs in full.items():
        for (pi, ch) in srcs:
            if pi == 2:
                m.setdefault(key, set()).add(ch)
    return first, m


def encoders_by_type(F):
    out = {}
    for f in F.fns.values():
        if f.id.startswith("gds21::write::Encode::encode_") and f.impl is None and len(f.inputs) == 2:
            t = f.inputs[1]
            while t.get("k") == "ref":
                t = t["to"]
            if t.get("k") == "adt" and t["id"] in FIELDS:
                out[t["id"]] = f
    return out


def parsers_by_type(F):
    out = {}
    for f in F.fns.values():
        if f.id.startswith("gds21::read::") and f.kind != "Closure" and "GdsParser" in f.name and f.output:
            t = f.output
            # GdsResult<T>
            if t.get("k") == "adt" and t["id"].endswith("result::Result") and t["args"]:
                t = t["args"][0]
            if t.get("k") == "adt" and t["id"] in FIELDS:
                out[t["id"]] = f
    return out


def peek_field(F, fn):
    """name of the field of the parser's self type that holds the look-ahead GdsRecord"""
    st = fn.self_ty
    if not st or st.get("k") != "adt":
        return None
    adt = F.adts.get(st["id"])
    if not adt:
        return None
    for fl in adt["variants"][0]["fields"]:
        if fl["ty"].get("id") == gc.REC:
            return fl["name"]
    return None


def reader_sources(F, fn, field_path):
    """set of 'V.payload' strings that the parsed value's field may data-depend on"""
    fl = get_flow(F)
    pk = peek_field(F, fn)
    d = fl.deps(fn.id, 0, tuple(field_path))
    out = set()
    for s in d:
        if s[0] == "param" and s[1] == 1 and len(s[2]) >= 3 and s[2][0] == pk and s[2][1].startswith("as:"):
            out.add("%s.%s" % (s[2][1][3:], s[2][2]))
    return out, flow.has_unknown(d)


def split_path(p):
    return tuple(x for x in p.split(".") if x)


def rule_writer_placement(ctx, g, rid):
    ctx.rule(rid, "each record payload the encoders emit is fed from the field the manual assigns to it (e.g. TEXTTYPE <- texttype, COLROW <- cols, rows)")
    F = ctx.F
    encs = encoders_by_type(F)
    n = 0
    for tid, spec in FIELDS.items():
        f = encs.get(tid)
        tshort = tid.split("::")[-1]
        if f is None:
            ctx.violation(rid, tshort + "/encoder", "no encoder takes a %s" % tshort, None)
            continue
        first, m = writer_field_map(F, f)
        if first != spec["first"]:
            ctx.violation(rid, tshort + "/first", "encoder for %s starts with record %s, expected %s" % (tshort, first, spec["first"]), g.site(f))
        for key, want in spec["map"].items():
            n += 1
            wants = [split_path(w) for w in want.split("|")]
            got = m.get(key, set())
            inst = "%s/%s" % (tshort, key)
            if not got:
                ctx.violation(rid, inst, "%s: nothing is written into %s (expected field %s)" % (f.short, key, want), g.site(f), inst)
                continue
            ok = all(any(gp[:len(w)] == w or w[:len(gp)] == gp for gp in got) for w in wants)
            stray = [gp for gp in got if not any(gp[:len(w)] == w or w[:len(gp)] == gp for w in wants)]
            if ok and not stray:
                ctx.ok(rid, inst, "<- %s" % sorted(".".join(x) for x in got))
            else:
                ctx.violation(rid, inst, "%s: %s is fed from %s, the manual says %s" % (f.short, key, sorted(".".join(x) for x in got), want), g.site(f), inst)
        for key in m:
            if key not in spec["map"] and not key.startswith("<"):
                ctx.violation(rid, "%s/%s/extra" % (tshort, key), "%s emits %s which the production for %s does not contain" % (f.short, key, tshort), g.site(f))
    ctx.floor(rid, "writer_placements", n, 60)


def rule_reader_placement(ctx, g, rid):
    ctx.rule(rid, "each field of a parsed element data-depends on the payload of the record the manual assigns to it, and on no other record's payload")
    F = ctx.F
    prs = parsers_by_type(F)
    n = 0
    for tid, spec in FIELDS.items():
        f = prs.get(tid)
        tshort = tid.split("::")[-1]
        if f is None:
            ctx.violation(rid, tshort + "/parser", "no parser returns a %s" % tshort, None)
            continue
        # invert: field path -> expected record payloads
        want_by_field = {}
        for key, want in spec["map"].items():
            if key.startswith("<"):
                continue
            for w in want.split("|"):
                want_by_field.setdefault(split_path(w), set()).add(key)
        for fpath, keys in sorted(want_by_field.items()):
            n += 1
            inst = "%s.%s" % (tshort, ".".join(fpath))
            q = []
            for e in fpath:
                q.append(e)
                if e == "properties":
                    q.append("[*]")
            got, pf2, unk = reader_leaf_sources(F, tid, q)
            if got is None:
                got = set()
            if tid == "gds21::data::GdsStrans" and fpath[0] in ("reflected", "abs_mag", "abs_angle"):
                # flag bits come from the STRANS bytes passed as arguments; positions decided by the bit rule
                fl = get_flow(F)
                d = fl.deps(f.id, 0, tuple(q))
                ps = {s[1] for s in d if s[0] == "param" and s[1] >= 2}
                wantp = {2} if fpath[0] == "reflected" else {3}
                # the manual's byte must feed the flag; a decoder that first joins both bytes into one bit array depends on
                # both — which bit is tested is decided by the bit-level rule, evaluated on values
                if wantp <= ps <= {2, 3}:
                    ctx.ok(rid, inst, "<- STRANS byte(s) %s" % sorted(p - 2 for p in ps))
                else:
                    ctx.violation(rid, inst, "%s: %s is decoded from STRANS byte(s) %s, manual says byte %d" % (f.short, inst, sorted(p - 2 for p in ps), min(wantp) - 2), g.site(f), inst)
                continue
            if unk:
                ctx.note(rid, "%s: analysis budget exhausted (treated as may-depend)" % inst)
                continue
            missing = keys - got
            stray = got - keys
            if not missing and not stray:
                ctx.ok(rid, inst, "<- %s" % sorted(got))
            elif missing:
                ctx.violation(rid, inst, "%s: field %s never receives the payload of %s (it receives %s)" % (f.short, inst, sorted(missing), sorted(got) or "nothing"), g.site(f), inst)
            else:
                ctx.violation(rid, inst, "%s: field %s also receives the payload of %s" % (f.short, inst, sorted(stray)), g.site(f), inst)
    ctx.floor(rid, "reader_placements", n, 55)


def unwrap_ty(ty):
    """strip Option / Vec / Box / arrays / refs: returns (inner type, needs_index)"""
    idx = False
    while True:
        k = ty.get("k")
        if k == "ref":
            ty = ty["to"]
        elif k == "adt" and ty["id"].split("::")[-1] in ("Option", "Box") and ty.get("args"):
            ty = ty["args"][0]
        elif k == "adt" and ty["id"].split("::")[-1] == "Vec" and ty.get("args"):
            ty = ty["args"][0]
            idx = True
        elif k in ("array", "slice"):
            ty = ty["to"]
            idx = True
        else:
            return ty, idx


def leaves_of(F, tid, skip_types=(), depth=0):
    """[(field chain, query path)] of primitive / string / foreign leaves below struct tid (workspace structs expanded)"""
    out = []
    adt = F.adts.get(tid)
    if adt is None or adt["kind"] != "struct" or depth > 4:
        return [((), ())]
    for fld in adt["variants"][0]["fields"]:
        inner, idx = unwrap_ty(fld["ty"])
        if "Unsupported" in fld["ty"]["s"]:
            continue
        q = (fld["name"],) + (("[*]",) if idx else ())
        if inner.get("k") == "adt" and inner["id"] in F.adts and F.adts[inner["id"]]["kind"] == "struct" and inner["id"].startswith("gds21::"):
            if inner["id"] in skip_types:
                continue
            for ch, qq in leaves_of(F, inner["id"], skip_types, depth + 1):
                out.append(((fld["name"],) + ch, q + qq))
        elif inner.get("k") == "adt" and inner["id"] in F.adts and F.adts[inner["id"]]["kind"] == "enum" and inner["id"].startswith("gds21::") and any(v["fields"] for v in F.adts[inner["id"]]["variants"]):
            continue  # element containers: their payload types have their own rows
        else:
            out.append(((fld["name"],), q))
    return out


def find_type_path(F, root_ty, target, depth=0):
    """query path from a value of type root_ty to a contained value of struct type `target`"""
    inner, idx = unwrap_ty(root_ty)
    pre = ("[*]",) if idx else ()
    if inner.get("k") != "adt":
        return None
    if inner["id"] == target:
        return pre
    adt = F.adts.get(inner["id"])
    if adt is None or depth > 3 or not inner["id"].startswith("gds21::"):
        return None
    if adt["kind"] == "struct":
        for fld in adt["variants"][0]["fields"]:
            r = find_type_path(F, fld["ty"], target, depth + 1)
            if r is not None:
                return pre + (fld["name"],) + r
    return None


def reader_leaf_sources(F, tid, qpath):
    """record payloads that feed leaf qpath of parsed type tid; evaluated one level up when the parser receives payload
    through extra parameters (parse_strans(d0, d1), parse_struct(dates))"""
    prs = parsers_by_type(F)
    f = prs.get(tid)
    if f is None:
        return None, None, False
    if len(f.inputs) > 1:
        # find a caller among the parsers and the path at which tid sits in its result
        for cid, c in prs.items():
            b = Body(c)
            if any(callee_id(t) == f.id for bi, t in b.calls()):
                out_ty = c.output["args"][0] if c.output.get("args") else c.output
                pre = find_type_path(F, out_ty, tid)
                if pre is not None:
                    got, unk = reader_sources(F, c, pre + tuple(qpath))
                    return got, c, unk
        return None, f, False
    got, unk = reader_sources(F, f, qpath)
    return got, f, unk


def writer_leaf_keys(F, tid, chain, encs, cache):
    """record payload keys the encoder of tid fills from the leaf at field chain"""
    if tid not in cache:
        f = encs.get(tid)
        cache[tid] = writer_field_map(F, f)[1] if f is not None else None
    m = cache[tid]
    if m is None:
        return None
    keys = set()
    for k, chains in m.items():
        for ch in chains:
            n = min(len(ch), len(chain))
            if n and ch[:n] == chain[:n] or (not ch):
                if k.startswith("<"):
                    # nested construct: descend with the rest of the chain
                    fld = chain[0]
                    adt = F.adts[tid]["variants"][0]["fields"]
                    fty = [x for x in adt if x["name"] == fld]
                    if fty:
                        inner, _ = unwrap_ty(fty[0]["ty"])
                        if inner.get("k") == "adt" and inner["id"] in FIELDS:
                            sub = writer_leaf_keys(F, inner["id"], chain[len(ch):], encs, cache)
                            if sub:
                                keys |= sub
                elif ch:
                    keys.add(k)
    return keys


def rule_field_diagonal(ctx, g, rid):
    """R01.2: compose writer and reader: every non-Unsupported leaf field of every element type is written into some
    record payload and rebuilt from exactly that payload"""
    ctx.rule(rid, "write-then-read is the identity on fields: each leaf field is written into a record payload that the parser for the same type feeds back into the same field, and into no other")
    F = ctx.F
    encs = encoders_by_type(F)
    cache = {}
    n = 0
    for tid in FIELDS:
        tshort = tid.split("::")[-1]
        if tid not in encs:
            ctx.violation(rid, tshort + "/pair", "%s lacks an encoder" % tshort, None)
            continue
        for chain, q in leaves_of(F, tid):
            n += 1
            inst = "%s.%s" % (tshort, ".".join(chain))
            wkeys = writer_leaf_keys(F, tid, chain, encs, cache)
            if not wkeys:
                ctx.violation(rid, inst, "field %s is never written by %s" % (inst, encs[tid].short), g.site(encs[tid]), inst)
                continue
            got, pf, unk = reader_leaf_sources(F, tid, q)
            if got is None:
                ctx.violation(rid, inst + "/parser", "no parser rebuilds %s" % inst, None)
                continue
            if unk:
                ctx.note(rid, "%s: analysis budget exhausted" % inst)
                continue
            same_record = {k.split(".")[0] for k in wkeys}
            if wkeys <= got and chain[-1] in ORACLE["strans_bits"] and all(k.split(".")[0] in same_record for k in got - wkeys):
                # packed flag word: dependence on the neighbouring byte of the same record is a bit-level question (bit rules)
                ctx.ok(rid, inst, "-> %s -> (bit positions decided by the STRANS bit rules)" % sorted(wkeys))
            elif wkeys <= got and not (got - wkeys):
                ctx.ok(rid, inst, "-> %s ->" % sorted(wkeys))
            elif not (wkeys <= got):
                ctx.violation(rid, inst, "field %s is written into %s but rebuilt from %s" % (inst, sorted(wkeys), sorted(got) or "nothing"), g.site(pf), inst)
            else:
                ctx.violation(rid, inst, "field %s is written into %s but the parser also feeds it from %s" % (inst, sorted(wkeys), sorted(got - wkeys)), g.site(pf), inst)
    ctx.floor(rid, "diagonal_fields", n, 60)


def rule_parser_acceptance(ctx, g, rid):
    """R03.2: every record the production of an element allows is accepted (parsing continues) by that element's parser,
    the terminator ends it, and nothing else is accepted"""
    ctx.rule(rid, "each element parser accepts exactly the records of its production in any order (ENDEL ends it), struct and library parsers likewise; look-ahead parsers (STRANS [MAG] [ANGLE], PROPATTR PROPVALUE) accept their followers")
    F = ctx.F
    prs = parsers_by_type(F)
    n = 0
    er = ORACLE["element_records"]
    spec = {}
    for tid, sp in FIELDS.items():
        first = sp["first"]
        if first in er:
            spec[tid] = (set(er[first]["required"]) | set(er[first]["optional"]), "EndElement")
    spec["gds21::data::GdsStruct"] = ({"Boundary", "Path", "StructRef", "ArrayRef", "Text", "Node", "Box"}, "EndStruct")
    spec["gds21::data::GdsLibrary"] = ({"LibName", "Units", "BgnStruct"}, "EndLib")
    for tid, (allowed, term) in spec.items():
        f = prs.get(tid)
        tshort = tid.split("::")[-1]
        if f is None:
            ctx.violation(rid, tshort + "/parser", "no parser for %s" % tshort, None)
            continue
        r = gc.parser_arms(F, f)
        cls = r["cls"]
        if not cls:
            ctx.error(rid, "%s: no record match found" % f.short)
            continue
        for v in sorted(allowed):
            n += 1
            if cls.get(v) == "loop":
                ctx.ok(rid, "%s/%s" % (tshort, v), "accepted")
            else:
                ctx.violation(rid, "%s/%s" % (tshort, v), "%s: a conformant %s may contain %s but the parser %s it" % (f.short, tshort, v, {"reject": "rejects", "exit": "stops at"}.get(cls.get(v), "does not handle")), g.site(f))
        n += 1
        if cls.get(term) == "exit":
            ctx.ok(rid, "%s/%s" % (tshort, term), "terminates")
        else:
            ctx.violation(rid, "%s/%s" % (tshort, term), "%s: %s does not end the construct (class %s)" % (f.short, term, cls.get(term)), g.site(f))
        extra = [v for v, c in cls.items() if c != "reject" and v not in allowed and v != term]
        if extra:
            ctx.violation(rid, "%s/extra" % tshort, "%s accepts records outside its production: %s" % (f.short, sorted(extra)), g.site(f))
        else:
            ctx.ok(rid, "%s/extra" % tshort, "nothing else accepted")
        # sticky ENDLIB must leave every loop (also C10 progress)
        if term != "EndLib" and cls.get("EndLib") != "reject":
            ctx.violation(rid, "%s/EndLib" % tshort, "%s does not reject ENDLIB inside a %s" % (f.short, tshort), g.site(f))
    ctx.floor(rid, "acceptance_rows", n, 60)


def rule_stop_at_endlib(ctx, g, rid):
    ctx.rule(rid, "once the buffered record is ENDLIB the record source returns it without decoding further bytes (trailing padding is ignored)")
    F = ctx.F
    cands = [f for f in F.fns.values() if f.id.startswith("gds21::read::") and "GdsParser" in f.name and f.short.endswith("::next")]
    if not cands:
        ctx.error(rid, "GdsParser::next not found")
        return
    f = cands[0]
    b = Body(f)
    # find the comparison with EndLib and its true branch
    ok = False
    for bi, t in b.calls():
        n = callee_name(t) or ""
        if re.search(r"PartialEq>::eq$", n):
            br = od.bool_branches(b, bi)
            if not br:
                continue
            tr, fa = br
            # is the compared constant EndLib?  (promoted constant of the function)
            is_endlib = any(st["k"] == "assign" and st["rv"]["k"] == "agg" and st["rv"].get("variant") == "EndLib" for pb in f.promoted for blk in pb["blocks"] for st in blk["st"])
            rt = od.reach(b, tr)
            reads = [x for x in rt if b.term(x)["k"] == "call" and re.search(r"read_record", callee_name(b.term(x)) or "")]
            if is_endlib and not reads:
                ok = True
    if ok:
        ctx.ok(rid, f.short, "ENDLIB branch returns without reading")
    else:
        ctx.violation(rid, f.short, "%s keeps decoding after ENDLIB (bytes after the end-of-library record would be interpreted)" % f.short, g.site(f))


def rule_unsupported_is_error(ctx, g, rid):
    ctx.rule(rid, "library-level records documented as unsupported lead to an error return of the library parser, never to an Ok")
    F = ctx.F
    prs = parsers_by_type(F)
    f = prs.get("gds21::data::GdsLibrary")
    if f is None:
        ctx.error(rid, "library parser not found")
        return
    r = gc.parser_arms(F, f)
    unsup = [o["variant"] for o in ORACLE["records"] if o["status"] == "unsupported_lib"]
    for v in unsup:
        if r["cls"].get(v) == "reject":
            ctx.ok(rid, v, "error")
        else:
            ctx.violation(rid, v, "library-level record %s is %s instead of being reported as unsupported" % (v, r["cls"].get(v)), g.site(f))
    ctx.floor(rid, "unsupported_records", len(unsup), 8)


def rule_read_primitives(ctx, g, rid):
    ctx.rule(rid, "reals are decoded through GdsFloat64::decode; strings lose at most one trailing NUL")
    F = ctx.F
    fl = get_flow(F)
    for f in F.fns.values():
        if f.id.startswith("gds21::read::") and f.short.endswith("::read_f64"):
            d = fl.deps(f.id, 0, ())
            if any("GdsFloat64::decode" in str(x[1]) for x in d if x[0] in ("via", "const")):
                ctx.ok(rid, f.short, "via GdsFloat64::decode")
            else:
                ctx.violation(rid, f.short, "reals are not decoded through GdsFloat64::decode", g.site(f))
        if f.id.startswith("gds21::read::") and f.short.endswith("::read_str"):
            from analysis.inline import inlined
            b = Body(inlined(F, f, depth=2))      # `strip_trailing_nul(&data)` extracted into a helper is read in place
            # count the `== 0` tests on the last byte: exactly one strip, not in a loop
            strips = 0
            inloop = False
            loops = b.loops()
            for bi, blk in enumerate(b.blocks):
                for st in blk["st"]:
                    if st["k"] == "assign" and st["rv"]["k"] == "bin" and st["rv"]["op"] == "Eq":
                        c = op_const(st["rv"]["r"]) or op_const(st["rv"]["l"])
                        if c and c.get("int") == 0 and "u8" in c.get("s", ""):
                            strips += 1
                            if any(bi in blks for h, blks in loops):
                                inloop = True
            # the same test written as a pattern (`if let Some(&0) = data.last()`): a switch on a byte with an arm for 0
            for bi, blk in enumerate(b.blocks):
                t = blk["term"]
                if t["k"] == "switch" and bi in b.reachable and not blk["cleanup"]:
                    q0 = op_place(b.resolve_copy(t["on"]))
                    is_byte = q0 is not None and ((not q0["p"] and b.local_ty(q0["l"])["s"] == "u8") or (q0["p"] == ["*"] and b.local_ty(q0["l"])["s"] in ("&u8", "&mut u8")))
                    if is_byte and any(v == 0 for v, _ in t["arms"]):
                        strips += 1
                        if any(bi in blks for h, blks in loops):
                            inloop = True
            if strips == 1 and not inloop:
                ctx.ok(rid, f.short, "one trailing NUL test")
            else:
                ctx.violation(rid, f.short, "string decoding strips %s trailing NULs%s (the format pads with exactly one)" % (strips, " in a loop" if inloop else ""), g.site(f))


INEXACT_READS = re.compile(r"std::io::Read::(read|read_vectored|read_buf)$|std::io::BufRead::fill_buf$|<.* as std::io::Read>::(read|read_vectored|read_buf)$")
EXACT_READS = re.compile(r"std::io::Read::read_exact$|byteorder::ReadBytesExt::read_|<.* as std::io::Read>::read_exact$")


def rule_exact_reads(ctx, g, rid):
    """Short reads: `Read::read` may deliver fewer bytes than asked (at end of input: zero) and leaves the rest of the
    buffer as it was; a decoder that ignores the count turns a truncated stream into well-formed zeros (00 04 04 00 is ENDLIB)."""
    ctx.rule(rid, "every byte the reader decodes was delivered by an exact read (read_exact / byteorder primitives): no `Read::read`-style call whose byte count is ignored")
    F = ctx.F
    n_exact = 0
    for f in F.fns.values():
        if not f.id.startswith("gds21::read::"):
            continue
        b = Body(f)
        for bi, t in b.calls():
            n = callee_name(t) or ""
            if EXACT_READS.search(n):
                n_exact += 1
            if INEXACT_READS.search(n):
                key = "%s/%s" % (f.short, n.split("::")[-1])
                # is the Ok(count) payload ever looked at?
                dest = t["dest"]["l"]
                used = False
                for blk in b.blocks:
                    for st in blk["st"]:
                        if st["k"] != "assign":
                            continue
                        rv = st["rv"]
                        for k in ("o", "l", "r"):
                            q = op_place(rv[k]) if k in rv and isinstance(rv[k], dict) else None
                            if q is None or q["l"] != dest:
                                continue
                            dcs = [e for e in q["p"] if isinstance(e, dict) and "dc" in e]
                            if not q["p"] or any(str(e.get("n", e["dc"])) in ("Ok", "0") for e in dcs):
                                used = True  # the Ok payload (or the whole result) is read
                    u = blk["term"]
                    if u["k"] == "call" and u is not t:
                        for a in u["args"]:
                            q = op_place(a)
                            if q is not None and q["l"] == dest:
                                used = True  # handed to `?` / unwrap / map ...: the count reaches the caller's code
                if used:
                    ctx.note(rid, "%s calls %s and reads the returned count (not decided further)" % (f.short, n))
                    ctx.ok(rid, key, "count inspected")
                else:
                    ctx.violation(rid, key, "%s fills its buffer with %s and ignores the byte count: at end of input the missing bytes decode as zeros, so a truncated stream can be accepted (00 04 04 00 is a well-formed ENDLIB)" % (f.short, n.split("::", 2)[-1]), b.site(bi), key)
    ctx.floor(rid, "exact_read_calls", n_exact, 4)
    if n_exact:
        ctx.ok(rid, "exact-read-calls", "%d exact read calls" % n_exact)


def rule_emission_purity(ctx, g, rid):
    """C01/C02: a field that is set must be written.  Whether a record is emitted may depend only on the field it carries
    (its Option discriminant, the loop over its container), never on a sibling field — otherwise some combination of
    optional fields is silently not written and cannot be read back."""
    from analysis import ctrl
    ctx.rule(rid, "whether an encoder emits a record depends only on the field that record carries (its own Option / container), on loops and on error propagation — not on any other field")
    F = ctx.F
    pat = re.compile(r"::encode_record$|::write_record$|Encode::encode_[a-z_]+$|::encode_[a-z_]+$")
    n = 0
    for f in F.fns.values():
        if not f.id.startswith("gds21::write::"):
            continue
        b = Body(f)
        for bi, t in b.calls():
            nm = callee_name(t) or ""
            if not pat.search(nm) or len(t["args"]) < 2:
                continue
            n += 1
            rv = b.def_rvalue(t["args"][1])
            what = rv.get("variant") if rv and rv["k"] == "agg" and rv.get("variant") else nm.split("::")[-1]
            sl = ctrl.slice_paths(b, t["args"][1:])
            bad = []
            for sw in sorted(ctrl.controlling_switches(b, bi)):
                c = ctrl.classify_switch(b, sw)
                if c[0] in ("try", "next"):
                    continue
                if c[0] in ("discr", "callres", "value") and any(ctrl.prefix_compatible(c[-1], q) for q in sl):
                    continue
                if c[0] == "call" and c[2] and re.search(r"::(is_some|is_none|is_empty|is_ok|is_err|len)$", c[1]) and any(ctrl.prefix_compatible(c[2], q) for q in sl):
                    continue
                if c[0] in ("discr", "callres", "value"):
                    bad.append(ctrl.fmt_path(c[-1]))
                elif c[0] == "call":
                    bad.append("%s(%s)" % (c[1].split("::")[-1], ", ".join(ctrl.fmt_path(a) for a in c[3])))
                elif c[0] == "cmp":
                    bad.append("%s(%s)" % (c[1], ", ".join(ctrl.fmt_path(a) for a in c[2])))
                else:
                    bad.append(str(c[1:]))
            key = "%s/%s" % (f.short, what)
            if bad:
                ctx.violation(rid, key, "%s: whether %s is written is decided by %s, not only by the field it carries (%s): a value that is set can be silently left out of the stream" % (
                    f.short, what, ", ".join(sorted(set(bad))), ", ".join(sorted({ctrl.fmt_path(q) for q in sl if q[1]}))[:160] or "no payload"), b.site(bi), key)
            else:
                ctx.ok(rid, key, "controlled only by its own field / loops / errors")
    ctx.floor(rid, "record_emission_sites", n, 20)


def _callee_chain(b, o, limit=60):
    """callee names on the backward def chain of operand o (intraprocedural)"""
    names, work, seen = set(), [o], set()
    while work and len(seen) < limit:
        x = work.pop()
        q = (x.get("cp") or x.get("mv")) if isinstance(x, dict) else None
        if q is None or q["l"] in seen:
            continue
        seen.add(q["l"])
        for d in b.defs.get(q["l"], []):
            if d[2] == "call":
                names.add(callee_name(d[3]) or "")
                work.extend(d[3]["args"])
            elif d[2] == "assign":
                rv = d[3]["rv"]
                for k in ("o", "l", "r"):
                    if k in rv and isinstance(rv[k], dict):
                        work.append(rv[k])
                if rv["k"] in ("ref", "rawptr", "len", "discr"):
                    work.append({"cp": rv["p"]})
    return names


def rule_string_padding(ctx, g, rid):
    """the NUL pad of a string record is decided by the string's BYTE length — the quantity the record header counts"""
    from analysis import ctrl
    ctx.rule(rid, "a string payload is padded with one NUL exactly when its byte length is odd: the pad decision derives from the byte length (str::len / as_bytes().len()), the same quantity the header's length field is computed from — never from a character count")
    F = ctx.F
    n = 0
    for f in F.fns.values():
        if not f.id.startswith("gds21::write::"):
            continue
        b = Body(f)
        for bi, t in b.calls():
            nm = callee_name(t) or ""
            if not re.search(r"WriteBytesExt::write_u8$|io::Write::write_all$", nm) or len(t["args"]) < 2:
                continue
            c = b.const_of(t["args"][1])
            if not (c and c.get("int") == 0):
                continue
            # the tests deciding this write
            decided_by = set()
            rems = 0
            for sw in ctrl.controlling_switches(b, bi):
                tt = b.term(sw)
                names = _callee_chain(b, tt["on"])
                rv = b.def_rvalue(tt["on"])
                # look for `x % 2` on the chain
                chain_has_rem = False
                work, seen = [tt["on"]], set()
                while work and len(seen) < 40:
                    x = work.pop()
                    q = (x.get("cp") or x.get("mv")) if isinstance(x, dict) else None
                    if q is None or q["l"] in seen:
                        continue
                    seen.add(q["l"])
                    for d in b.defs.get(q["l"], []):
                        if d[2] == "assign":
                            r2 = d[3]["rv"]
                            if r2["k"] == "bin" and r2["op"] == "Rem":
                                chain_has_rem = True
                            for k in ("o", "l", "r"):
                                if k in r2 and isinstance(r2[k], dict):
                                    work.append(r2[k])
                if chain_has_rem:
                    rems += 1
                    decided_by |= names
            if not rems:
                continue
            n += 1
            key = "%s/pad" % f.short
            bytelen = any(re.search(r"str::<impl str>::len$|String::len$|slice::<impl \[T\]>::len$|::as_bytes$", x) for x in decided_by)
            charlen = [x for x in decided_by if re.search(r"::chars$|Iterator::count$|::char_indices$|::count$", x)]
            if charlen or not bytelen:
                ctx.violation(rid, key, "%s decides the NUL pad of a string from %s instead of its byte length: the header counts bytes, so for text whose byte and character counts differ in parity the record is mis-framed and the rest of the stream cannot be read" % (
                    f.short, ", ".join(sorted(x.split("::")[-1] for x in charlen)) or "something other than the byte length"), b.site(bi), key)
            else:
                ctx.ok(rid, key, "pad decided by the byte length")
    ctx.floor(rid, "string_pad_sites", n, 1)


NUMERIC_XFORM = re.compile(r"::(rem_euclid|div_euclid|abs|round|floor|ceil|trunc|fract|clamp|signum|to_radians|to_degrees|sqrt|powi|powf|mul_add|recip|wrapping_\w+|saturating_\w+|checked_\w+|overflowing_\w+|rotate_left|rotate_right|swap_bytes|to_be|to_le|reverse_bits)$|ops::(Add|Sub|Mul|Div|Rem|Neg)(<.*>)?>::(add|sub|mul|div|rem|neg)$")


def rule_payload_verbatim(ctx, g, rid):
    """C01/C03: what a parser stores is the decoded payload itself — no arithmetic on the way from the record to the field"""
    from analysis import ctrl
    ctx.rule(rid, "the element parsers, and the conversion helpers they hand record payloads to, store payloads as decoded: no arithmetic (normalisation, scaling, rounding, re-referencing, sign change) is applied between a record's payload and the field it is stored in")
    F = ctx.F
    # (function id) -> set of parameter indices that carry record payload; parser functions also see payload as the
    # fields of a matched GdsRecord variant (`as Variant` in the access path)
    tainted = {}
    work = []
    for f in F.fns.values():
        if f.id.startswith("gds21::read::") and "GdsParser" in f.short and f.kind != "Closure" and f.body:
            tainted[f.id] = set()
            work.append(f.id)
    n_fn = len(work)
    results = {}
    rounds = 0
    while work and rounds < 400:
        rounds += 1
        fid = work.pop()
        f = F.fns[fid]
        b = Body(f)
        tp = tainted[fid]

        def from_payload(ops, whole=False):
            for q in ctrl.slice_paths(b, ops):
                if any(str(x).startswith("as ") for x in q[1]):
                    return True
                if q[0][0] == "arg" and q[0][1] in tp and (whole or q[1] or b.locals[q[0][1]]["ty"].get("k") == "prim"):
                    # content read out of a payload parameter (lengths and the indices computed from them have no field path)
                    return True
            return False
        def is_index(o):
            """usize arithmetic is index / length arithmetic: GDSII payload values are i16 / i32 / f64 / bytes"""
            q = op_place(o)
            if q is not None and not q["p"]:
                return b.locals[q["l"]]["ty"].get("s") == "usize"
            c = op_const(o)
            return bool(c) and isinstance(c.get("ty"), dict) and c["ty"].get("s") == "usize"
        hits = []
        for bi, blk in enumerate(b.blocks):
            if blk["cleanup"] or bi not in b.reachable:
                continue
            for st in blk["st"]:
                if st["k"] != "assign":
                    continue
                rv = st["rv"]
                if rv["k"] == "bin" and rv["op"].replace("WithOverflow", "").replace("Unchecked", "") in ("Add", "Sub", "Mul", "Div", "Rem") and not is_index(rv["l"]) and from_payload([rv["l"], rv["r"]]):
                    hits.append((bi, rv["op"]))
                if rv["k"] == "un" and rv["op"] == "Neg" and from_payload([rv["o"]]):
                    hits.append((bi, "Neg"))
            t = blk["term"]
            if t["k"] != "call":
                continue
            if NUMERIC_XFORM.search(callee_name(t) or "") and from_payload(t["args"]):
                hits.append((bi, (callee_name(t) or "").split("::")[-1]))
            h = F.fns.get(callee_id(t))
            if h is not None and h.body and h.id.startswith("gds21::") and h.kind != "Closure" and not h.derived:
                ks = {k + 1 for k, a in enumerate(t["args"]) if from_payload([a], whole=True)}
                if ks - tainted.get(h.id, set()) or (ks and h.id not in tainted):
                    tainted[h.id] = tainted.get(h.id, set()) | ks
                    work.append(h.id)
        results[fid] = (f, b, hits)
    n_help = 0
    for fid, (f, b, hits) in sorted(results.items()):
        is_parser = "GdsParser" in f.short
        n_help += 0 if is_parser else 1
        if hits:
            key = "%s/arith" % f.short
            ctx.violation(rid, key, "%s applies %s to a record payload before storing it: the library read differs from what the stream encodes (e.g. an angle of -90 comes back as 270, a year of 2023 as 123)" % (f.short, ", ".join(sorted({h[1] for h in hits}))), b.site(hits[0][0]), key)
        else:
            ctx.ok(rid, f.short, "payloads stored as decoded")
    ctx.floor(rid, "parser_functions", n_fn, 5)
    ctx.count(rid + "_payload_helpers", n_help)


# ----------------------------------------------------------------------------------------------------------
def _emitted_variants(F, f, memo, depth=0):
    """GdsRecord variants that `f` (an encoder) constructs, itself or through workspace callees"""
    if f.id in memo:
        return memo[f.id]
    memo[f.id] = set()
    out = set()
    if f.body and depth < 6:
        b = Body(f)
        for blk in b.blocks:
            for st in blk["st"]:
                if st["k"] == "assign" and st["rv"]["k"] == "agg" and st["rv"].get("id") == gc.REC and st["rv"].get("variant"):
                    out.add(st["rv"]["variant"])
        for bi, t in b.calls():
            cid = callee_id(t)
            cands = [F.fns[cid]] if cid in F.fns else []
            if not cands and cid and cid.startswith("gds21::write::Encode::"):
                cands = [h for h in F.fns.values() if h.id == cid]
            for h in cands:
                if h.id.startswith("gds21::write::") and h.id != f.id:
                    out |= _emitted_variants(F, h, memo, depth + 1)
        for cf, abb, an in od.closure_loops(F, f):
            out |= _emitted_variants(F, cf, memo, depth + 1)
    memo[f.id] = out
    return out


def encoder_loop_variants(F, f, _depth=0):
    """(direct, via_calls): variants constructed inside a loop of encoder `f` itself / emitted by anything it calls from
    inside a loop (closures handed to iterator adapters count as loop bodies)"""
    b = Body(f)
    inloop = set()
    for h, blks in b.loops():
        inloop |= blks
    direct, via = set(), set()
    memo = {}
    for bi, blk in enumerate(b.blocks):
        if bi not in inloop:
            continue
        for st in blk["st"]:
            if st["k"] == "assign" and st["rv"]["k"] == "agg" and st["rv"].get("id") == gc.REC and st["rv"].get("variant"):
                direct.add(st["rv"]["variant"])
        t = blk["term"]
        if t["k"] == "call":
            cid = callee_id(t)
            h = F.fns.get(cid)
            if h is not None and h.id.startswith("gds21::write::") and h.id != f.id:
                via |= _emitted_variants(F, h, memo)
    for cf, abb, an in od.closure_loops(F, f):
        direct |= {st["rv"]["variant"] for blk in cf.body["blocks"] for st in blk["st"]
                   if st["k"] == "assign" and st["rv"]["k"] == "agg" and st["rv"].get("id") == gc.REC and st["rv"].get("variant")}
        via |= _emitted_variants(F, cf, memo)
    # a helper called outside any loop may contain the loop itself (`self.encode_properties(&x.properties)?`)
    if _depth < 4:
        for bi, blk in enumerate(b.blocks):
            t = blk["term"]
            if bi in inloop or t["k"] != "call":
                continue
            h = F.fns.get(callee_id(t))
            if h is not None and h.body and h.id.startswith("gds21::write::") and h.id != f.id and h.kind != "Closure":
                d2, v2 = encoder_loop_variants(F, h, _depth + 1)
                direct |= d2
                via |= v2
    return direct, via


def rule_repeatable_records(ctx, g, rid):
    """writer / parser agreement on which records repeat: what the encoder of a construct emits once per list item is
    accumulated by that construct's parser; what it emits once is stored once - never appended across records"""
    from analysis.nondet import root_local
    ctx.rule(rid, "per construct (library, structure, each element kind): a record kind its encoder emits inside a loop is appended to a collection by its parser (a replacing setter keeps only the last); a record kind its encoder emits once is never appended to a collection that outlives the record (several such records would be merged into one value the writer cannot emit)")
    F = ctx.F
    prs, ens = parsers_by_type(F), encoders_by_type(F)
    n = 0
    APPEND = re.compile(r"Vec::<.*>::(push|append|extend_from_slice|insert)$|Extend<.*>>?::extend$|Vec::<.*>::extend$")
    for tid, pf in sorted(prs.items()):
        ef = ens.get(tid)
        if ef is None:
            continue
        direct, via = encoder_loop_variants(F, ef)
        b = Body(pf)
        sw = gc.main_record_switch(F, b)
        if sw is None:
            continue
        bi, arms, other, eid = sw
        myloop = None
        for h, blks in b.loops():
            if bi in blks and (myloop is None or len(blks) < len(myloop[1])):
                myloop = (h, blks)
        if myloop is None:
            continue
        tshort = tid.split("::")[-1]
        # locals that live across iterations: some definition outside the loop
        def outlives(l):
            if l is None:
                return False
            if 1 <= l <= b.argc:
                return True
            return any(d[0] not in myloop[1] for d in b.defs.get(l, []))
        by_target = {}
        for v, tgt in arms.items():
            by_target.setdefault(tgt, []).append(v)
        for tgt, vs in sorted(by_target.items()):
            if tgt == other:
                continue
            reg = od.region(b, tgt) & myloop[1]
            appends = []
            for x in sorted(reg):
                t = b.term(x)
                if t["k"] == "call" and APPEND.search(callee_name(t) or "") and t["args"]:
                    # the receiver may be obtained through calls (`xy.get_or_insert_with(Vec::new)`, `as_mut().unwrap()`):
                    # follow their first argument back to a local
                    o = t["args"][0]
                    r = None
                    for _ in range(6):
                        r = root_local(b, o)
                        if r is None or 1 <= r <= b.argc:
                            break
                        d = b.single_def(r)
                        if d is not None and d[2] == "call" and d[3]["args"] and not outlives(r):
                            o = d[3]["args"][0]
                            continue
                        break
                    if outlives(r):
                        appends.append(x)
            for v in vs:
                n += 1
                key = "%s/%s" % (tshort, v)
                if v in direct:
                    if appends:
                        ctx.ok(rid, key, "repeated by the encoder, accumulated by the parser")
                    else:
                        ctx.violation(rid, key, "%s: the encoder of %s emits %s once per list item, but the parser's arm for it does not append to a collection: of several such records only the last survives" % (pf.short, tshort, v), b.site(tgt), key)
                elif v in via:
                    ctx.ok(rid, key, "sub-construct repeated by the encoder")
                elif appends:
                    ctx.violation(rid, key, "%s: the encoder of %s emits %s at most once, but the parser appends its payload to a collection that outlives the record: several such records are merged into one value (which the writer may be unable to emit, or emits differently)" % (pf.short, tshort, v), b.site(appends[0]), key)
                else:
                    ctx.ok(rid, key, "stored once")
    ctx.floor(rid, "record_arms", n, 40)


def rule_nothing_read_after_endlib(ctx, g, rid):
    """R03.4b: the library parser's ENDLIB arm ends the read: no byte of the source is consumed (or inspected) after it"""
    ctx.rule(rid, "after the library parser has matched ENDLIB nothing more is read from the source: whatever follows (tape padding, stale blocks) can neither fail the read nor change its result")
    F = ctx.F
    prs = parsers_by_type(F)
    f = prs.get("gds21::data::GdsLibrary")
    if f is None:
        ctx.error(rid, "library parser not found")
        return
    b = Body(f)
    sw = gc.main_record_switch(F, b)
    if sw is None or "EndLib" not in sw[1]:
        ctx.error(rid, "%s: no ENDLIB arm found" % f.short)
        return
    READS = re.compile(r"std::io::Read::\w+$|io::Read>?::\w+$|ReadBytesExt::\w+$|GdsReader::<.*>::\w+$|GdsParser::<.*>::(next|peek|advance)$|io::Seek::\w+$|BufRead::\w+$")
    after = od.reach(b, sw[1]["EndLib"])
    hits = [(x, callee_name(b.term(x))) for x in sorted(after) if b.term(x)["k"] == "call" and READS.search(callee_name(b.term(x)) or "")]
    key = "%s/after-endlib" % f.short
    if hits:
        ctx.violation(rid, key, "%s reads from the source (%s) after matching ENDLIB: bytes that follow the end-of-library record can make the read fail or differ" % (f.short, ", ".join(sorted({h[1].split("::")[-1] for h in hits}))), b.site(hits[0][0]), key)
    else:
        ctx.ok(rid, key, "no read reachable from the ENDLIB arm (%d blocks)" % len(after))


def rule_strings_are_utf8(ctx, g, rid):
    """the reader decodes string payloads with the inverse of what the writer encodes them with (UTF-8 bytes)"""
    ctx.rule(rid, "string payloads are decoded with from_utf8, the inverse of the writer's `as_bytes()`: no byte-to-char mapping (`char::from(u8)`, `as char`) or lossy decoding in the reader, which would change non-ASCII text on the next write")
    F = ctx.F
    n = 0
    for f in F.fns.values():
        if not f.id.startswith("gds21::read::") or not f.body or f.derived:
            continue
        b = Body(f)
        out_s = (f.output or {}).get("s", "")
        parent = f
        if f.kind == "Closure":
            pid = re.sub(r"::\{closure#\d+\}$", "", f.id)
            parent = F.fns.get(pid, f)
        if "String" not in ((parent.output or {}).get("s", "")):
            continue
        n += 1
        hits = []
        for bi, t in b.calls():
            nm = callee_name(t) or ""
            if re.search(r"<char as std::convert::From<u8>>::from$|From<u8> for char>::from$|char::from_u32\w*$|char::from_digit$|String::from_utf8_lossy$|::from_utf8_unchecked$|String::from_utf16\w*$", nm):
                hits.append((bi, nm.split("::")[-1] if "From<u8>" not in nm else "char::from(u8)"))
        for bi, blk in enumerate(b.blocks):
            for st in blk["st"]:
                if st["k"] == "assign" and st["rv"]["k"] == "cast" and (st["rv"].get("to") or {}).get("s") == "char":
                    hits.append((bi, "as char"))
        key = "%s/decode" % parent.short
        if hits:
            ctx.violation(rid, key, "%s builds a string from payload bytes with %s: every byte >= 0x80 becomes a different character than the UTF-8 text the writer emits, so the library read is not stable under write and read" % (parent.short, ", ".join(sorted({h[1] for h in hits}))), b.site(hits[0][0]), key)
        else:
            ctx.ok(rid, "%s@%s" % (key, f.short.split("::")[-1]), "no byte-to-char mapping")
    ctx.floor(rid, "string_returning_reader_functions", n, 1)
