"""A value read from the input is used: no component of a parsed value is silently dropped.

`let top = self.parse_point()?; .. top_y: bot.y` leaves `top.y` unread: a number of the input never reaches the model
and another one is stored twice.  The rule is field-sensitive liveness over the MIR: for every local of a workspace
struct type (two or more named fields) whose single definition is the result of a workspace function (directly, or the
`Continue` payload of `?`), every field is read somewhere, or the whole value is used (moved, borrowed, passed on).
`..Default::default()` bases are exempt (their overwritten fields are unread by construction); so are values that
are not looked at at all (a deliberate skip) and lexical helper structs outside the `data` modules (tokens, headers)."""
import re
from analysis.mir import Body, callee_name, callee_id, op_place

WORKSPACE = ("gds21::", "lef21::", "layout21")


def _places(j, acc):
    if isinstance(j, dict):
        if "l" in j and "p" in j and isinstance(j["p"], list) and isinstance(j["l"], int):
            acc.append(j)
        for k, v in j.items():
            if k in ("ty", "sp", "from", "to", "fsp"):
                continue
            _places(v, acc)
    elif isinstance(j, list):
        for v in j:
            _places(v, acc)


def field_reads(b):
    """local -> set of first-level field names read ('*' = the whole value is used)"""
    reads = {}

    def note(p):
        first = None
        for e in p["p"]:
            if e == "*" or (isinstance(e, dict) and "dc" in e):
                continue
            if isinstance(e, dict) and "f" in e:
                first = e["n"]
            break
        reads.setdefault(p["l"], set()).add(first if first is not None else "*")
        for e in p["p"]:
            if isinstance(e, dict) and "ix" in e:
                reads.setdefault(e["ix"], set()).add("*")
    for bi, blk in enumerate(b.blocks):
        if blk["cleanup"] or bi not in b.reachable:
            continue
        for st in blk["st"]:
            acc = []
            if st["k"] == "assign":
                _places(st["rv"], acc)
            for p in acc:
                note(p)
        t = blk["term"]
        acc = []
        if t["k"] == "call":
            _places(t["args"], acc)
            _places(t["f"], acc)
        elif t["k"] == "switch":
            _places(t["on"], acc)
        elif t["k"] == "assert":
            _places(t.get("cond"), acc)
            _places(t.get("ops"), acc)
        for p in acc:
            note(p)
    return reads


def rule_parsed_fields_used(ctx, rid, mods, floor=None):
    F = ctx.F
    ctx.rule(rid, "every field of a struct value obtained from a parsing / conversion helper is read (or the value is used whole): no component read from the input is dropped while another is stored in its place")
    n = 0
    for f in F.fns.values():
        if not f.id.startswith(mods) or not f.body or f.derived:
            continue
        b = Body(f)
        reads = None
        for l, loc in enumerate(b.locals):
            if l <= b.argc:
                continue
            ty = loc["ty"]
            if ty.get("k") != "adt" or ty["id"] not in F.adts or ty["id"] in F.enums or not ty["id"].startswith(WORKSPACE):
                continue
            adt = F.adts[ty["id"]]
            if len(adt["variants"]) != 1:
                continue
            fields = [x["name"] for x in adt["variants"][0]["fields"]]
            if len(fields) < 2 or all(x.isdigit() for x in fields) and len(fields) > 4:
                continue
            d = b.single_def(l)
            if not d:
                continue
            src = None
            hops = 0
            # `let top = <expr>?` is `val = (branch as Continue).0; top = move val`
            while d and d[2] == "assign" and d[3]["rv"]["k"] == "use" and hops < 4:
                q0 = op_place(d[3]["rv"]["o"])
                if q0 is None or q0["p"]:
                    break
                d2 = b.single_def(q0["l"])
                if d2 is None:
                    break
                d = d2
                hops += 1
            if d[2] == "assign" and d[3]["rv"]["k"] == "use":
                q = op_place(d[3]["rv"]["o"])
                if q and any(isinstance(e, dict) and e.get("dc") == "Continue" for e in q["p"]):
                    dd = b.single_def(q["l"])
                    if dd and dd[2] == "call" and (callee_name(dd[3]) or "").endswith("Try>::branch") and dd[3]["args"]:
                        inner = b.def_call(dd[3]["args"][0])
                        if inner is not None:
                            src = inner
            elif d[2] == "call":
                src = d[3]
            if src is None or not (callee_id(src) or "").startswith(WORKSPACE) or re.search(r"Default>?::default$", callee_name(src) or ""):
                continue
            n += 1
            if reads is None:
                reads = field_reads(b)
            r = reads.get(l, set())
            sname = (callee_name(src) or "").split("::")[-1]
            key = "%s/%s<-%s" % (f.short, ty["id"].split("::")[-1], sname)
            missing = [] if "*" in r else [x for x in fields if x not in r]
            if len(missing) == len(fields) or "::data::" not in ty["id"]:
                # a value that is not looked at at all is a deliberate skip; lexical helper structs (tokens, headers) carry
                # bookkeeping fields that need not be consumed - the rule is about model data used in part
                missing = []
            if missing:
                ctx.violation(rid, key + "/" + ",".join(missing), "%s: the %s obtained from %s has field(s) %s that are never read: part of what was read from the input is dropped (and something else stands in its place)" % (
                    f.short, ty["id"].split("::")[-1], sname, ", ".join(missing)), "%s:%d" % (f.sp[0], f.sp[1]), key + "/" + ",".join(missing))
            else:
                ctx.ok(rid, key + "@%d" % n, "all fields read")
    ctx.count(rid + "_struct_results", n)
    if floor:
        ctx.floor(rid, "struct_results", n, floor)
