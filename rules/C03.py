"""C03 — every grammar-conformant GDSII stream is read to exactly the content it encodes."""
from rules import gdsrules as gr


def run(ctx):
    g = gr.Gds(ctx)
    from rules import deadrules as _dr
    _dr.rule_parsed_fields_used(ctx, "R03.10", ("gds21::read::",), 30)
    gr.rule_enum_numbers(ctx, g, "R03.0")
    gr.rule_decode_table(ctx, g, "R03.1")
    gr.rule_parser_acceptance(ctx, g, "R03.2")
    gr.rule_repeatable_records(ctx, g, "R03.11")
    gr.rule_nothing_read_after_endlib(ctx, g, "R03.4b")
    gr.rule_strings_are_utf8(ctx, g, "R03.6c")
    gr.rule_reader_placement(ctx, g, "R03.3")
    gr.rule_strans_bits_reader(ctx, g, "R03.3b")
    gr.rule_stop_at_endlib(ctx, g, "R03.4")
    gr.rule_unsupported_is_error(ctx, g, "R03.5")
    gr.rule_endianness(ctx, g, "R03.6", "gds21::read::", "gds21::read")
    gr.rule_read_primitives(ctx, g, "R03.6b")
    gr.rule_exact_reads(ctx, g, "R03.7")
    gr.rule_payload_verbatim(ctx, g, "R03.9")
    # a conformant stream is in particular a stream: the reader must not panic on it (same rule instance set as C10 R10.1)
    from rules import panicrules as pr
    roots = pr.roots_by_short(ctx.F, ("data::GdsLibrary::from_bytes", "data::GdsLibrary::open", "data::GdsLibrary::load"))
    pr.rule_panic_free(ctx, "R03.8", roots, "GdsLibrary::from_bytes/open", scope_prefixes=["gds21::"], floor=40)
    ctx.assume("the oracle rules/oracle/gdsii.json is a faithful transcription of the GDSII Stream Format manual")
