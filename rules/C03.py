"""C03 — every grammar-conformant GDSII stream is read to exactly the content it encodes."""
from rules import gdsrules as gr


def run(ctx):
    g = gr.Gds(ctx)
    gr.rule_enum_numbers(ctx, g, "R03.0")
    gr.rule_decode_table(ctx, g, "R03.1")
    gr.rule_parser_acceptance(ctx, g, "R03.2")
    gr.rule_reader_placement(ctx, g, "R03.3")
    gr.rule_strans_bits_reader(ctx, g, "R03.3b")
    gr.rule_stop_at_endlib(ctx, g, "R03.4")
    gr.rule_unsupported_is_error(ctx, g, "R03.5")
    gr.rule_endianness(ctx, g, "R03.6", "gds21::read::", "gds21::read")
    gr.rule_read_primitives(ctx, g, "R03.6b")
    ctx.assume("the oracle rules/oracle/gdsii.json is a faithful transcription of the GDSII Stream Format manual")
    ctx.assume("zero-length strings: safety of the NUL strip for an empty payload is decided under C10 (R10.1)")
