"""C13 — point-in-shape answers agree with exact geometry: the comparison-only clauses.

Decided (exactly, over the ordering abstraction of analysis/evalterm.py — see rules/geomrules.py):
  R13.1  Rect::contains        closed box, independent of corner order
  R13.2  BoundBox::contains / from_points / union and Vec<Point>::bbox (bounding boxes of point lists)
  R13.3  Path::contains        every Manhattan segment is tested through the rectangle that widens it by width/2 on both
                               sides with flush ends, and the answer is true iff one of those rectangles contains the point
Structural only:
  R13.4  Polygon::contains     the early `false` is only taken when the bounding box rejects the point; every edge, including
                               the closing one, is visited; the final answer is `winding number != 0`
NOT decided: the winding-number arithmetic of Polygon::contains (crossing abscissa, vertex and collinearity cases) — values.
"""
import itertools, re
from analysis import evalterm as ev, ordering as od
from analysis.mir import Body, callee_name, callee_id
from analysis.walk import Walker, strip_calls, field_chain
from rules import geomrules as gm

INDEX = gm.INDEX


def run(ctx):
    F = ctx.F
    gm.rule_rect_contains(ctx, "R13.1")
    gm.rule_bbox_contains(ctx, "R13.2")
    rule_bbox_union(ctx, "R13.2")
    rule_points_bbox(ctx, "R13.2")
    rule_path_contains(ctx, "R13.3")
    rule_polygon_structure(ctx, "R13.4")
    rule_polygon_horizontal_edges(ctx, "R13.4")
    ctx.assume("Polygon::contains: the winding-number arithmetic (crossing abscissa by integer division, vertices on the ray, collinear and repeated vertices) is NOT decided; only the structure around it is")
    ctx.assume("half widths are width / 2 in integer arithmetic, as the code computes them; the property's 'within half the width' is read with flush segment ends")


def rule_bbox_union(ctx, rid):
    F = ctx.F
    cands = [f for f in F.fns.values() if f.short == "<bbox::BoundBox as bbox::BoundBoxTrait>::union"]
    if len(cands) != 1:
        ctx.error(rid, "BoundBox::union not found")
        return
    f = cands[0]
    lv = [gm.P(1, "p0", "x"), gm.P(2, "p0", "x"), gm.P(1, "p1", "x"), gm.P(2, "p1", "x"), gm.P(1, "p0", "y"), gm.P(2, "p0", "y"), gm.P(1, "p1", "y"), gm.P(2, "p1", "y")]
    try:
        paths, trunc = ev.summaries(f)
        bad = None
        n = 0
        for combo in itertools.product((0, 1, 2), repeat=8):
            vals = dict(zip(lv, combo))
            for facts, ret in paths:
                if not ev.facts_hold(facts, vals.get):
                    continue
                n += 1
                got = _box(ret, vals.get)
                want = ((min(combo[0], combo[1]), min(combo[4], combo[5])), (max(combo[2], combo[3]), max(combo[6], combo[7])))
                if got != want and bad is None:
                    bad = (combo, got, want)
        if bad:
            ctx.violation(rid, "BoundBox::union", "BoundBox::union yields %s for inputs %s, expected %s (componentwise minima / maxima)" % (bad[1], bad[0], bad[2]), "%s:%d" % (f.sp[0], f.sp[1]))
        else:
            ctx.ok(rid, "BoundBox::union", "%d assignments: minima of the lower corners, maxima of the upper corners" % n)
    except ev.NotEvaluable as e:
        ctx.error(rid, "BoundBox::union not evaluable: %s" % str(e)[:200])


def _box(t, leaf):
    """corner pair of a BoundBox-valued term: BoundBox::new(p, q) or an aggregate"""
    if t[0] == "call" and t[1] and re.search(r"BoundBox::new$", t[1]) and len(t[2]) == 2:
        return (gm._point(t[2][0], leaf), gm._point(t[2][1], leaf))
    return gm._corners(t, leaf)


def rule_points_bbox(ctx, rid):
    """Vec<Point>::bbox: starts from the empty box and unions every point"""
    F = ctx.F
    cands = [f for f in F.fns.values() if f.id.startswith("layout21raw::bbox::") and f.trait_item and f.trait_item.endswith("BoundBoxTrait::bbox") and "Vec<geom::Point>" in (f.self_ty or {}).get("s", "")]
    if not cands:
        ctx.error(rid, "Vec<Point>::bbox not found")
        return
    for f in cands:
        b = Body(f)
        unions = [bi for bi, t in b.calls() if re.search(r"BoundBoxTrait>::union$|::union$", callee_name(t) or "")]
        empties = [bi for bi, t in b.calls() if re.search(r"BoundBox::empty$", callee_name(t) or "")]
        why = []
        loops = od.loop_iterations_all_call(b, unions, why)
        if not loops:
            # the loop written as an adapter: `self.iter().fold(BoundBox::empty(), |bb, p| bb.union(&p.bbox()))`
            isu = lambda t: bool(re.search(r"BoundBoxTrait>::union$|::union$", callee_name(t) or ""))
            loops = [(d, ok_) for d, ok_ in od.every_item_handled(F, f, isu, why) if str(d).startswith("closure")]
            if loops:
                # the accumulator's initial value is the fold's second argument
                folds = [bi for cf, bi, an in od.closure_loops(F, f) if re.search(r"Iterator>?::(fold|try_fold)$", an)]
                init_ok = bool(folds) and all(len(b.term(x)["args"]) > 1 and b.def_call(b.term(x)["args"][1]) is not None and re.search(r"BoundBox::empty$", callee_name(b.def_call(b.term(x)["args"][1])) or "") for x in folds)
                if not all(o for h, o in loops):
                    ctx.violation(rid, "Vec<Point>::bbox", "%s: %s" % (f.short, "; ".join(why)), "%s:%d" % (f.sp[0], f.sp[1]))
                elif not init_ok:
                    ctx.violation(rid, "Vec<Point>::bbox", "%s does not start from the empty box" % f.short, "%s:%d" % (f.sp[0], f.sp[1]))
                else:
                    ctx.ok(rid, "Vec<Point>::bbox", "fold from the empty box, union with every point")
                continue
        key = "Vec<Point>::bbox"
        if not unions or not loops:
            ctx.violation(rid, key, "%s does not union its points in a loop" % f.short, "%s:%d" % (f.sp[0], f.sp[1]))
        elif not all(o for h, o in loops):
            ctx.violation(rid, key, "%s: %s" % (f.short, "; ".join(why)), "%s:%d" % (f.sp[0], f.sp[1]))
        elif not empties or not all(b.dominates(e, u) for e in empties[:1] for u in unions):
            ctx.violation(rid, key, "%s does not start from the empty box" % f.short, "%s:%d" % (f.sp[0], f.sp[1]))
        else:
            ctx.ok(rid, key, "empty box, then the union with every point")


def rule_path_contains(ctx, rid):
    F = ctx.F
    cands = [f for f in F.fns.values() if f.short == "<geom::Path as geom::ShapeTrait>::contains"]
    if len(cands) != 1:
        ctx.error(rid, "Path::contains not found")
        return
    f = cands[0]
    b = Body(f)
    site = "%s:%d" % (f.sp[0], f.sp[1])
    # (a) loop structure: the rectangle test is made for every segment; `true` only after a positive test; `false` only after the loop
    tests = [bi for bi, t in b.calls() if re.search(r"geom::Rect as geom::ShapeTrait>::contains$", callee_name(t) or "")]
    if not tests:
        ctx.violation(rid, "Path::contains/delegates", "Path::contains does not test its segments through Rect::contains", site)
        return
    why = []
    loops = od.loop_iterations_all_call(b, tests, why)
    # leaving the loop with `true` after a hit is the intended early exit: only complain about skipped segments / other exits
    skipped = [w for w in why if "without the call" in w]
    if not loops or skipped:
        ctx.violation(rid, "Path::contains/every-segment", "Path::contains: %s" % ("; ".join(skipped) or "the segment test is not inside a loop over the segments"), site)
    else:
        ctx.ok(rid, "Path::contains/every-segment", "every iteration tests its segment")
    okc = True
    for tb in tests:
        sw = od.bool_switch(b, tb)
        if not sw:
            okc = False
            continue
        swb, tr, fl = sw
        # true branch returns true; a `true` result is not reachable without passing a positive test
        rets_true = [bi for bi, blk in enumerate(b.blocks) if bi in b.reachable and any(st["k"] == "assign" and st["p"]["l"] == 0 and not st["p"]["p"] and st["rv"]["k"] == "use" and (st["rv"]["o"].get("c") or {}).get("int") == 1 for st in blk["st"])]
        for rt in rets_true:
            if not b.dominates(tr, rt):
                okc = False
    if okc:
        ctx.ok(rid, "Path::contains/true-after-hit", "`true` only on the positive branch of a segment test")
    else:
        ctx.violation(rid, "Path::contains/true-after-hit", "Path::contains can answer true without a segment rectangle having contained the point", site)

    # (b) the rectangle of a segment, evaluated: points A = points[k], B = points[k+1], half = width / 2
    w = Walker(f, max_visits=2, follow_errors=True, max_paths=20000, max_depth=30)
    hits = []

    def on_stmt(path, bb, st, val):
        if val and val[0] == "agg" and str(val[1]).endswith("geom::Rect::Rect"):
            hits.append((dict(path.facts), val))
    w.run(on_stmt=on_stmt)
    if not hits:
        ctx.error(rid, "Path::contains: no segment rectangle found")
        return

    def idx_of(t):
        """0 for points[k], 1 for points[k + 1]"""
        s = t
        if s[0] == "f" and s[2] == "0" and s[1][0] == "op":
            s = s[1]
        if s[0] == "op" and s[1].startswith("Add") and len(s[2]) == 2 and s[2][1][0] == "const" and s[2][1][2] == 1:
            return 1
        return 0

    def mkleaf(A, B, wd):
        def leaf(t):
            if t[0] == "f" and t[2] in ("x", "y") and t[1][0] == "call" and t[1][1] and INDEX.search(t[1][1]) and len(t[1][2]) == 2:
                p = (A, B)[idx_of(t[1][2][1])]
                return p[0 if t[2] == "x" else 1]
            root, chain = field_chain(t)
            if root == ("param", 1) and chain == ["width"]:
                return wd
            if t[0] == "call" and t[1] and re.search(r"TryFrom<.*>>::try_from$|::try_from$|::unwrap$|::try_into$|::from$|::into$", t[1]) and t[2]:
                return leaf(t[2][0]) if leaf(t[2][0]) is not None else None
            return None
        return leaf
    n = 0
    bad = None
    for ax, ay, bx, by in itertools.product((0, 2, 5), repeat=4):
        if ax != bx and ay != by:
            continue  # not a Manhattan segment: the code refuses it
        for wd in (0, 2, 3):
            A, B = (ax, ay), (bx, by)
            leaf = mkleaf(A, B, wd)
            h = wd // 2
            if ax == bx:
                want_v = ((ax - h, ax + h), (min(ay, by), max(ay, by)))
            want_h = ((min(ax, bx), max(ax, bx)), (ay - h, ay + h))
            for facts, val in hits:
                try:
                    if not ev.facts_hold(facts, leaf, strict=False):
                        continue
                    p0, p1 = gm._point(val[2][0], leaf), gm._point(val[2][1], leaf)
                except ev.NotEvaluable:
                    continue
                n += 1
                got = ((min(p0[0], p1[0]), max(p0[0], p1[0])), (min(p0[1], p1[1]), max(p0[1], p1[1])))
                wants = []
                if ax == bx:
                    wants.append(want_v)
                if ay == by:
                    wants.append(want_h)
                if got not in wants and bad is None:
                    bad = (A, B, wd, got, wants)
    if not n:
        ctx.error(rid, "Path::contains: segment rectangle not evaluable")
    elif bad:
        A, B, wd, got, wants = bad
        ctx.violation(rid, "Path::contains/segment-rect", "Path::contains tests the segment %s-%s of width %d against the box x:%s y:%s; the segment widened by width/2 is x:%s y:%s" % (A, B, wd, got[0], got[1], wants[0][0], wants[0][1]), site, "Path::contains/segment-rect")
    else:
        ctx.ok(rid, "Path::contains/segment-rect", "%d (segment, width, path) cases: the box is the segment widened by width/2 with flush ends" % n)
    ctx.count("path_segment_cases", n)


def rule_polygon_structure(ctx, rid):
    F = ctx.F
    cands = [f for f in F.fns.values() if f.short == "<geom::Polygon as geom::ShapeTrait>::contains"]
    if len(cands) != 1:
        ctx.error(rid, "Polygon::contains not found")
        return
    f = cands[0]
    b = Body(f)
    site = "%s:%d" % (f.sp[0], f.sp[1])
    # early false only under a negative bounding-box test
    bbt = [bi for bi, t in b.calls() if re.search(r"BoundBox::contains$", callee_name(t) or "")]
    false_rets = [bi for bi, blk in enumerate(b.blocks) if bi in b.reachable and not blk["cleanup"] and any(st["k"] == "assign" and st["p"]["l"] == 0 and not st["p"]["p"] and st["rv"]["k"] == "use" and (st["rv"]["o"].get("c") or {}).get("int") == 0 and ((st["rv"]["o"].get("c") or {}).get("ty") or {}).get("s") == "bool" for st in blk["st"])]
    ok = True
    for fr in false_rets:
        guarded = False
        for tb in bbt:
            sw = od.bool_switch(b, tb)
            if sw and b.dominates(sw[2], fr):
                guarded = True
        if not guarded:
            ok = False
    if ok:
        ctx.ok(rid, "Polygon::contains/early-false", "a constant `false` is only returned when the bounding box rejects the point")
    else:
        ctx.violation(rid, "Polygon::contains/early-false", "Polygon::contains can answer a constant false on a path not guarded by the bounding-box test", site)
    # the edge loop: indices idx and (idx + 1) % len  -> the closing edge is included
    has_rem = any(st["k"] == "assign" and st["rv"]["k"] == "bin" and st["rv"]["op"] == "Rem" for blk in b.blocks for st in blk["st"])
    loops = b.loops()
    if loops and has_rem:
        ctx.ok(rid, "Polygon::contains/closing-edge", "edge k runs from points[k] to points[(k+1) % len]")
    else:
        ctx.violation(rid, "Polygon::contains/closing-edge", "Polygon::contains does not wrap the last edge back to the first point", site)
    # final answer: comparison of the accumulated counter with zero
    fin = [st for blk in b.blocks for st in blk["st"] if st["k"] == "assign" and st["p"]["l"] == 0 and not st["p"]["p"] and st["rv"]["k"] == "bin" and st["rv"]["op"] in ("Ne", "Eq")]
    if fin:
        ctx.ok(rid, "Polygon::contains/answer", "final answer compares the winding counter with zero")
    else:
        ctx.violation(rid, "Polygon::contains/answer", "the final answer is not a zero test of the winding counter", site)



def rule_polygon_horizontal_edges(ctx, rid):
    """The one clause of Polygon::contains that is comparison-only: a point of a horizontal edge is inside (boundary
    included), whichever way the edge is stored — and that shortcut fires for no other point."""
    F = ctx.F
    cands = [f for f in F.fns.values() if f.short == "<geom::Polygon as geom::ShapeTrait>::contains"]
    if len(cands) != 1:
        return
    f = cands[0]
    w = Walker(f, max_visits=1, follow_errors=True, max_paths=20000)
    rets = []
    w.run(on_return=lambda p: rets.append((dict(p.facts), p.env.get(0))))
    trues = [fa for fa, r in rets if r is not None and r[0] == "const" and r[2] == 1]
    if not trues:
        ctx.note(rid, "Polygon::contains: no early `true` inside the edge loop (no on-edge shortcut to decide)")
        return

    def which(ix):
        """'next' for points[(idx + 1) % len], 'past' for points[idx]"""
        return "next" if (ix[0] == "op" and ix[1] == "Rem") else "past"

    def mkleaf(past, nxt, pt):
        def leaf(t):
            if t[0] == "f" and t[2] in ("x", "y"):
                base = t[1]
                if base[0] == "call" and base[1] and INDEX.search(base[1]) and len(base[2]) == 2:
                    p = nxt if which(base[2][1]) == "next" else past
                    return p[0 if t[2] == "x" else 1]
                root, ch = field_chain(t)
                if root == ("param", 2) and ch == [t[2]]:
                    return pt[0 if t[2] == "x" else 1]
            return None
        return leaf
    # keep the paths that are decided by comparisons of the edge and the point only: drop facts the evaluator cannot see
    n = 0
    missed = None
    spurious = None
    dom = (0, 1, 2)
    for px, nx, x in itertools.product(dom, repeat=3):
        for ey, y in itertools.product((0, 1), repeat=2):
            past, nxt, pt = (px, ey), (nx, ey), (x, y)   # a horizontal edge at height ey
            leaf = mkleaf(past, nxt, pt)
            on_edge = (y == ey) and min(px, nx) <= x <= max(px, nx)
            fired = False
            for fa in trues:
                try:
                    # only shortcut paths that test the edge for being horizontal
                    horizontal_fact = any(k[0] == "val" and k[1][0] == "op" and k[1][1] == "Eq" and "y" in str(k[1])[-40:] and v in (("!=", (0,)), ("=", 1)) for k, v in fa.items())
                    if not horizontal_fact:
                        continue
                    if ev.facts_hold(fa, leaf, strict=False):
                        fired = True
                except ev.NotEvaluable:
                    continue
            n += 1
            if on_edge and not fired and missed is None:
                missed = (past, nxt, pt)
            if fired and not on_edge and spurious is None:
                spurious = (past, nxt, pt)
    key = "Polygon::contains/horizontal-edge"
    site = "%s:%d" % (f.sp[0], f.sp[1])
    if missed:
        ctx.violation(rid, key, "Polygon::contains: the point %s lies on the horizontal edge %s-%s but the on-edge shortcut does not fire for it (an edge stored right-to-left?): boundary points can be reported outside" % (missed[2], missed[0], missed[1]), site, key)
    elif spurious:
        ctx.violation(rid, key, "Polygon::contains: the on-edge shortcut fires for the point %s, which is not on the horizontal edge %s-%s" % (spurious[2], spurious[0], spurious[1]), site, key)
    else:
        ctx.ok(rid, key, "%d (edge, point) orderings: the shortcut fires exactly for the points of the edge" % n)

