"""C05 — LEF write-then-read returns the library that was written."""
import re, time
from analysis.inline import inlined
from analysis import lefsim as ls, ordering as od
from analysis.mir import Body, callee_name, callee_id, op_const
from rules import lefrules as lr


def payload(f):
    o = f.output or {}
    if o.get("k") == "adt" and o["id"].endswith("result::Result") and o.get("args"):
        return o["args"][0]
    return None


def fmt_tok(t):
    if t is None:
        return "<end of text>"
    k = t[0]
    if k == "K":
        return t[1]
    if k == "SEMI":
        return ";"
    if k == "NUM":
        return "<number>"
    if k == "TEXT":
        return "<name>"
    if k == "STR":
        return "<\"string\">"
    if k == "E":
        return "<%s>" % t[1].split("::")[-1]
    if k == "WILD":
        return "<...>"
    if k == "BAD":
        return "[%s]" % t[1].replace("glued:", "").replace("{}", "<value>")
    if k == "NT":
        return "<<%s>>" % t[1].split("::")[-1]
    if k == "W":
        return t[1]
    return str(t)


def rule_version_gates(ctx, rid, parsers=None):
    F = ctx.F
    if parsers is None:
        parsers = [f for f in F.fns.values() if f.id.startswith("lef21::read::") and "LefParser" in f.name and f.kind != "Closure"]
    # ---- R05.4 version gates
    def gates(fns, is_writer):
        """{struct field guarded: (comparison, static version constant)}"""
        out = {}
        for f in fns:
            # a gate folded into a small helper (`self.expect_version_upto(&V5P4)`) is read in place
            b = Body(inlined(F, f, pred=lambda g_, t_: g_.id.startswith(("lef21::read::", "lef21::write::")) and g_.kind != "Closure" and not re.search(r"::(fail|fail_msg|state|error|expect|expect_key|expect_ident|expect_and_get_str|get_\w+|peek\w*|advance|matches|next_token|txt|parse_\w+|write_\w+)$", g_.short), depth=2, max_blocks=30))
            for bi, t in b.calls():
                n = callee_name(t) or ""
                m = re.search(r"PartialOrd>?::(gt|ge|lt|le)$", n)
                if not m or len(t["args"]) != 2:
                    continue
                # one side is session.lef_version, the other a static version constant
                def static_of(o):
                    depth = 0
                    while depth < 12:
                        depth += 1
                        o = b.resolve_copy(o)
                        c = (o.get("c") if o else None)
                        if c is not None:
                            return c.get("static")
                        call = b.def_call(o)
                        if call is not None:
                            if re.search(r"::deref$|::force$|::borrow$|::as_ref$", callee_name(call) or "") and call["args"]:
                                o = call["args"][0]
                                continue
                            return None
                        rv = b.def_rvalue(o)
                        if rv is not None and rv["k"] in ("ref", "rawptr"):
                            o = {"cp": {"l": rv["p"]["l"], "p": []}}
                            continue
                        return None
                    return None
                st = static_of(t["args"][1]) or static_of(t["args"][0])
                if not st:
                    continue
                br = od.bool_branches(b, bi)
                if not br:
                    continue
                tr, fa = br
                okb, errb = od.ret_kind_blocks(od.pruned_body(F, b))
                pb = od.pruned_body(F, b)
                true_fails = not (od.reach(pb, tr, removed=errb) & okb) if tr in pb.reachable else True
                # which field does this gate protect: the nearest dominating `if let Some(..) = x.field` (writer) or
                # the builder setter reached afterwards (reader)
                field = None
                if is_writer:
                    for s_, on, taken in __import__("analysis.panics", fromlist=["x"]).dominating_guards(b, bi):
                        rv = b.def_rvalue(on)
                        if rv and rv["k"] == "discr":
                            fs = [e["n"] for e in rv["p"]["p"] if isinstance(e, dict) and "f" in e]
                            if fs:
                                field = fs[-1]
                else:
                    r = od.reach(pb, fa)
                    for x in sorted(r):
                        u = b.term(x)
                        if u["k"] == "call":
                            g = F.fns.get(callee_id(u))
                            if g is not None and g.self_ty and g.self_ty.get("s", "").endswith("Builder") and len(g.inputs) == 2 and pb.dominates(fa, x):
                                field = g.short.split("::")[-1]
                                break
                if field:
                    out[field] = (m.group(1), st.split("::")[-1], "error" if true_fails else "other", f.short, b.site(bi))
        return out
    wg = gates([f for f in F.fns.values() if ls.is_writer_fn(F, f)], True)
    rg = gates(parsers, False)
    for fld in sorted(set(wg) | set(rg)):
        a, c = wg.get(fld), rg.get(fld)
        if a and c and a[:3] == c[:3]:
            ctx.ok(rid, fld, "both sides: version %s %s -> %s" % (a[0], a[1], a[2]))
        elif a and not c:
            ctx.violation(rid, fld, "the writer refuses `%s` when the version is %s %s (%s) but the reader accepts it at any version: a library the reader produced cannot be written" % (fld, a[0], a[1], a[3]), a[4], fld)
        elif c and not a:
            ctx.violation(rid, fld, "the reader rejects `%s` when the version is %s %s but the writer emits it at any version: the written text cannot be read back" % (fld, c[0], c[1]), c[4], fld)
        else:
            ctx.violation(rid, fld, "version gate differs: writer %s, reader %s" % (a[:3], c[:3]), a[4], fld)
    ctx.count("version_gates", {"writer": sorted(wg), "reader": sorted(rg)})


def run(ctx):
    F = ctx.F
    from rules import deadrules as _dr
    _dr.rule_parsed_fields_used(ctx, "R05.7", ("lef21::read::",), 100)
    tier = ctx.tier
    ctx.rule("R05.1", "every (non-Unsupported) field of every LEF structure is read by the writer routine for its type")
    ctx.rule("R05.2", "every token sequence a writer routine can emit (all optional-field subsets, loops 0/1 times) is accepted, token class by token class, by an abstract run of the parser routine for the same type; tokens are cut by a model of the LEF lexer (whitespace-delimited, ';' special only at token start)")
    ctx.rule("R05.4", "statements whose legality depends on the LEF version are gated by the same comparison in writer and reader")
    L = ls.Lang(F)
    if len(L.key_str) < 50:
        ctx.error("R05.2", "LefKey string table not extracted (%d entries)" % len(L.key_str))
        return
    wm = ls.WriterModel(L)
    sim = ls.ParserSim(L, wm)
    writers = [f for f in F.fns.values() if ls.is_writer_fn(F, f) and ls.writer_param_type(f) is not None and (f.output or {}).get("s", "").startswith("std::result::Result<()")]
    parsers = [f for f in F.fns.values() if f.id.startswith("lef21::read::") and "LefParser" in f.name and f.kind != "Closure"]
    by_payload = {}
    for p in parsers:
        pt = payload(p)
        if pt is not None:
            by_payload.setdefault(pt["s"], []).append(p)
    n_pairs = 0
    n_seqs = 0
    nested_done = set()
    paired = {wf.id for wf in writers if ls.writer_param_type(wf).get("k") == "adt" and len(by_payload.get(ls.writer_param_type(wf)["s"], [])) == 1}
    cap = 400 if tier == "quick" else 5000
    for wf in sorted(writers, key=lambda x: x.id):
        wpt = ls.writer_param_type(wf)
        if wpt.get("k") != "adt" and wpt.get("k") != "adt":
            continue
        cands = by_payload.get(wpt["s"], [])
        wshort = wf.short.split("::")[-1]
        if len(cands) != 1:
            # no parser returns exactly this type (e.g. a single PROPERTY line): covered where the caller's sequence is checked
            ctx.note("R05.2", "%s: no unique parser for %s; its text is checked inline in its callers" % (wshort, wpt["s"]))
            continue
        pf = cands[0]
        seqs = wm.paths(wf)
        if wf.id in wm.truncated:
            ctx.note("R05.2", "%s: writer path enumeration truncated" % wshort)
        if not seqs:
            ctx.error("R05.2", "%s: no successful writer path found" % wshort)
            continue
        n_pairs += 1
        chosen = wm.covering_subset(wf, 40) if tier == "quick" else seqs[:cap]
        rejected = None
        t0 = time.time()
        work = []
        for toks in chosen:
            work.append(toks)
            # nested writers without a parser of their own (write_geom, write_property ...) are checked here, universally:
            # every sequence such a writer can emit must be accepted in place (the plain run below only needs one of them)
            for i, tk in enumerate(toks):
                if tk[0] != "NT" or tk[1] in paired or i != [j for j, x in enumerate(toks) if x == tk][0]:
                    continue
                for alt in wm.paths(F.fns[tk[1]])[:80]:
                    k3 = (pf.id, tk[1], alt)
                    if k3 in nested_done:
                        continue
                    nested_done.add(k3)
                    work.append(toks[:i] + tuple(alt) + toks[i + 1:])
        for toks in work:
            n_seqs += 1
            sim.fail_note = None
            res = sim.run(pf, toks, 0)
            if not any(r[0] == len(r[1]) for r in res):
                rejected = (toks, sim.fail_note, res)
                break
            if time.time() - t0 > (25 if tier == "quick" else 600):
                ctx.note("R05.2", "%s: time budget reached after %d sequences" % (wshort, n_seqs))
                break
        key = "%s->%s" % (wshort, pf.short.split("::")[-1])
        if rejected:
            toks, note, res = rejected
            txt = " ".join(fmt_tok(t) for t in toks[:40])
            if note:
                p, pfn, want, ctxt, got = note
                why = "at token %d the parser (%s) needs %s but the text continues with `%s` (…%s…)" % (p, pfn.split("::")[-1], want if isinstance(want, str) else fmt_tok(want), fmt_tok(got), " ".join(fmt_tok(t) for t in ctxt))
            else:
                ends = sorted({r[0] for r in res})
                why = "the parser stops before the end of the text (consumed %s of %d tokens)" % (ends[-3:] if ends else "none", len(toks))
            ctx.violation("R05.2", key, "%s can emit `%s`, which %s does not accept: %s" % (wf.short, txt, pf.short, why), "%s:%d" % (wf.sp[0], wf.sp[1]), key)
        else:
            ctx.ok("R05.2", key, "%d of %d emitted token sequences accepted" % (len(chosen), len(seqs)))
    ctx.floor("R05.2", "writer_parser_pairs", n_pairs, 8)
    # the writer prints text operands verbatim; reading them back equal needs the reader to have stored them verbatim
    from rules import lefrules as lr
    lr.rule_text_verbatim(ctx, "R05.3")
    lr.rule_plain_number_format(ctx, "R05.8")
    lr.rule_line_writer_verbatim(ctx, "R05.9")
    ctx.count("token_sequences_simulated", n_seqs)

    # ---- R05.1 writer reads every field
    n_f = 0
    for wf in writers:
        wpt = ls.writer_param_type(wf)
        if wpt.get("k") != "adt" or wpt["id"] not in F.adts or F.adts[wpt["id"]]["kind"] != "struct":
            continue
        b = Body(wf)
        read = set()
        whole = False
        for blk in b.blocks:
            items = []
            for st in blk["st"]:
                if st["k"] == "assign":
                    rv = st["rv"]
                    for key in ("o", "l", "r"):
                        if rv.get(key):
                            items.append(rv[key].get("cp") or rv[key].get("mv"))
                    if isinstance(rv.get("p"), dict) and "l" in rv["p"]:
                        items.append(rv["p"])
                    for o in rv.get("ops", []):
                        items.append(o.get("cp") or o.get("mv"))
            if blk["term"]["k"] == "call":
                for a in blk["term"]["args"]:
                    items.append(a.get("cp") or a.get("mv"))
            for pl in items:
                if pl and pl["l"] == 2:
                    fs = [e["n"] for e in pl["p"] if isinstance(e, dict) and "f" in e]
                    if fs:
                        read.add(fs[0])
        for fld in F.adts[wpt["id"]]["variants"][0]["fields"]:
            if "Unsupported" in fld["ty"]["s"]:
                continue
            n_f += 1
            key = "%s.%s" % (wpt["id"].split("::")[-1], fld["name"])
            if fld["name"] in read:
                ctx.ok("R05.1", key, "written")
            else:
                ctx.violation("R05.1", key, "%s never reads %s: the field is lost when the library is written" % (wf.short, key), "%s:%d" % (wf.sp[0], wf.sp[1]), key)
    ctx.floor("R05.1", "model_fields", n_f, 60)
    # ---- R05.1b a field that is set is written: per successful writer path, every Option field of the value being written
    # is either known to be None on that path (its own test), or decided by a test of its own payload, or reaches the output
    ctx.rule("R05.1b", "on every successful path of every writer routine, each optional field of the value being written is either tested absent on that path, or reaches the output: a field left out because a SIBLING field took its place (alternatives in one `match`) is lost when both are set")
    n_w = 0
    for wf in writers:
        if wf.id in wm.truncated:
            continue
        wm.paths(wf)
        n_w += 1
        for fld, cnt in sorted((wm.unwritten.get(wf.id) or {}).items()):
            key = "%s/%s" % (wf.short.split("::")[-1], fld)
            ctx.violation("R05.1b", key, "%s has %d successful path(s) on which `%s` is neither known to be absent nor written: when it is set together with whatever that path tests instead, it is silently left out of the text" % (wf.short, cnt, fld), "%s:%d" % (wf.sp[0], wf.sp[1]), key)
        if not (wm.unwritten.get(wf.id) or {}):
            ctx.ok("R05.1b", wf.short.split("::")[-1], "every optional field tested absent or written on every path")
    ctx.floor("R05.1b", "writer_routines_path_checked", n_w, 8)

    rule_version_gates(ctx, "R05.4", parsers)
    lr.rule_indent_pairing(ctx, "R05.5")
    ctx.assume("A-LEX: the LEF lexer ends a token at whitespace and treats ';' '\"' '#' specially only at the start of a token; names are not keywords; Decimal/number Display prints one token")
    ctx.assume("values of String fields are single tokens (names); locally computed strings are existential wildcards, which can hide but never create a mismatch")
