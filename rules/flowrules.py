"""Rule A helpers: required (and, where exact, forbidden) field flows in converter functions selected by signature."""
import re
from analysis import flow
from rules.gdsrules import get_flow


def select(F, prefix, ins, out, name_hint=None):
    """functions under `prefix` whose parameter types match the regex list `ins` (self included) and output `out`"""
    res = []
    for f in F.fns.values():
        if not f.id.startswith(prefix) or f.kind == "Closure" or f.derived:
            continue
        i = [x["s"] for x in f.inputs]
        o = (f.output or {}).get("s", "")
        if len(i) != len(ins):
            continue
        if all(re.search(p, s) for p, s in zip(ins, i)) and re.search(out, o):
            res.append(f)
    return res


def path_str(p):
    return "".join(("." + x) if not x.startswith("[") else x for x in p).lstrip(".")


def _match(p, q, strict):
    """do source path p and oracle path q denote overlapping locations?  '[*]' is ignored on both sides; a constant
    index present on only one side is skipped unless `strict` (used for forbidden flows: then it must be explicit)"""
    p = [x for x in p if x not in ("#cmp", "#d", "#sel", "[*]")]
    q = [x for x in q if x != "[*]"]
    i = j = 0
    while i < len(p) and j < len(q):
        a, b = p[i], q[j]
        if a == b:
            i += 1
            j += 1
            continue
        ai, bi = a.startswith("["), b.startswith("[")
        if ai and bi:
            return False
        if ai and not strict:
            i += 1
            continue
        if bi and not strict:
            j += 1
            continue
        return False
    if strict:
        # every explicit constant index of the oracle path must have been matched
        return not any(x.startswith("[") for x in q[j:])
    return True


def has_flow(srcs, param, inpath, strict=False):
    """source set contains param at a path compatible with inpath (prefix either way)"""
    for s in srcs:
        if s[0] != "param" or s[1] != param:
            continue
        if _match(s[2], inpath, strict):
            return True
    return flow.UNKNOWN in srcs and not strict


def data_flow_only(srcs):
    """drop sources that arrive only through comparisons / discriminant tests"""
    return {s for s in srcs if not (s[0] == "param" and ("#cmp" in s[2] or "#d" in s[2] or "#sel" in s[2]))}


def check_flows(ctx, rid, f, rows, label=None):
    """rows: [(out_path tuple, [(param, in_path)] required, [(param, in_path)] forbidden)]"""
    F = ctx.F
    fl = get_flow(F)
    site = "%s:%d" % (f.sp[0], f.sp[1])
    name = label or f.short.split("::")[-1]
    for out, req, forb in rows:
        d = fl.deps(f.id, 0, tuple(out))
        inst = "%s:%s" % (name, path_str(out))
        if flow.has_unknown(d):
            ctx.note(rid, "%s: analysis budget exhausted (no verdict)" % inst)
            continue
        dd = data_flow_only(d)
        missing = [(p, ip) for p, ip in req if not has_flow(dd, p, ip)]
        bad = [(p, ip) for p, ip in forb if has_flow(dd, p, ip, strict=True)]
        # identity fields: a name must come from the name the table says, not from the name of something nested inside
        if out and out[-1] in ("name", "inst_name") and req:
            for s in dd:
                if s[0] == "param" and s[2] and [x for x in s[2] if not x.startswith("[") and not x.startswith("as:")][-1:] == ["name"] and not any(s[1] == p and _match(s[2], ip, False) for p, ip in req):
                    bad.append((s[1], tuple(x for x in s[2] if not x.startswith("#"))))
        got = sorted("arg%d.%s" % (s[1], path_str(s[2])) for s in dd if s[0] == "param")
        if missing:
            ctx.violation(rid, inst, "%s: output %s does not derive from %s (it derives from %s)" % (
                f.short, path_str(out), ["arg%d.%s" % (p, path_str(ip)) for p, ip in missing], got[:8]), site, inst)
        elif bad:
            ctx.violation(rid, inst, "%s: output %s derives from %s, which belongs elsewhere" % (
                f.short, path_str(out), ["arg%d.%s" % (p, path_str(ip)) for p, ip in bad]), site, inst)
        else:
            ctx.ok(rid, inst, "<- %s" % ["arg%d.%s" % (p, path_str(ip)) for p, ip in req])
