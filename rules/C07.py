"""C07 — raw layout exported to GDSII and imported back is unchanged."""
import re
from analysis import ordering as od
from analysis.mir import Body, callee_name, callee_id
from rules import rawgds as rg
from rules.flowrules import select


def run(ctx):
    F = ctx.F
    ctx.rule("R07.1e", "raw -> GDSII: every exported field derives from its raw counterpart (x/y and layer/datatype never crossed)")
    ctx.rule("R07.1i", "GDSII -> raw: every imported field derives from its GDSII counterpart")
    rg.run_tables(ctx, "R07.1e", "R07.1i")
    rg.rule_units(ctx, "R07.2")
    rg.rule_closure(ctx, "R07.3")
    # nets come back by testing which shapes contain the label point; a polygon must not come back as another shape
    from rules import geomrules as gm
    gm.rule_rect_contains(ctx, "R07.5")
    gm.rule_bbox_contains(ctx, "R07.5b")
    gm.rule_boundary_as_rect(ctx, "R07.6", ctx.tier)
    from rules import boolxfer as bx
    bx.run_table(ctx, "R07.7", bx.GDS_EXPORT + bx.GDS_IMPORT)
    # ---- R07.4 polygon label lies inside: every Ok return of Polygon::label_location is guarded by contains()
    ctx.rule("R07.4", "a polygon's label point is only returned after the polygon's own containment test accepted that point")
    fs = [f for f in F.fns.values() if f.id.startswith(rg.PFX) and f.trait and "PlaceLabels" in f.trait and (f.self_ty or {}).get("s", "").endswith("geom::Polygon")]
    if len(fs) != 1:
        ctx.error("R07.4", "Polygon::label_location not found")
    else:
        f = fs[0]
        b = Body(f)
        okb, errb = od.ret_kind_blocks(b)
        conts = [bi for bi, t in b.calls() if re.search(r"ShapeTrait>::contains$|::contains$", callee_name(t) or "") and "geom" in (callee_name(t) or "")]
        ok_blocks = [x for x in okb]
        bad = []
        for ob in ok_blocks:
            guarded = False
            for cb in conts:
                br = od.bool_branches(b, cb)
                if br and b.dominates(br[0], ob):
                    guarded = True
            if not guarded:
                bad.append(ob)
        if not conts:
            ctx.violation("R07.4", f.short, "label location is never tested with contains()", "%s:%d" % (f.sp[0], f.sp[1]))
        elif bad:
            ctx.violation("R07.4", f.short, "a label point can be returned without having passed the containment test (the label may lie outside the shape and name nothing on import)", b.site(bad[0]))
        else:
            ctx.ok("R07.4", f.short, "%d Ok returns, all dominated by a positive contains()" % len(ok_blocks))
    # the exporter's label position is exactly that value
    ctx.assume("that a rectangle's centre and a path's first-segment midpoint lie inside the shape is value-level; integer ranges are checked conversions")
    ctx.assume("empty polygons/paths are outside the GDSII-representable range the property quantifies over")
