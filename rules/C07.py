"""C07 — raw layout exported to GDSII and imported back is unchanged."""
import re
from analysis import ordering as od
from analysis.mir import Body, callee_name, callee_id
from rules import rawgds as rg
from rules.flowrules import select


def run(ctx):
    F = ctx.F
    from rules import deadrules as _dr
    _dr.rule_parsed_fields_used(ctx, "R07.10", ("layout21raw::gds::",), 10)
    ctx.rule("R07.1e", "raw -> GDSII: every exported field derives from its raw counterpart (x/y and layer/datatype never crossed)")
    ctx.rule("R07.1i", "GDSII -> raw: every imported field derives from its GDSII counterpart")
    rg.run_tables(ctx, "R07.1e", "R07.1i")
    rg.rule_units(ctx, "R07.2")
    rg.rule_units_decision(ctx, "R07.2d")
    rg.rule_closure(ctx, "R07.3")
    rg.rule_required_options(ctx, "R07.11")
    from rules import convrules as cv
    cv.run(ctx, "R07.9", ("layout21raw::gds::",), {"p": 20, "t": 5, "w": 10})
    # nets come back by testing which shapes contain the label point; a polygon must not come back as another shape
    from rules import geomrules as gm
    gm.rule_rect_contains(ctx, "R07.5")
    gm.rule_bbox_contains(ctx, "R07.5b")
    gm.rule_boundary_as_rect(ctx, "R07.6", ctx.tier)
    from rules import boolxfer as bx
    bx.run_table(ctx, "R07.7", bx.GDS_EXPORT + bx.GDS_IMPORT)
    # ---- R07.4b a path's label lies on the path: it is computed from two adjacent vertices (a point of one segment) or validated by contains()
    ctx.rule("R07.4b", "a path's label point is a point of one of its segments: it is computed from two adjacent vertices only (or accepted by the path's own containment test)")
    from analysis.walk import Walker
    ps = [f for f in F.fns.values() if f.id.startswith(rg.PFX) and f.trait and "PlaceLabels" in f.trait and (f.self_ty or {}).get("s", "").endswith("geom::Path")]
    if len(ps) != 1:
        ctx.error("R07.4b", "Path::label_location not found")
    else:
        f = ps[0]
        b = Body(f)
        guarded = [bi for bi, t in b.calls() if re.search(r"ShapeTrait>::contains$", callee_name(t) or "")]
        w = Walker(f, max_visits=1, follow_errors=False, max_paths=2000)
        rets = []
        w.run(on_return=lambda p: rets.append(p.env.get(0)))
        idxs, other = set(), set()

        def scan(t, depth=0):
            if not isinstance(t, tuple) or depth > 30:
                return
            if t and t[0] == "call":
                n = t[1] or ""
                if re.search(r"ops::Index<.*>>::index$", n) and len(t[2]) == 2:
                    ix = t[2][1]
                    if ix[0] == "const" and ix[2] is not None:
                        idxs.add(ix[2])
                    else:
                        other.add("a computed index")
                elif re.search(r"::(first|last|get|iter|len|last_mut|first_mut)$", n):
                    other.add(n.split("::")[-1] + "()")
                for o in t[2]:
                    scan(o, depth + 1)
            elif t and t[0] in ("agg", "op"):
                for o in t[2]:
                    scan(o, depth + 1)
            elif t and t[0] in ("f", "v", "i"):
                if t[0] == "i":
                    (idxs.add(t[2]) if isinstance(t[2], int) and t[2] >= 0 else other.add("a computed index"))
                scan(t[1], depth + 1)
        for r in rets:
            if r is not None and not (r[0] == "agg" and str(r[1]).endswith("::Err")):
                scan(r)
        adjacent = idxs and not other and max(idxs) - min(idxs) <= 1
        if adjacent:
            ctx.ok("R07.4b", f.short, "label computed from vertices %s of the path" % sorted(idxs))
        elif guarded:
            ctx.ok("R07.4b", f.short, "label validated by contains()")
        else:
            ctx.violation("R07.4b", f.short, "%s computes the label from %s: for a path with a bend that point need not lie on the path, and the net name is lost on import" % (
                f.short, ", ".join(sorted(other) + ["vertices %s" % sorted(idxs)] if idxs else sorted(other)) or "no vertex"), "%s:%d" % (f.sp[0], f.sp[1]), f.short)
    # ---- R07.4 polygon label lies inside: every Ok return of Polygon::label_location is guarded by contains()
    ctx.rule("R07.4", "a polygon's label point is only returned after the polygon's own containment test accepted that point")
    fs = [f for f in F.fns.values() if f.id.startswith(rg.PFX) and f.trait and "PlaceLabels" in f.trait and (f.self_ty or {}).get("s", "").endswith("geom::Polygon")]
    if len(fs) != 1:
        ctx.error("R07.4", "Polygon::label_location not found")
    else:
        f = fs[0]
        b = Body(f)
        okb, errb = od.ret_kind_blocks(b)
        conts = [bi for bi, t in b.calls() if re.search(r"ShapeTrait>::contains$|::contains$", callee_name(t) or "") and "geom" in (callee_name(t) or "")]
        ok_blocks = [x for x in okb]
        bad = []
        for ob in ok_blocks:
            guarded = False
            for cb in conts:
                br = od.bool_branches(b, cb)
                if br and b.dominates(br[0], ob):
                    guarded = True
            if not guarded:
                bad.append(ob)
        if not conts:
            ctx.violation("R07.4", f.short, "label location is never tested with contains()", "%s:%d" % (f.sp[0], f.sp[1]))
        elif bad:
            ctx.violation("R07.4", f.short, "a label point can be returned without having passed the containment test (the label may lie outside the shape and name nothing on import)", b.site(bad[0]))
        else:
            ctx.ok("R07.4", f.short, "%d Ok returns, all dominated by a positive contains()" % len(ok_blocks))
    # the exporter's label position is exactly that value
    ctx.assume("that a rectangle's centre and a path's first-segment midpoint lie inside the shape is value-level; integer ranges are checked conversions")
    ctx.assume("empty polygons/paths are outside the GDSII-representable range the property quantifies over")
