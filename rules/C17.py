"""C17 — dependency orderings are complete, duplicate-free and dependencies-first (E7)."""
import re
from analysis.mir import Body, CallGraph, callee_name, callee_id, op_place, op_local, op_const
from analysis import ordering as od
from analysis import ctrl
from analysis.inline import inlined
from rules import orderproto as op_
from analysis.nondet import root_local, receiver_fields


def find_orderers(F, cg):
    """recursive `push`-like functions: members of a call-graph SCC whose self type owns a Vec and a HashSet field,
    and which themselves call Vec::push on a field of self"""
    res = []
    sccs = cg.sccs(F.fns.keys())
    for comp in sccs:
        for fid in comp:
            f = F.fns[fid]
            st = f.self_ty
            if not st or st.get("k") != "adt":
                continue
            adt = F.adts.get(st["id"])
            if not adt:
                continue
            ftys = [fl["ty"]["s"] for fl in adt["variants"][0]["fields"]]
            if not any(re.match(r"std::vec::Vec<", t) for t in ftys) or not any(re.search(r"(Hash|BTree)(Set|Map)<", t) for t in ftys):
                continue
            b = Body(inlined(F, f, same_impl=True))
            pushes = od.field_calls(b, r"Vec::<.*>::push$")
            if pushes:
                res.append((f, b, set(comp)))
    return res


def run(ctx, only=None, floors=True, clients=None):
    """`only`: predicate on the orderer function — used by properties that depend on one particular orderer
    (C06: GDSII structures, C09: placement, C14: raw cells, C19: gridded cells); `clients`: predicate on the `process`
    implementations of the generic orderer that belong to that property"""
    F = ctx.F
    cg = CallGraph(F)
    ctx.rule("R17.1", "recursive orderer shape: pending-set cycle guard around the descent, seen-set test first, output push after all descents, exactly once")
    ctx.rule("R17.2", "order() pushes every input item")
    ctx.rule("R17.3", "DepOrder clients push every dependency")
    ctx.rule("R17.4", "dangling references are errors, not unwraps")
    ctx.rule("R17.5", "whether an item's dependencies are visited depends only on the seen/pending protocol, error propagation and the place the dependencies are stored in (no other field can switch the descent off)")
    orderers = find_orderers(F, cg)
    if floors:
        ctx.floor("R17.1", "recursive_orderers", len(orderers), 3)
    if only is not None:
        orderers = [o for o in orderers if only(o[0])]
        if not orderers:
            ctx.error("R17.1", "the orderer this property depends on was not found")
    names = []
    for f, b, comp in orderers:
        names.append(f.short)
        key = f.short
        site = "%s:%d" % (f.sp[0], f.sp[1])
        pushes = od.field_calls(b, r"Vec::<.*>::push$")
        contains = od.field_calls(b, r"HashSet::<.*>::contains$")
        inserts = od.field_calls(b, r"HashSet::<.*>::insert$")
        removes = od.field_calls(b, r"HashSet::<.*>::remove$")
        descents = [(bi, t) for bi, t in b.calls() if callee_id(t) in comp or
                    any(g in comp for g in cg.edges.get(f.id, ()) if False)]
        # unresolved trait calls (P::process): callee id is the trait item; treat as descent if any impl is in comp
        for bi, t in b.calls():
            cid = callee_id(t)
            if cid in comp:
                continue
            impls = [g.id for g in F.fns.values() if g.trait_item == cid]
            if any(g in comp for g in impls):
                descents.append((bi, t))
        # a descent made from a closure handed to an adapter (`insts.iter().try_for_each(|i| self.push(&i.cell))`):
        # the adapter call stands for the descent
        for cf, abb, an in od.closure_calls(F, f):
            if abb in [d[0] for d in descents]:
                continue
            if any(callee_id(u) in comp for _, u in Body(cf).calls()):
                descents.append((abb, b.term(abb)))
        if not descents:
            ctx.error("R17.1", "%s: no recursive descent found" % key)
            continue
        push_bbs = [p[0] for p in pushes]
        desc_bbs = [d[0] for d in descents]
        # ---- the visit protocol, read independently of its representation (two sets, one state map, insert-as-test)
        tests, marks, releases = op_.membership_ops(F, b)
        seen_key = None
        pend_key = None
        for k in sorted({t_["key"] for t_ in tests}, key=str):
            ms = [m for m in marks if m["key"] == k]
            if not ms:
                continue
            if any(all(b.dominates(m["bb"], d) for d in desc_bbs) for m in ms):
                pend_key = k
            else:
                seen_key = k
        # (ii) seen test first
        if seen_key is None:
            ctx.violation("R17.1", key + "/seen", "%s: no seen-set (tested with contains, inserted after the descent) found" % key, site)
        else:
            c = [t_ for t_ in tests if t_["key"] == seen_key][0]
            ok = c["present"] is not None
            if ok:
                ok = all(b.dominates(c["call"], x) for x in push_bbs + desc_bbs)
                # the "already ordered" branch reaches the return without push / descent
                ok = ok and not (od.reach(b, c["present"]) & set(push_bbs + desc_bbs))
            if ok:
                ctx.ok("R17.1", key + "/seen-first", "test of %s guards descent and push" % op_.fmt_key(seen_key))
            else:
                ctx.violation("R17.1", key + "/seen-first", "%s: the seen-set test does not dominate every descent and push (duplicates possible)" % key, b.site(c["call"]))
            ins = [m for m in marks if m["key"] == seen_key]
            if not all(not (od.reach(b, i["bb"]) & set(desc_bbs)) for i in ins):
                ctx.violation("R17.1", key + "/seen-after", "%s: item is marked seen before its dependencies are descended into (a cycle yields an ordering instead of an error)" % key, b.site(ins[0]["bb"]))
            else:
                ctx.ok("R17.1", key + "/seen-after", "seen mark after all descents")
        # (iii) dependencies first: no descent reachable after the push; push not in a loop
        bad = False
        for pb in push_bbs:
            if od.reach(b, pb) & set(desc_bbs) - {pb}:
                bad = True
            for header, blocks in b.loops():
                if pb in blocks:
                    bad = True
        if bad:
            ctx.violation("R17.1", key + "/deps-first", "%s: the item is pushed to the output before (or while) its dependencies are visited" % key, b.site(push_bbs[0]))
        else:
            ctx.ok("R17.1", key + "/deps-first", "no descent reachable after the output push")
        # (iv) exactly one push per non-seen path
        if len(push_bbs) != 1:
            ctx.violation("R17.1", key + "/one-push", "%s: %d output pushes" % (key, len(push_bbs)), site)
        elif seen_key is not None:
            c = [t_ for t_ in tests if t_["key"] == seen_key][0]
            if c["present"] is not None and c["sw"] is not None:
                # every normal return is reached either over the "already seen" edge or after the push: an early
                # `return Ok` anywhere else (before the seen test, or on the not-seen side) leaves an item out
                bypass = od.normal_exit_reachable(b, 0, blocks_removed=push_bbs, edges_removed=[(c["sw"], c["present"])])
                if bypass:
                    ctx.violation("R17.1", key + "/one-push", "%s: an item that is not in the seen-set can return normally without being pushed (incomplete ordering)" % key, site)
                else:
                    ctx.ok("R17.1", key + "/one-push", "every normal return is either the already-seen edge or follows the single push")
        # (i) pending-set cycle guard
        if pend_key is None:
            ctx.violation("R17.1", key + "/cycle-guard", "%s has no pending-set: a cyclic (or self-referential) dependency graph recurses without bound instead of returning an error" % key, site)
        else:
            c = [t_ for t_ in tests if t_["key"] == pend_key]
            ins = [m for m in marks if m["key"] == pend_key]
            rel = [r_ for r_ in releases if r_["field"] == pend_key[0] and (r_["to"] is None or r_["to"] != pend_key[1])]
            ok = bool(c) and bool(ins) and bool(rel)
            why = []
            if not c:
                why.append("pending set never tested")
            if c:
                c0 = c[0]
                if c0["present"] is None:
                    ok = False
                    why.append("pending test result unused")
                else:
                    tr = c0["present"]
                    if od.reach(b, tr) & set(desc_bbs + push_bbs):
                        ok = False
                        why.append("pending item still descends/pushes")
                    okb, errb = od.ret_kind_blocks(b)
                    if od.reach(b, tr, removed=errb) & okb:
                        ok = False
                        why.append("pending item returns Ok instead of an error")
                    if not all(b.dominates(c0["call"], d) for d in desc_bbs):
                        ok = False
                        why.append("pending test does not dominate the descent")
            if rel and not any(all(b.dominates(r0["bb"], pb) or r0["bb"] == pb for pb in push_bbs) for r0 in rel):
                ok = False
                why.append("pending removal does not precede the push")
            if not rel:
                why.append("pending set never released (a shared dependency would be reported as a cycle)")
            if ok:
                ctx.ok("R17.1", key + "/cycle-guard", "pending(%s): test -> error, mark -> descent -> release -> push" % op_.fmt_key(pend_key))
            else:
                ctx.violation("R17.1", key + "/cycle-guard", "%s: cycle guard malformed: %s" % (key, "; ".join(why)), site)
        # R17.5 descent purity
        proto_fields = {t_["key"][0] for t_ in tests} | {m["key"][0] for m in marks}
        for bi, t in descents:
            sl = ctrl.slice_paths(b, t["args"])
            bad = []
            for sw in sorted(ctrl.controlling_switches(b, bi)):
                c = ctrl.classify_switch(b, sw)
                if c[0] in ("try", "next"):
                    continue
                if c[0] == "call" and op_.PROTOCOL_CALL.search(c[1]) and c[2] and c[2][0] == ("arg", 1):
                    continue
                if c[0] == "callres" and op_.PROTOCOL_CALL.search(c[1] or ""):
                    continue
                if c[0] in ("callres", "discr", "value") and c[-1][0] == ("arg", 1) and any(tuple(x for x in ctrl._strip(c[-1][1]) if not str(x).startswith("["))[:len(pf)] == tuple(pf) for pf in proto_fields):
                    # the state stored for the item in the protocol's own container (`match self.visits.get(item)`)
                    continue
                if c[0] in ("discr", "callres", "value") and any(ctrl.prefix_compatible(c[-1], q) for q in sl):
                    continue
                if c[0] == "call" and re.search(r"::(is_some|is_none|is_empty|is_ok|is_err)$", c[1]) and c[2] and any(ctrl.prefix_compatible(c[2], q) for q in sl):
                    continue
                what = ctrl.fmt_path(c[-1]) if c[0] in ("discr", "callres", "value") else (c[1].split("::")[-1] + "(" + ", ".join(ctrl.fmt_path(a) for a in c[3]) + ")" if c[0] == "call" else str(c[1:]))
                bad.append((sw, what))
            if bad:
                ctx.violation("R17.5", key + "/descent-purity", "%s: whether dependencies are visited is decided by %s, which is not where the dependencies are stored (%s): items can be ordered before what they depend on" % (
                    key, ", ".join(w for s_, w in bad), ", ".join(sorted({ctrl.fmt_path(q) for q in sl if q[1]}))[:200]), b.site(bad[0][0]))
            else:
                ctx.ok("R17.5", key + "/descent-purity@%s" % ".".join(str(x) for x in receiver_fields(b, t["args"][0]) or ()), "descent controlled only by protocol, errors and the dependency container")
        # R17.4 dangling lookups
        for bi, t in b.calls():
            n = callee_name(t) or ""
            if re.search(r"Option::<.*>::(unwrap|expect)$", n) and t["args"]:
                src = b.def_call(t["args"][0])
                if src is not None and re.search(r"(HashMap|BTreeMap)::<.*>::get$", callee_name(src) or ""):
                    ctx.violation("R17.4", key + "/dangling-unwrap", "%s unwraps a by-name lookup: a reference to an undefined item panics instead of returning an error" % key, b.site(bi))
    ctx.count("orderers", names)

    # ---- R17.2: callers of orderer push outside the SCC ('order' functions) push every item of their input
    n_order = 0
    seen_entry = set()
    for f, b0, comp in orderers:
        for g in F.fns.values():
            if g.id in comp or g.impl != f.impl:
                continue
            gb = Body(g)
            if not any(callee_id(t) == f.id for bi, t in gb.calls()):
                continue
            # a closure that pushes (`items.iter().try_for_each(|i| this.push(i))`) belongs to the function that creates it
            outer = g
            while outer.kind == "Closure":
                pid = re.sub(r"::\{closure#\d+\}$", "", outer.id)
                if pid == outer.id or pid not in F.fns:
                    break
                outer = F.fns[pid]
            if (outer.id, f.id) in seen_entry:
                continue
            seen_entry.add((outer.id, f.id))
            n_order += 1
            key = outer.short
            g = outer
            why = []
            loops = od.every_item_handled(F, outer, lambda t, fid=f.id: callee_id(t) == fid, why)
            ok = bool(loops) and all(o for h, o in loops)
            if ok:
                ctx.ok("R17.2", key, "every iteration of the input loop calls push")
            else:
                ctx.violation("R17.2", key, "%s does not push every input item: %s" % (key, "; ".join(why) or "no input loop around push"), "%s:%d" % (g.sp[0], g.sp[1]))
    if floors:
        ctx.floor("R17.2", "order_entry_functions", n_order, 3)

    # ---- R17.6 an ordering is computed from the graph as it is at the call: wrappers that hand out an order do not cache it
    ctx.rule("R17.6", "every function that returns a dependency order obtains it from the orderer on that very call: no normal return bypasses the ordering call (cells are shared pointers, so the graph can change without any count changing)")
    entries = {}
    for f, b0, comp in orderers:
        for g in F.fns.values():
            if g.id in comp or g.impl != f.impl:
                continue
            if any(callee_id(t) == f.id for bi, t in Body(g).calls()):
                entries[g.id] = g
    n_wrap = 0
    for w in F.fns.values():
        if w.id in entries or w.kind == "Closure" or not w.id.startswith(("layout21", "gds21", "lef21")):
            continue
        wb = Body(w)
        calls = [bi for bi, t in wb.calls() if callee_id(t) in entries and (entries[callee_id(t)].output or {}).get("s") == (w.output or {}).get("s")]
        if not calls:
            continue
        n_wrap += 1
        key = w.short
        if od.normal_exit_reachable(wb, 0, blocks_removed=calls):
            ctx.violation("R17.6", key, "%s can return an ordering without asking the orderer (a remembered result): after the graph is edited through its shared cell pointers the returned order no longer has dependencies first, and a cycle closed in the meantime is not reported" % key, "%s:%d" % (w.sp[0], w.sp[1]), key)
        else:
            ctx.ok("R17.6", key, "every normal return follows the ordering call")
    ctx.count("order_wrappers", n_wrap)

    # ---- R17.7 the order handed out is the stack the pushes built
    ctx.rule("R17.7", "the function that runs the orderer returns the stack exactly as the pushes built it: no retain / truncate / dedup / remove / sort / reverse between the last push and the return (reachable dependencies that were not listed belong to the order; re-sorting destroys dependencies-first)")
    n_ent = 0
    MUTATE = re.compile(r"Vec::<.*>::(retain|retain_mut|truncate|dedup\w*|drain|remove|pop|swap_remove|clear|split_off|insert)$|slice::<impl \[T\]>::(sort\w*|reverse|swap|rotate_\w+|select_nth\w*)$|::(sort|sort_by|sort_by_key|sort_unstable\w*|reverse)$")
    for gid, g in sorted(entries.items()):
        if g.kind == "Closure":
            continue
        gb = Body(g)
        n_ent += 1
        hits = [(bi, callee_name(t)) for bi, t in gb.calls() if MUTATE.search(callee_name(t) or "")]
        key = g.short
        if hits:
            ctx.violation("R17.7", key, "%s alters the ordered stack with %s after the pushes: items that were ordered are dropped or moved (a dependency that was reachable but not listed disappears from the order; a re-sort breaks dependencies-first)" % (g.short, ", ".join(sorted({h[1].split("::")[-1] for h in hits}))), gb.site(hits[0][0]), key)
        else:
            ctx.ok("R17.7", key, "stack returned as built")
    if floors:
        ctx.floor("R17.7", "order_entry_functions_scanned", n_ent, 3)

    # ---- R17.3 clients push every dependency
    n_proc = 0
    generic = only is None or any(f.id.startswith("layout21utils::") for f, _, _ in orderers)
    for g in F.fns.values():
        if not generic or not g.trait_item or not g.trait_item.endswith("dep_order::DepOrder::process"):
            continue
        if clients is not None and not clients(g):
            continue
        n_proc += 1
        gb = Body(g)
        tyname = (g.self_ty or {}).get("s", "?").split("::")[-1]
        key = "process[%s]" % tyname
        site = "%s:%d" % (g.sp[0], g.sp[1])
        # helpers (and closures) of the same crate that push on behalf of `process`
        crate = g.id.split("::")[0]
        reach_memo = {}

        def reaches_push(fid, depth=0):
            if fid in reach_memo:
                return reach_memo[fid]
            reach_memo[fid] = False
            h = F.fns.get(fid)
            if h is None or not h.body or depth > 3 or not fid.startswith(crate + "::"):
                return False
            r = False
            for bi2, t2 in Body(h).calls():
                if re.search(r"DepOrderer::<.*>::push$", callee_name(t2) or "") or reaches_push(callee_id(t2), depth + 1):
                    r = True
            for cf, abb, an in od.closure_calls(F, h):
                if reaches_push(cf.id, depth + 1):
                    r = True
            reach_memo[fid] = r
            return r
        is_push = lambda t: bool(re.search(r"DepOrderer::<.*>::push$", callee_name(t) or "")) or (callee_id(t) != g.id and reaches_push(callee_id(t)))
        pcs = [bi for bi, t in gb.calls() if is_push(t)]
        pcs += [abb for cf, abb, an in od.closure_calls(F, g) if reaches_push(cf.id) and abb not in pcs]
        if not pcs:
            ctx.violation("R17.3", key, "%s never pushes a dependency" % key, site)
            continue
        # item type: if it is an enum matched in the body, every variant arm must contain a push
        item_ty = g.inputs[0]
        while item_ty.get("k") == "ref":
            item_ty = item_ty["to"]
        if item_ty.get("k") == "adt" and item_ty["id"] in F.enums and item_ty["id"] in F.adts:
            sws = od.enum_switches(F, gb, item_ty["id"])
            allv = [v["name"] for v in F.adts[item_ty["id"]]["variants"]]
            covered = set()
            for bi, arms, other, eid in sws:
                for v, tgt in arms.items():
                    if od.region(gb, tgt) & set(pcs):
                        covered.add(v)
                    elif not od.normal_exit_reachable(gb, tgt, blocks_removed=pcs):
                        # the arm computes the dependency and the push follows the match: every normal way out of the
                        # arm passes a push
                        covered.add(v)
            missing = [v for v in allv if v not in covered]
            if not sws:
                ctx.error("R17.3", "%s: no match on item enum found" % key)
            for v in allv:
                if v in covered:
                    ctx.ok("R17.3", "%s/%s" % (key, v), "arm pushes its dependency")
                else:
                    ctx.violation("R17.3", "%s/%s" % (key, v), "%s: variant %s never pushes its dependency: items of that kind may be ordered before what they depend on" % (key, v), site)
        # R17.5 for clients: whether a dependency is pushed may depend only on where the dependencies are stored
        for pc in pcs:
            tt = gb.term(pc)
            sl = ctrl.slice_paths(gb, tt["args"])
            badp = []
            for sw in sorted(ctrl.controlling_switches(gb, pc)):
                c = ctrl.classify_switch(gb, sw)
                if c[0] in ("try", "next"):
                    continue
                if c[0] in ("discr", "callres", "value") and any(ctrl.prefix_compatible(c[-1], q) for q in sl):
                    continue
                if c[0] == "call" and re.search(r"::(is_some|is_none|is_empty|is_ok|is_err)$", c[1]) and c[2] and any(ctrl.prefix_compatible(c[2], q) for q in sl):
                    continue
                badp.append(ctrl.fmt_path(c[-1]) if c[0] in ("discr", "callres", "value") else (c[1].split("::")[-1] + "(" + ", ".join(ctrl.fmt_path(a) for a in c[3]) + ")" if c[0] == "call" else str(c[1:])))
            if badp:
                ctx.violation("R17.5", key + "/push-purity", "%s: whether a dependency is pushed is decided by %s, which is not where the dependencies are stored: items of that kind can be ordered before what they depend on" % (key, ", ".join(sorted(set(badp)))), gb.site(pc), key + "/push-purity")
            else:
                ctx.ok("R17.5", key + "/push-purity@%d" % pcs.index(pc), "push controlled only by errors, loops and the dependency container")
        loops = od.loop_iterations_all_call(gb, pcs)
        for header, ok in loops:
            if ok:
                ctx.ok("R17.3", "%s/loop" % key, "every iteration pushes")
            else:
                ctx.violation("R17.3", "%s/loop" % key, "%s: an iteration of the dependency loop can skip the push" % key, gb.site(header))
        if not loops and not (item_ty.get("k") == "adt" and item_ty["id"] in F.enums):
            # the loop may live in a helper / closure that pushes on behalf of `process`
            delegated = []
            for pc in pcs:
                h = F.fns.get(callee_id(gb.term(pc)))
                if h is not None and not re.search(r"DepOrderer::<.*>::push$", callee_name(gb.term(pc)) or ""):
                    why2 = []
                    hl = od.every_item_handled(F, h, lambda t: bool(re.search(r"DepOrderer::<.*>::push$", callee_name(t) or "")), why2)
                    delegated.append((h, bool(hl) and all(o for _, o in hl), why2))
            hl0 = od.every_item_handled(F, g, lambda t: bool(re.search(r"DepOrderer::<.*>::push$", callee_name(t) or "")))
            if delegated and all(o for _, o, _ in delegated):
                ctx.ok("R17.3", "%s/loop" % key, "every iteration pushes (loop in %s)" % ", ".join(h.short for h, _, _ in delegated))
            elif hl0 and all(o for _, o in hl0):
                ctx.ok("R17.3", "%s/loop" % key, "every item pushed through an iterator adapter")
            elif delegated:
                ctx.violation("R17.3", "%s/loop" % key, "%s: the helper that pushes the dependencies can skip one (%s)" % (key, "; ".join(w for _, _, ws in delegated for w in ws)), site)
            else:
                ctx.violation("R17.3", "%s/shape" % key, "%s: push is neither in a loop over dependencies nor per variant" % key, site)
    if floors:
        ctx.floor("R17.3", "DepOrder_process_impls", n_proc, 2)
    # the embedded orderers: every iteration of their dependency loops descends; the GDSII orderer descends for both
    # referencing element kinds (SREF, AREF — the only GDSII elements that name another structure)
    for f, b, comp in orderers:
        if f.id.startswith("layout21utils::"):
            continue
        key = f.short
        desc = [bi for bi, t in b.calls() if callee_id(t) in comp]
        sws = od.enum_switches(F, b, "gds21::data::GdsElement")
        if sws:
            for v in ("GdsStructRef", "GdsArrayRef"):
                ok = any(v in arms and (od.region(b, arms[v]) & set(desc)) for bi, arms, other, eid in sws)
                if ok:
                    ctx.ok("R17.3", "%s/%s" % (key, v), "arm descends into the referenced structure")
                else:
                    ctx.violation("R17.3", "%s/%s" % (key, v), "%s: %s elements are not followed: the referenced structure may be ordered after its user" % (key, v), "%s:%d" % (f.sp[0], f.sp[1]))
        else:
            loops = od.loop_iterations_all_call(b, desc)
            if not loops:
                loops = od.every_item_handled(F, f, lambda t, comp=comp: callee_id(t) in comp)
            if not loops:
                ctx.error("R17.3", "%s: no dependency loop found" % key)
            for header, ok in loops:
                if ok:
                    ctx.ok("R17.3", "%s/loop" % key, "every iteration descends")
                else:
                    ctx.violation("R17.3", "%s/loop" % key, "%s: an iteration of the instance loop can skip the descent" % key, b.site(header) if isinstance(header, int) else "%s:%d" % (f.sp[0], f.sp[1]))
    ctx.assume("std HashSet/Vec behave as documented; lock poisoning unwraps are not input-dependent")
