"""Rules every model-to-model converter must obey (GDSII / protobuf / LEF / gridded converters): conversion is TOTAL.

  RC.1 step purity      whether a conversion step runs depends only on the data that step converts (its own Option /
                        container), on loops and on error propagation - not on a sibling field
  RC.2 loop totality    an iteration of a conversion loop stores its item; an iteration may skip the store only on a
                        kind / Option dispatch (a `match` on the item or on the conversion's own result)
  RC.3 whole sources    a conversion loop / collect runs over the whole source collection: no sub-slice, skip, take,
                        filter or early-stopping adapter between the container and the loop
  RC.4 errors surface   a `Result` produced in a converter is never turned into "nothing": no `.ok()`, no
                        `unwrap_or*` on a Result, no `flatten` / `flat_map` / `filter_map` over Results

Exceptions confirmed by reading are listed in rules/audit/conv.json with one reason each, keyed by function and the
deciding test (no line numbers, no local names).
"""
import json, os, re
from analysis import ctrl, ordering as od
from analysis.mir import Body, callee_name, callee_id, op_local, op_place

AUDIT = json.load(open(os.path.join(os.path.dirname(__file__), "audit", "conv.json")))["entries"]
STEP = re.compile(r"::(import|export|convert)_\w+$")
STORE = re.compile(r"Vec::<.*>::push$|Extend<.*>>?::extend$|(HashMap|BTreeMap|SlotMap|HashSet|BTreeSet)::<.*>::insert$|::extend_from_slice$|Entry::<.*>::or_insert\w*$|Entry<.*>::or_insert\w*$|VacantEntry::<.*>::insert$|VacantEntry<.*>::insert$")
MEMBER = re.compile(r"(HashMap|BTreeMap|HashSet|BTreeSet|SlotMap)::<.*>::(contains_key|contains|get|get_mut|entry|insert|remove)$|Entry::<|Entry<")
NEXT = re.compile(r"Iterator>?::next$|Iterator for .*>::next$")
ADAPTER = re.compile(r"Iterator>?::(map|for_each|try_for_each|filter_map|flat_map|fold|try_fold|collect|inspect)$|FromIterator<.*>>?::from_iter$|Extend<.*>>?::extend$")


def _norm(ap):
    """access path as text without local numbers"""
    r, f = ap
    base = "arg%d" % r[1] if r[0] == "arg" else ("%s(..)" % r[1].split("::")[-1] if r[0] == "call" else "local")
    return base + "".join("." + x if not x.startswith("[") else x for x in ctrl._strip(f))


def _describe(c):
    if c[0] in ("discr", "callres", "value"):
        return "%s:%s" % (c[0], _norm(c[-1]))
    if c[0] == "call":
        return "call:%s(%s)" % (c[1].split("::")[-1], ",".join(_norm(a) for a in c[3]))
    if c[0] == "cmp":
        return "cmp:%s(%s)" % (c[1], ",".join(_norm(a) for a in c[2]))
    return "other:%s" % re.sub(r"_\d+", "local", str(c[1]))


def _subject(c):
    """what a classified test looks at, without how the test is spelled (`if let Some(x) = a.b`, `a.b.is_some()` and
    `match a.b { None => .. }` all give `arg2.b`): audit keys use this, messages use _describe"""
    if c[0] in ("discr", "callres", "value"):
        return "on:" + _norm(c[-1])
    if c[0] == "call":
        ps = sorted({_norm(a) for a in c[3]}) or ["-"]
        return "on:" + ",".join(ps)
    if c[0] == "cmp":
        return "on:" + ",".join(sorted({_norm(a) for a in c[2]}))
    return "on:" + re.sub(r"_\d+", "local", str(c[1]))


def _fns(F, mods, skip=()):
    for f in F.fns.values():
        if f.id.startswith(mods) and f.body and not f.derived and not any(s in f.id for s in skip):
            yield f


def _closure_steps(F, f, b, depth=0):
    """adapter call blocks of `f` whose closure (transitively) calls a conversion step"""
    out = []
    for cf, abb, an in od.closure_calls(F, f):
        cb = Body(cf)
        if any(STEP.search(callee_name(t) or "") for bi, t in cb.calls()) or (depth < 2 and _closure_steps(F, cf, cb, depth + 1)):
            out.append((abb, an, cf))
    return out


def _self_state(c):
    """is the receiver of the classified call a field of the converter itself (parameter 1)?"""
    ap = c[2] if c[0] == "call" else c[-1]
    return bool(ap) and ap[0] == ("arg", 1)


def rule_step_purity(ctx, rid, mods, floor=None):
    F = ctx.F
    ctx.rule(rid, "whether a conversion step (a call to an import_* / export_* function, or an iterator chain that makes such calls) runs depends only on the data it converts, on loops and on error propagation: never on a sibling field")
    n = 0
    for f in _fns(F, mods):
        b = Body(f)
        sites = []
        for bi, t in b.calls():
            nm = callee_name(t) or ""
            if STEP.search(nm) and (callee_id(t) or "").startswith(mods) and len(t["args"]) >= 2:
                sites.append((bi, nm.split("::")[-1], t["args"][1:]))
        for abb, an, cf in _closure_steps(F, f, b):
            t = b.term(abb)
            sites.append((abb, an.split("::")[-1] + "{" + "|".join(sorted({(callee_name(u) or "").split("::")[-1] for _, u in Body(cf).calls() if STEP.search(callee_name(u) or "")})) + "}", t["args"][:1]))
        for bi, what, args in sites:
            n += 1
            sl = ctrl.slice_paths(b, args)
            bad = []
            for sw in sorted(ctrl.controlling_switches(b, bi)):
                c = ctrl.classify_switch(b, sw)
                if c[0] in ("try", "next"):
                    continue
                if c[0] in ("discr", "callres", "value") and any(ctrl.prefix_compatible(c[-1], q) for q in sl):
                    continue
                if c[0] == "call" and c[2] and re.search(r"::(is_some|is_none|is_empty|is_ok|is_err|len)$", c[1]) and any(ctrl.prefix_compatible(c[2], q) for q in sl):
                    continue
                if c[0] in ("call", "callres") and MEMBER.search(c[1] or "") and _self_state(c):
                    # import-once / group-by: a membership test on a map or set the converter itself keeps
                    continue
                bad.append((_subject(c), _describe(c)))
            for subj, d in sorted(set(bad)):
                key = "%s/%s/%s" % (f.short, what, subj)
                if key in AUDIT.get(rid_class(rid), {}):
                    ctx.ok(rid, key, "audited: " + AUDIT[rid_class(rid)][key])
                else:
                    ctx.violation(rid, key, "%s: whether %s runs is decided by %s, which is not the data it converts (%s): for some combination of fields a part of the model is silently left out" % (
                        f.short, what, d, ", ".join(sorted({ctrl.fmt_path(q) for q in sl if q[1]}))[:160] or "no payload"), b.site(bi), key)
            if not bad:
                ctx.ok(rid, "%s/%s" % (f.short, what), "controlled only by its own data / loops / errors")
    if floor:
        ctx.floor(rid, "conversion_steps", n, floor)


def rid_class(rid):
    """audit section of a rule id: R14.7p -> 'purity' etc. (suffix letter)"""
    return {"p": "purity", "t": "totality", "w": "whole", "e": "errors"}.get(rid[-1], rid)


def _loops_with_direct_stores(b):
    loops = b.loops()
    stores = [bi for bi, t in b.calls() if STORE.search(callee_name(t) or "")]
    for header, blocks in loops:
        inner = set()
        for h2, blk in loops:
            if h2 != header and blk < blocks:
                inner |= blk
        direct = [p for p in stores if p in blocks and p not in inner]
        if direct:
            yield header, blocks, [p for p in stores if p in blocks]


def skip_deciders(b, header, blocks, stores):
    """switches inside the loop from which one in-loop successor can get back to the header without a store and another cannot"""
    out = []
    nexts = [x for x in blocks if b.term(x)["k"] == "call" and NEXT.search(callee_name(b.term(x)) or "")]
    for x in nexts:
        arms = od.next_arms(b, x)
        if arms is None or arms[0] in blocks:
            continue
        r = od.reach(b, arms[1], removed=set(stores)) & blocks
        back = {p for p in b.preds[header] if p in r}
        if not back:
            continue
        can = {y for y in r if y in back or (od.reach(b, y, removed=set(stores) | {header}) & back)}
        for y in sorted(r):
            if b.term(y)["k"] != "switch":
                continue
            succ = [s for s in b.succs[y] if s in blocks]
            if any(s in can for s in succ) and any(s not in can for s in succ):
                out.append(y)
    return out


def rule_loop_totality(ctx, rid, mods, floor=None):
    F = ctx.F
    ctx.rule(rid, "every iteration of a conversion loop stores its item; an iteration skips the store only on a kind / Option dispatch (on the item or on the conversion's own result), never on a comparison, a lookup in what was stored before, or a flag")
    n = 0
    for f in _fns(F, mods):
        b = Body(f)
        for header, blocks, stores in _loops_with_direct_stores(b):
            n += 1
            bad = []
            for sw in skip_deciders(b, header, blocks, stores):
                c = ctrl.classify_switch(b, sw)
                if c[0] in ("try", "next", "discr"):
                    continue
                if c[0] == "callres" and STEP.search(c[1] or ""):
                    continue
                bad.append((sw, _describe(c), _subject(c)))
            for sw, d, subj in bad:
                key = "%s/%s" % (f.short, subj)
                if key in AUDIT.get("totality", {}):
                    ctx.ok(rid, key, "audited: " + AUDIT["totality"][key])
                else:
                    ctx.violation(rid, key, "%s: an iteration of the conversion loop can skip storing its item, decided by %s: some items of the source are silently dropped" % (f.short, d), b.site(sw), key)
            if not bad:
                ctx.ok(rid, "%s/loop@%s" % (f.short, _loop_id(b, header)), "every iteration stores, or skips on a kind/Option dispatch only")
    if floor:
        ctx.floor(rid, "conversion_loops", n, floor)


def _loop_id(b, header):
    return str(sorted(h for h, _ in b.loops()).index(header))


WHOLE = re.compile(r"Iterator>?::(map|cloned|copied|enumerate|rev|chain|flat_map|flatten|inspect|peekable|by_ref|zip|collect|sorted\w*)$|IntoIterator>?::into_iter$|::(iter|iter_mut|into_iter|values|values_mut|keys|drain|into_values|into_keys|to_vec|clone|to_owned|as_ref|as_slice|as_mut_slice|borrow|read|write|unwrap|deref|deref_mut)$|Deref(Mut)?>?::deref(_mut)?$|AsRef<.*>>?::as_ref$|FromIterator<.*>>?::from_iter$|Try>::branch$|::sort\w*$|Vec::<.*>::(new|with_capacity)$|::from$|::into$")
PARTIAL = re.compile(r"Iterator>?::(skip|take|step_by|skip_while|take_while|filter|filter_map|map_while|nth|last|find|find_map|position|next_back|min\w*|max\w*)$|Index(Mut)?<.*>>?::index(_mut)?$|::(split_\w+|chunks\w*|windows|truncate|pop|remove|swap_remove|retain|dedup\w*|split_off)$")


def _op_ty(b, o):
    p = op_place(o)
    if p is not None and not p["p"]:
        return (b.locals[p["l"]]["ty"] or {}).get("s", "")
    c = (o or {}).get("c") or {}
    return ((c.get("ty") or {}).get("s", "")) if isinstance(c.get("ty"), dict) else ""


def whole_source(b, o, depth=0, seen=None):
    """does the iterator / collection operand cover its source collection completely?  (ok, reason)"""
    seen = seen if seen is not None else set()
    if depth > 25:
        return True, ""
    o = b.resolve_copy(o)
    p = op_place(o)
    if p is None:
        return True, ""
    l = p["l"]
    if any(isinstance(e, dict) and ("sub" in e) for e in p["p"]):
        return False, "a sub-slice pattern"
    if 1 <= l <= b.argc or l in seen:
        return True, ""
    seen.add(l)
    for d in b.defs.get(l, []):
        if d[2] == "call":
            t = d[3]
            if t["dest"]["p"]:
                continue
            n = callee_name(t) or ""
            if PARTIAL.search(n) and t["args"]:
                # index by a range = sub-slice; index by a number = one element (not a collection source)
                if re.search(r"Index", n) and len(t["args"]) > 1:
                    ity = _op_ty(b, t["args"][1])
                    if "Range" not in ity or "RangeFull" in ity:
                        continue        # one element, or `v[..]` = the whole slice
                return False, "%s" % n.split("::")[-1]
            if WHOLE.search(n) and t["args"]:
                for a in (t["args"][:2] if re.search(r"::(chain|zip)$", n) else t["args"][:1]):
                    ok, why = whole_source(b, a, depth + 1, seen)
                    if not ok:
                        return ok, why
        elif d[2] == "assign":
            st = d[3]
            if st["p"]["p"]:
                continue
            rv = st["rv"]
            if rv["k"] in ("ref", "rawptr"):
                q = rv["p"]
                if any(isinstance(e, dict) and "sub" in e for e in q["p"]):
                    return False, "a sub-slice pattern"
                ok, why = whole_source(b, {"cp": {"l": q["l"], "p": []}}, depth + 1, seen)
                if not ok:
                    return ok, why
            elif rv["k"] in ("use", "cast"):
                ok, why = whole_source(b, rv["o"], depth + 1, seen)
                if not ok:
                    return ok, why
    return True, ""


def rule_whole_sources(ctx, rid, mods, floor=None):
    F = ctx.F
    ctx.rule(rid, "conversion loops and collecting iterator chains run over the whole source collection: no sub-slice, skip, take, filter or early-stopping adapter between the container and the loop")
    n = 0
    for f in _fns(F, mods):
        b = Body(f)
        sites = []
        # native loops that store
        for header, blocks, stores in _loops_with_direct_stores(b):
            for x in blocks:
                t = b.term(x)
                if t["k"] == "call" and NEXT.search(callee_name(t) or "") and t["args"]:
                    arms = od.next_arms(b, x)
                    if arms is not None and arms[0] not in blocks:
                        sites.append((x, "loop", t["args"][0]))
        # collecting chains / closure loops that convert
        for bi, t in b.calls():
            nm = callee_name(t) or ""
            if re.search(r"Iterator>?::(collect|for_each|try_for_each)$|FromIterator<.*>>?::from_iter$", nm) and t["args"]:
                sites.append((bi, nm.split("::")[-1], t["args"][0]))
            elif re.search(r"Extend<.*>>?::extend$|::extend_from_slice$", nm) and len(t["args"]) > 1:
                sites.append((bi, "extend", t["args"][1]))
        for bi, what, o in sites:
            n += 1
            ok, why = whole_source(b, o)
            key = "%s/%s/%s" % (f.short, what, why)
            if ok:
                ctx.ok(rid, "%s/%s@%d" % (f.short, what, n), "whole source")
            elif key in AUDIT.get("whole", {}):
                ctx.ok(rid, key, "audited: " + AUDIT["whole"][key])
            else:
                ctx.violation(rid, key, "%s: a conversion %s does not run over its whole source: the items pass through %s first, so part of the source never reaches the output" % (f.short, what, why), b.site(bi), key)
    if floor:
        ctx.floor(rid, "conversion_sources", n, floor)


def rule_errors_surface(ctx, rid, mods, floor=None):
    F = ctx.F
    ctx.rule(rid, "a Result produced inside a converter is never turned into nothing: no Result::ok / unwrap_or* / unwrap_or_default on a Result, and no flatten / flat_map / filter_map whose items are Results (they silently drop every Err)")
    n = 0
    for f in _fns(F, mods):
        b = Body(f)
        for bi, t in b.calls():
            nm = callee_name(t) or ""
            n += 1
            bad = None
            if re.search(r"Result::<.*>::(ok|unwrap_or|unwrap_or_default|unwrap_or_else|is_ok|is_err|err)$", nm):
                bad = nm.split("::")[-1] + " on a Result"
            elif re.search(r"Iterator>?::(flat_map|flatten|filter_map)$", nm):
                ty = (b.locals[t["dest"]["l"]]["ty"] or {}).get("s", "")
                # FlatMap<I, U, F> / Flatten<I>: U (or I's item) is a Result
                c = (t["f"] or {}).get("c") or {}
                ga = " ".join(str(x) for x in (c.get("rargs") or c.get("gargs") or []))
                if "Result<" in ga or re.search(r"FlatMap<[^{]*Result<", ty):
                    bad = nm.split("::")[-1] + " over Results"
            if bad is None:
                continue
            key = "%s/%s" % (f.short if f.kind != "Closure" else re.sub(r"::\{closure#\d+\}", "", f.short), bad)
            if key in AUDIT.get("errors", {}):
                ctx.ok(rid, key, "audited: " + AUDIT["errors"][key])
            else:
                ctx.violation(rid, key, "%s uses %s: a failed conversion of one item is silently dropped instead of failing the conversion (the output is missing that item)" % (f.short, bad), b.site(bi), key)
    ctx.count(rid + "_calls_inspected", n)


def run(ctx, prefix, mods, floors=None):
    """prefix: rule id stem, e.g. 'R14.7' -> R14.7p / R14.7t / R14.7w / R14.7e"""
    floors = floors or {}
    rule_step_purity(ctx, prefix + "p", mods, floors.get("p"))
    rule_loop_totality(ctx, prefix + "t", mods, floors.get("t"))
    rule_whole_sources(ctx, prefix + "w", mods, floors.get("w"))
    rule_errors_surface(ctx, prefix + "e", mods, floors.get("e"))
    rule_store_purity(ctx, prefix + "s", mods, floors.get("s"))
    rule_no_shrink(ctx, prefix + "k", mods)


SHRINK = re.compile(r"Vec::<.*>::(pop|truncate|remove|swap_remove|drain|retain|dedup\w*|clear|split_off)$")


def rule_store_purity(ctx, rid, mods, floor=None):
    """whether a converter stores something is decided by kind / Option dispatch, error propagation, loops, and membership
    tests on a map or set (group-by, import-once) - not by comparing values or consulting what was stored before"""
    F = ctx.F
    ctx.rule(rid, "every store (push / insert / extend) in a converter is control dependent only on kind / Option dispatch, loops, `?`, and membership tests of a map or set (the group-by and import-once idioms): a comparison or a scan of earlier results deciding a store duplicates or drops items for some inputs")
    n = 0
    for f in _fns(F, mods, skip=("DepOrder",)):
        if "DepOrder" in f.short:
            continue
        b = Body(f)
        for bi, t in b.calls():
            nm = callee_name(t) or ""
            if not STORE.search(nm):
                continue
            n += 1
            bad = []
            for sw in sorted(ctrl.controlling_switches(b, bi)):
                c = ctrl.classify_switch(b, sw)
                if c[0] in ("try", "next", "discr"):
                    continue
                if c[0] in ("callres", "call") and (MEMBER.search(c[1] or "") or STEP.search(c[1] or "")):
                    continue
                if c[0] == "call" and re.search(r"::(is_some|is_none|is_empty|is_ok|is_err)$", c[1] or ""):
                    continue
                bad.append((_subject(c), _describe(c)))
            for subj, d in sorted(set(bad)):
                key = "%s/%s/%s" % (f.short, nm.split("::")[-1], subj)
                if key in AUDIT.get("stores", {}):
                    ctx.ok(rid, key, "audited: " + AUDIT["stores"][key])
                else:
                    ctx.violation(rid, key, "%s: whether this %s happens is decided by %s: a store that depends on a comparison or on what was stored earlier duplicates or drops items for some inputs (e.g. groups that are revisited, items that look alike)" % (f.short, nm.split("::")[-1], d), b.site(bi), key)
            if not bad:
                ctx.ok(rid, "%s/%s@%d" % (f.short, nm.split("::")[-1], bi), "dispatch / membership only")
    if floor:
        ctx.floor(rid, "store_sites", n, floor)


def rule_no_shrink(ctx, rid, mods):
    """what a converter has converted stays converted: no pop / truncate / remove / retain / dedup on model collections"""
    from analysis.nondet import receiver_fields
    F = ctx.F
    ctx.rule(rid, "a converter never shrinks a collection of model data (pop / truncate / remove / retain / dedup / drain / clear); the error-context stack is exempt; the one place GDSII requires it (the repeated closing point of a boundary) is audited")
    n = 0
    for f in _fns(F, mods):
        b = Body(f)
        for bi, t in b.calls():
            nm = callee_name(t) or ""
            if not SHRINK.search(nm) or not t["args"]:
                continue
            fl = receiver_fields(b, t["args"][0])
            if fl and fl[-1] == "ctx":
                continue
            n += 1
            key = "%s/%s" % (f.short if f.kind != "Closure" else re.sub(r"::\{closure#\d+\}", "", f.short), nm.split("::")[-1])
            if key in AUDIT.get("shrink", {}):
                ctx.ok(rid, key, "audited: " + AUDIT["shrink"][key])
            else:
                ctx.violation(rid, key, "%s removes elements (%s) from a collection of converted data: part of the source model does not reach the output" % (f.short, nm.split("::")[-1]), b.site(bi), key)
    ctx.count(rid + "_shrinking_calls", n)
