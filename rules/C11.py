"""C11 — the LEF reader never crashes or hangs on any input text."""
import re
from analysis import ordering as od, panics as pn
from analysis.mir import Body, callee_name, callee_id
from rules import panicrules as pr, lefrules as lr


def error_leaves_loop(b, call_bb, header, blocks):
    """the Err result of the call at call_bb cannot flow back to the loop header (it is propagated or leaves the loop)"""
    t = b.term(call_bb)
    locs = {t["dest"]["l"]}
    cur = t["t"]
    seen = set()
    while cur is not None and cur not in seen and cur in blocks:
        seen.add(cur)
        blk = b.blocks[cur]
        for st in blk["st"]:
            if st["k"] == "assign" and not st["p"]["p"]:
                rv = st["rv"]
                src = None
                if rv["k"] == "use":
                    src = rv["o"].get("cp") or rv["o"].get("mv")
                elif rv["k"] == "discr":
                    src = rv["p"]
                elif rv["k"] == "ref":
                    src = rv["p"]
                if src is not None and src["l"] in locs:
                    locs.add(st["p"]["l"])
        u = blk["term"]
        if u["k"] == "call":
            if any(((a.get("cp") or a.get("mv") or {}).get("l")) in locs for a in u["args"]) and (callee_name(u) or "").endswith("Try>::branch"):
                locs.add(u["dest"]["l"])
            cur = u["t"]
            continue
        if u["k"] == "switch":
            on = u["on"].get("cp") or u["on"].get("mv")
            if on is not None and on["l"] in locs:
                err_t = [tgt for v, tgt in u["arms"] if v == 1]
                if not err_t and not b.is_unreachable_blk(u["else"]):
                    err_t = [u["else"]]
                if not err_t:
                    return True
                r = od.reach(b, err_t[0])
                return header not in r
            return True
        if u["k"] in ("goto", "drop", "assert"):
            cur = u["t"]
            continue
        return True
    return True


def run(ctx):
    F = ctx.F
    cg = pr.callgraph(F)
    ok_slices = lr.rule_byte_offsets(ctx, "R11.1")
    lr.rule_ascii_lookahead_premise(ctx, "R11.1p")
    roots = lr.lef_roots(F, lr.READ_ROOTS)
    # str slices proven byte-unit are discharged for the panic inventory (G8)
    def exclude(f):
        return False
    orig = pn.discharge

    def discharge2(site, F_=None):
        why = orig(site, F_)
        if why:
            return why
        if site.kind == "index" and (site.fn.id, site.bb) in ok_slices:
            return "G8: string slice whose bounds are byte offsets of consumed characters (unit typestate R11.1)"
        if site.kind == "panic" and indent_ok and "Indent" in site.fn.name and "sub_assign" in site.fn.name:
            return "G10: indentation decrements are paired with increments in every writer routine (R11.5)"
        return None
    indent_ok = lr.rule_indent_pairing(ctx, "R11.5")
    pn.discharge = discharge2
    try:
        reach = pr.rule_panic_free(ctx, "R11.2", roots, "LefLibrary::open", scope_prefixes=["lef21::", "layout21utils::"], floor=5)
        wroots = lr.lef_roots(F, lr.WRITE_ROOTS)
        wreach = pr.rule_panic_free(ctx, "R11.2w", wroots, "LefLibrary::to_string/save (write-again clause)", scope_prefixes=["lef21::", "layout21utils::"], floor=1)
    finally:
        pn.discharge = orig
    pr.rule_acyclic(ctx, "R11.4", reach, "LefLibrary::open", ["lef21::"])

    # ---- R11.6 panicking arithmetic of the decimal crate (its operators panic on overflow / division by zero; only the
    # checked_* forms return None) applied to numbers that come from the input
    ctx.rule("R11.6", "the reader applies rust_decimal's panicking operators (* + - / %) only to operands of bounded magnitude: one factor is a fractional part (|x| < 1) or both are constants; an input number of 28 digits must not reach them")
    DEC_OP = re.compile(r"rust_decimal::arithmetic_impls::<impl std::ops::(Mul|Add|Sub|Div|Rem)\w* for rust_decimal::Decimal>::\w+$|<rust_decimal::Decimal as std::ops::(Mul|Add|Sub|Div|Rem)\w*>::\w+$|rust_decimal::Decimal::(powi|powu|powf|powd|sqrt|exp|ln)$")
    n_dec = 0
    for fid in sorted(reach):
        f = F.fns[fid]
        if not fid.startswith("lef21::") or not f.body:
            continue
        b = Body(f)
        for bi, t in b.calls():
            n = callee_name(t) or ""
            m = DEC_OP.search(n)
            if not m:
                continue
            n_dec += 1

            def bounded(o, depth=0):
                """constant, or a fractional part, or a conversion of a small integer constant"""
                src = b.def_call(o)
                if src is None:
                    c = b.const_of(o) if hasattr(b, "const_of") else None
                    if c is not None:
                        return True
                    rv = b.def_rvalue(o)
                    if rv is not None and rv["k"] in ("use", "ref", "cast") and depth < 4:
                        q = rv.get("o") or {"cp": rv["p"]}
                        return bounded(q, depth + 1)
                    return False
                sn = callee_name(src) or ""
                if re.search(r"Decimal::fract$", sn):
                    return True
                if re.search(r"::from$|::into$|Decimal::new$|Deref>?::deref$|::clone$", sn) and src["args"] and depth < 4:
                    return all(bounded(a, depth + 1) for a in src["args"])
                return False
            key = "%s/%s" % (f.short, n.split("::")[-1])
            if len(t["args"]) >= 2 and all(bounded(a) for a in t["args"][:2]):
                ctx.ok("R11.6", key + "@%d" % bi, "both operands are fractional parts / constants")
            else:
                ctx.violation("R11.6", key, "%s applies Decimal::%s to a number read from the input without a bound: rust_decimal's operators panic on overflow (a 28-digit value times ten), only checked_%s reports it" % (f.short, n.split("::")[-1], n.split("::")[-1]), b.site(bi), key)
    ctx.floor("R11.6", "decimal_operator_sites", n_dec, 1)

    # ---- R11.3 loop progress
    ctx.rule("R11.3", "every loop of the lexer consumes a character per iteration; every loop of the parser consumes a token on every cycle and contains a step that fails at end of input")
    consuming_char = set()   # functions that (transitively, on the way) advance the character iterator
    consuming_tok = set()
    for fid in reach:
        b = Body(F.fns[fid])
        for bi, t in b.calls():
            n = callee_name(t) or ""
            if re.search(r"Chars.*::next$", n):
                consuming_char.add(fid)
    changed = True
    while changed:
        changed = False
        for fid in reach:
            if fid not in consuming_char and any(c in consuming_char for c in cg.edges.get(fid, ())):
                consuming_char.add(fid)
                changed = True
    # eof-failing functions: inspect an Option<Token> and send None to an error exit only
    eof_fail = set()
    for fid in reach:
        f = F.fns[fid]
        if not fid.startswith("lef21::read::"):
            continue
        b = od.pruned_body(F, Body(f))
        okb, errb = od.ret_kind_blocks(b)
        for bi, blk in enumerate(b.blocks):
            t = blk["term"]
            if t["k"] != "switch" or bi not in b.reachable:
                continue
            rv = b.def_rvalue(t["on"])
            if not rv or rv["k"] != "discr":
                continue
            ty = rv["ty"]
            while ty.get("k") == "ref":
                ty = ty["to"]
            if ty.get("k") == "adt" and ty["id"].endswith("option::Option") and ty.get("args") and "Token" in ty["args"][0].get("s", ""):
                none_t = None
                for v, tgt in t["arms"]:
                    if v == 0:
                        none_t = tgt
                if none_t is None:
                    none_t = t["else"]
                r = od.reach(b, none_t, removed=errb)
                if not (r & okb):
                    eof_fail.add(fid)
    # must-call closure: g fails at EOF if every normal return of g passes through a call to an eof-failing function
    def tail_calls(b):
        return {bi: callee_id(t) for bi, t in b.calls() if t["dest"]["l"] == 0 and not t["dest"]["p"] and "from_residual" not in (callee_name(t) or "")}
    changed = True
    while changed:
        changed = False
        for fid in reach:
            if fid in eof_fail or not fid.startswith("lef21::read::"):
                continue
            b = od.pruned_body(F, Body(F.fns[fid]))
            okb, errb = od.ret_kind_blocks(b)
            tc = tail_calls(b)
            # returns that hand back another function's result are normal returns of that function
            normal = set(okb) | {bi for bi, c in tc.items() if not od.always_err(F, c)}
            errs = set(errb) - set(tc)
            callers = [bi for bi, t in b.calls() if callee_id(t) in eof_fail]
            if not callers or not normal:
                continue
            r = od.reach(b, 0, removed=set(callers) | errs)
            if not (r & normal):
                eof_fail.add(fid)
                changed = True
    # ---- R11.3a lexer progress: must-advance summaries with look-ahead facts
    import json, os
    from analysis.advance import Advance
    ctx.rule("R11.3a", "every cycle of every lexer loop strictly advances the position (a token handed back by lex_one has consumed at least one character; `while self.accept(..)` continues only after consuming one)")
    aud = json.load(open(os.path.join(os.path.dirname(__file__), "audit", "advance.json")))
    edges = {(e["caller"], e["callee"]): e["reason"] for e in aud["edges"]}
    lex_scope = [g for g in F.fns.values() if g.id.startswith("lef21::read::") and "LefLexer" in g.short and g.kind != "Closure" and not g.derived]
    adv = Advance(F, lex_scope, progress_field="pos", audited_edges=edges)
    n_lex_loops = 0
    for g in sorted(lex_scope, key=lambda x: x.id):
        gb = Body(g)
        for header, blocks in gb.loops():
            n_lex_loops += 1
        bad = adv.loop_violations(g.id)
        from rules.C10 import loop_role
        for header, blocks in gb.loops():
            key = "%s/loop@%s" % (g.short, loop_role(gb, header, blocks))
            w = [x for h, x in bad if h == header]
            if w:
                ctx.violation("R11.3a", key, "%s: a cycle of this loop can return to its head without the lexer position having advanced (a token or an accepted character that consumed nothing): the reader spins forever on such input" % g.short, gb.site(header), key)
            else:
                ctx.ok("R11.3a", key, "every cycle advances `pos`")
    for e, why in edges.items():
        if e in adv.used_audits:
            ctx.assume("advance audit %s -> %s: %s" % (e[0], e[1], why))
        else:
            ctx.note("R11.3a", "audited edge %s -> %s no longer occurs" % e)
    ctx.floor("R11.3a", "lexer_loops", n_lex_loops, 1)
    ctx.count("lexer_summaries", {g.short.split("::")[-1]: {k: v for k, v in adv.summary(g.id).items()} for g in lex_scope if "lex_" in g.short or "accept" in g.short or "next" in g.short})

    n_loops = 0
    for fid in sorted(reach):
        if not fid.startswith("lef21::"):
            continue
        f = F.fns[fid]
        b = od.pruned_body(F, Body(f))
        okb, errb = od.ret_kind_blocks(b)
        for header, blocks in b.loops():
            n_loops += 1
            from rules.C10 import loop_role
            key = "%s/loop@%s" % (f.short, loop_role(b, header, blocks))
            nexts = [x for x in blocks if b.term(x)["k"] == "call" and re.search(r"::next$", callee_name(b.term(x)) or "") and re.search(r"Iterator", callee_name(b.term(x)) or "") and not (callee_id(b.term(x)) or "").startswith("lef21::") and "Chars" not in (callee_name(b.term(x)) or "")]
            if nexts and not pn.cycle_without(b, header, blocks, nexts):
                ctx.ok("R11.3", key, "driven by a finite std iterator")
                continue
            cons = [x for x in blocks if b.term(x)["k"] == "call" and callee_id(b.term(x)) in consuming_char]
            if not cons or pn.cycle_without(b, header, blocks, cons):
                ctx.violation("R11.3", key, "%s: a cycle of this loop neither iterates a finite collection nor consumes input (can spin forever)" % f.short, b.site(header))
                continue
            if fid.startswith("lef21::read::") and "LefLexer" in f.name:
                # lexer loops: decided by the must-advance analysis (R11.3a below)
                continue
            # parser loops: a consuming call on every cycle is not enough (next_token is a no-op at end of input):
            # every cycle must also pass an end-of-input-failing step, or the loop exit must be forced at end of input
            eofs = [x for x in blocks if b.term(x)["k"] == "call" and callee_id(b.term(x)) in eof_fail and error_leaves_loop(b, x, header, blocks)]
            # in-loop `match next_token()/peek_token() { None => error / leave }`: the Some-arm target acts as the step
            for x in blocks:
                t = b.term(x)
                if t["k"] != "switch":
                    continue
                rv = b.def_rvalue(t["on"])
                if not rv or rv["k"] != "discr":
                    continue
                ty = rv["ty"]
                while ty.get("k") == "ref":
                    ty = ty["to"]
                if ty.get("k") == "adt" and ty["id"].endswith("option::Option") and ty.get("args") and "Token" in ty["args"][0].get("s", ""):
                    none_t = [tgt for v, tgt in t["arms"] if v == 0]
                    none_t = none_t[0] if none_t else t["else"]
                    back = any(p in od.reach(b, none_t, removed=errb) for p in b.preds[header] if p in blocks) or header in od.reach(b, none_t, removed=errb)
                    if not back:
                        eofs.append(x)
            if eofs and not pn.cycle_without(b, header, blocks, eofs):
                ctx.ok("R11.3", key, "consumes a token per cycle and fails at end of input")
            else:
                # accept when the cycle avoiding eof-failing steps still passes an explicit `peek_token().is_none()` exit
                exits = [x for x in blocks if b.term(x)["k"] == "call" and re.search(r"Option::<.*>::is_none$|LefParser::matches$", callee_name(b.term(x)) or "")]
                if exits and not pn.cycle_without(b, header, blocks, exits + eofs):
                    ctx.ok("R11.3", key, "consumes a token per cycle; end of input is tested on every cycle")
                else:
                    ctx.violation("R11.3", key, "%s: a cycle of this loop has no step that fails or exits at end of input (advance()/next_token() are no-ops there): truncated input can loop forever" % f.short, b.site(header))
    ctx.floor("R11.3", "reader_loops", n_loops, 4)
    ctx.count("eof_failing_functions", len(eof_fail))
    ctx.assume("linear time is decided only as per-iteration progress; std iterators are finite")
