"""C09 — relative placement: structural clauses only (typestate, ordering provenance, side partitions)."""
import re
from analysis import flow, ordering as od
from analysis.mir import Body, callee_name, callee_id
from analysis.walk import Walker, field_chain
from rules.gdsrules import get_flow

PFX = "layout21tetris::"


def run(ctx):
    F = ctx.F
    fl = get_flow(F)
    ctx.rule("R09.1", "every instance pushed into a placed layout has an absolute location: on each path from a relative-location test to the push, the location is re-assigned Place::Abs")
    ctx.rule("R09.2", "placements are resolved in the order computed by the dependency orderer (order independence rests on it), and the orderer's client pushes the relation target for every placeable kind (C17 R17.3)")
    from rules import C17 as c17
    c17.run(ctx.sub("R09.2o", "the generic orderer and its placement client satisfy the orderer rules of C17"), only=lambda f: f.id.startswith("layout21utils::"), floors=False)
    ctx.rule("R09.4", "every match on Side splits {Left,Right}/{Top,Bottom} (axis) or {Left,Bottom}/{Top,Right} (near/far edge); BoundBox::side maps Left->p0.x, Right->p1.x, Bottom->p0.y, Top->p1.y")
    # ---- locate place_layout: function of placer taking &mut Layout and matching on Placeable
    cands = []
    for f in F.fns.values():
        if f.id.startswith(PFX + "placer::") and f.kind != "Closure" and any(re.search(r"^&mut layout::Layout$", i["s"]) for i in f.inputs):
            b = Body(f)
            if od.enum_switches(F, b, "placement::Placeable"):
                cands.append(f)
    if len(cands) != 1:
        ctx.error("R09.1", "place_layout not found uniquely: %s" % [f.short for f in cands])
        return
    f = cands[0]
    b = Body(f)
    site = "%s:%d" % (f.sp[0], f.sp[1])
    psw = od.enum_switches(F, b, "placement::Placeable")[0]
    parms = psw[1]
    # Place<_> discriminant tests inside each arm
    place_sws = od.enum_switches(F, b, "placement::Place")
    abs_assign_blocks = set()
    for bi, blk in enumerate(b.blocks):
        for st in blk["st"]:
            if st["k"] == "assign" and st["rv"]["k"] == "agg" and st["rv"].get("variant") == "Abs" and st["rv"].get("id", "").endswith("placement::Place"):
                abs_assign_blocks.add(bi)
            if st["k"] == "assign" and st["rv"]["k"] == "use":
                # `inst.loc = move _tmp` where _tmp was built as Place::Abs
                rv = b.def_rvalue(st["rv"]["o"])
                fields = [e["n"] for e in st["p"]["p"] if isinstance(e, dict) and "f" in e]
                if rv is not None and rv["k"] == "agg" and rv.get("variant") == "Abs" and fields and fields[-1] == "loc":
                    abs_assign_blocks.add(bi)
    sinks = [bi for bi, t in b.calls() if re.search(r"PtrList::<.*>::(push|extend)$|ptr::PtrList.*::(push|extend)$|Vec::<.*>::(push|extend)$|Extend<.*>>::extend$", callee_name(t) or "")]
    n = 0
    for variant in ("Instance", "Array"):
        tgt = parms.get(variant)
        if tgt is None:
            ctx.violation("R09.1", "arm/%s" % variant, "place_layout has no arm for Placeable::%s" % variant, site)
            continue
        reg = od.region(b, tgt)
        sws = [s for s in place_sws if s[0] in reg]
        if not sws:
            ctx.violation("R09.1", "arm/%s/test" % variant, "the %s arm never inspects whether the location is relative" % variant, site)
            continue
        for (sbi, arms, other, eid) in sws:
            rel_t = arms.get("Rel")
            if rel_t is None:
                continue
            n += 1
            arm_sinks = [s for s in sinks if s in reg]
            r = od.reach(b, rel_t, removed=abs_assign_blocks)
            okb, errb = od.ret_kind_blocks(b)
            leak = [s for s in arm_sinks if s in r]
            # paths that diverge (todo!/unimplemented!) never reach the push; those are fine for the typestate
            if leak:
                ctx.violation("R09.1", "arm/%s" % variant, "a %s whose location is still relative can be pushed into the placed layout (no Place::Abs assignment on that path)" % variant, b.site(leak[0]))
            elif not arm_sinks:
                ctx.violation("R09.1", "arm/%s/push" % variant, "the %s arm never adds the placed instance(s) to the layout" % variant, site)
            else:
                ctx.ok("R09.1", "arm/%s" % variant, "relative location is replaced by Place::Abs before the push")
    ctx.floor("R09.1", "relative_location_tests", n, 2)

    # ---- R09.2 ordered iteration
    order_calls = [bi for bi, t in b.calls() if re.search(r"DepOrder>::order$|::order$", callee_name(t) or "") and "DepOrder" in (callee_name(t) or "")]
    if not order_calls:
        ctx.violation("R09.2", f.short, "place_layout does not compute a dependency order", site)
    else:
        # the loop that contains the Placeable switch iterates a value derived from the order() result
        sw_bb = psw[0]
        loop = None
        for h, blks in b.loops():
            if sw_bb in blks and (loop is None or len(blks) < len(loop[1])):
                loop = (h, blks)
        good = False
        if loop:
            for x in loop[1]:
                t = b.term(x)
                if t["k"] == "call" and re.search(r"::next$", callee_name(t) or "") and t["args"]:
                    d = fl.deps_operand(f.id, t["args"][0])
                    if any(v.endswith("::order") or "DepOrder" in v for v in flow.vias_of(d)):
                        good = True
        if good:
            ctx.ok("R09.2", f.short, "resolution loop iterates the orderer's result")
        else:
            ctx.violation("R09.2", f.short, "placements are not resolved in dependency order: the resolution loop does not iterate the result of DepOrder::order", site)

    # ---- R09.4 side partitions
    AX = [frozenset(("Left", "Right")), frozenset(("Top", "Bottom"))]
    ED = [frozenset(("Left", "Bottom")), frozenset(("Top", "Right"))]
    n_sw = 0
    for g in F.fns.values():
        if not g.id.startswith(PFX + "placer::") or g.kind == "Closure":
            continue
        gb = Body(g)
        for (sbi, arms, other, eid) in od.enum_switches(F, gb, "placement::Side"):
            groups = {}
            for v in ("Top", "Bottom", "Left", "Right"):
                groups.setdefault(arms.get(v, other), set()).add(v)
            part = [frozenset(x) for x in groups.values()]
            n_sw += 1
            key = "%s/side-match@%s" % (g.short, ",".join(sorted("".join(sorted(p)) for p in part)))
            refines = lambda P, Q: all(any(blk <= q for q in Q) for blk in P)
            if len(part) == 4:
                ctx.ok("R09.4", key, "four-way match")
            elif refines(part, AX) or refines(part, ED):
                ctx.ok("R09.4", key, "partition %s" % [sorted(p) for p in part])
            else:
                ctx.violation("R09.4", key, "%s matches Side with the partition %s, which is neither the axis split {Left,Right}/{Top,Bottom} nor the edge split {Left,Bottom}/{Top,Right}" % (g.short, [sorted(p) for p in part]), gb.site(sbi))
    ctx.floor("R09.4", "side_matches", n_sw, 3)
    # BoundBox::side mapping
    bs = [g for g in F.fns.values() if g.id.startswith(PFX + "bbox::") and g.short.endswith("BoundBox::side")]
    if len(bs) != 1:
        ctx.error("R09.4", "BoundBox::side not found")
    else:
        g = bs[0]
        w = Walker(g, max_visits=1)
        got = {}
        enum_id = [e for e in F.enums if e.endswith("placement::Side")]

        def on_return(path):
            v = None
            for k, fv in path.facts.items():
                if k[0] == "discr" and fv[0] == "=":
                    v = F.variant_of(enum_id[0], fv[1]) if enum_id else None
            ret = path.env.get(0)
            if v and ret:
                root, chain = field_chain(ret)
                got[v] = tuple(chain)
        w.run(on_return=on_return)
        want = {"Left": ("p0", "x"), "Right": ("p1", "x"), "Bottom": ("p0", "y"), "Top": ("p1", "y")}
        for v, wp in want.items():
            if got.get(v) == wp:
                ctx.ok("R09.4", "BoundBox::side/%s" % v, ".".join(wp))
            else:
                ctx.violation("R09.4", "BoundBox::side/%s" % v, "BoundBox::side(%s) returns %s, expected %s" % (v, ".".join(got.get(v, ("?",))), ".".join(wp)), "%s:%d" % (g.sp[0], g.sp[1]))
    ctx.assume("the side / alignment / separation / reflection arithmetic of resolve_instance_place and array pitches are value-level and NOT decided; cycle detection is decided under C17")
