"""C09 — relative placement: structural clauses only (typestate, ordering provenance, side partitions)."""
import re
from analysis import flow, ordering as od
from analysis.mir import Body, callee_name, callee_id
from analysis.walk import Walker, field_chain
from rules.gdsrules import get_flow

PFX = "layout21tetris::"


def run(ctx):
    F = ctx.F
    fl = get_flow(F)
    ctx.rule("R09.1", "every instance pushed into a placed layout has an absolute location: on each path from a relative-location test to the push, the location is re-assigned Place::Abs")
    ctx.rule("R09.2", "placements are resolved in the order computed by the dependency orderer (order independence rests on it), and the orderer's client pushes the relation target for every placeable kind (C17 R17.3)")
    from rules import C17 as c17
    c17.run(ctx.sub("R09.2o", "the generic orderer and its placement client satisfy the orderer rules of C17"), only=lambda f: f.id.startswith("layout21utils::"), floors=False, clients=lambda g: g.id.startswith("layout21tetris::placer::"))
    ctx.rule("R09.4", "every match on Side splits {Left,Right}/{Top,Bottom} (axis) or {Left,Bottom}/{Top,Right} (near/far edge); BoundBox::side maps Left->p0.x, Right->p1.x, Bottom->p0.y, Top->p1.y")
    # ---- locate place_layout: function of placer taking &mut Layout and matching on Placeable
    cands = []
    for f in F.fns.values():
        if f.id.startswith(PFX + "placer::") and f.kind != "Closure" and any(re.search(r"^&mut layout::Layout$", i["s"]) for i in f.inputs):
            b = Body(f)
            if od.enum_switches(F, b, "placement::Placeable"):
                cands.append(f)
    if len(cands) != 1:
        ctx.error("R09.1", "place_layout not found uniquely: %s" % [f.short for f in cands])
        return
    f = cands[0]
    b = Body(f)
    site = "%s:%d" % (f.sp[0], f.sp[1])
    psw = od.enum_switches(F, b, "placement::Placeable")[0]
    parms = psw[1]
    # Place<_> discriminant tests inside each arm
    place_sws = od.enum_switches(F, b, "placement::Place")
    abs_assign_blocks = set()
    for bi, blk in enumerate(b.blocks):
        for st in blk["st"]:
            if st["k"] == "assign" and st["rv"]["k"] == "agg" and st["rv"].get("variant") == "Abs" and st["rv"].get("id", "").endswith("placement::Place"):
                abs_assign_blocks.add(bi)
            if st["k"] == "assign" and st["rv"]["k"] == "use":
                # `inst.loc = move _tmp` where _tmp was built as Place::Abs
                rv = b.def_rvalue(st["rv"]["o"])
                fields = [e["n"] for e in st["p"]["p"] if isinstance(e, dict) and "f" in e]
                if rv is not None and rv["k"] == "agg" and rv.get("variant") == "Abs" and fields and fields[-1] == "loc":
                    abs_assign_blocks.add(bi)
    sinks = [bi for bi, t in b.calls() if re.search(r"PtrList::<.*>::(push|extend)$|ptr::PtrList.*::(push|extend)$|Vec::<.*>::(push|extend)$|Extend<.*>>::extend$", callee_name(t) or "")]
    n = 0
    for variant in ("Instance", "Array"):
        tgt = parms.get(variant)
        if tgt is None:
            ctx.violation("R09.1", "arm/%s" % variant, "place_layout has no arm for Placeable::%s" % variant, site)
            continue
        reg = od.region(b, tgt)
        sws = [s for s in place_sws if s[0] in reg]
        if not sws:
            ctx.violation("R09.1", "arm/%s/test" % variant, "the %s arm never inspects whether the location is relative" % variant, site)
            continue
        for (sbi, arms, other, eid) in sws:
            rel_t = arms.get("Rel")
            if rel_t is None:
                continue
            n += 1
            arm_sinks = [s for s in sinks if s in reg]
            r = od.reach(b, rel_t, removed=abs_assign_blocks)
            okb, errb = od.ret_kind_blocks(b)
            leak = [s for s in arm_sinks if s in r]
            # paths that diverge (todo!/unimplemented!) never reach the push; those are fine for the typestate
            if leak:
                ctx.violation("R09.1", "arm/%s" % variant, "a %s whose location is still relative can be pushed into the placed layout (no Place::Abs assignment on that path)" % variant, b.site(leak[0]))
            elif not arm_sinks:
                ctx.violation("R09.1", "arm/%s/push" % variant, "the %s arm never adds the placed instance(s) to the layout" % variant, site)
            else:
                ctx.ok("R09.1", "arm/%s" % variant, "relative location is replaced by Place::Abs before the push")
    ctx.floor("R09.1", "relative_location_tests", n, 2)

    # ---- R09.2 ordered iteration
    order_calls = [bi for bi, t in b.calls() if re.search(r"DepOrder>::order$|::order$", callee_name(t) or "") and "DepOrder" in (callee_name(t) or "")]
    if not order_calls:
        ctx.violation("R09.2", f.short, "place_layout does not compute a dependency order", site)
    else:
        # the loop that contains the Placeable switch iterates a value derived from the order() result
        sw_bb = psw[0]
        loop = None
        for h, blks in b.loops():
            if sw_bb in blks and (loop is None or len(blks) < len(loop[1])):
                loop = (h, blks)
        good = False
        if loop:
            for x in loop[1]:
                t = b.term(x)
                if t["k"] == "call" and re.search(r"::next$", callee_name(t) or "") and t["args"]:
                    d = fl.deps_operand(f.id, t["args"][0])
                    if any(v.endswith("::order") or "DepOrder" in v for v in flow.vias_of(d)):
                        good = True
        if good:
            ctx.ok("R09.2", f.short, "resolution loop iterates the orderer's result")
        else:
            ctx.violation("R09.2", f.short, "placements are not resolved in dependency order: the resolution loop does not iterate the result of DepOrder::order", site)

    # ---- R09.4 side partitions
    AX = [frozenset(("Left", "Right")), frozenset(("Top", "Bottom"))]
    ED = [frozenset(("Left", "Bottom")), frozenset(("Top", "Right"))]
    n_sw = 0
    for g in F.fns.values():
        if not g.id.startswith(PFX + "placer::") or g.kind == "Closure":
            continue
        gb = Body(g)
        for (sbi, arms, other, eid) in od.enum_switches(F, gb, "placement::Side"):
            groups = {}
            for v in ("Top", "Bottom", "Left", "Right"):
                groups.setdefault(arms.get(v, other), set()).add(v)
            part = [frozenset(x) for x in groups.values()]
            n_sw += 1
            key = "%s/side-match@%s" % (g.short, ",".join(sorted("".join(sorted(p)) for p in part)))
            refines = lambda P, Q: all(any(blk <= q for q in Q) for blk in P)
            if len(part) == 4:
                ctx.ok("R09.4", key, "four-way match")
            elif refines(part, AX) or refines(part, ED):
                ctx.ok("R09.4", key, "partition %s" % [sorted(p) for p in part])
            else:
                ctx.violation("R09.4", key, "%s matches Side with the partition %s, which is neither the axis split {Left,Right}/{Top,Bottom} nor the edge split {Left,Bottom}/{Top,Right}" % (g.short, [sorted(p) for p in part]), gb.site(sbi))
    ctx.floor("R09.4", "side_matches", n_sw, 1)
    # BoundBox::side mapping
    bs = [g for g in F.fns.values() if g.id.startswith(PFX + "bbox::") and g.short.endswith("BoundBox::side")]
    if len(bs) != 1:
        ctx.error("R09.4", "BoundBox::side not found")
    else:
        g = bs[0]
        w = Walker(g, max_visits=1)
        got = {}
        enum_id = [e for e in F.enums if e.endswith("placement::Side")]

        def on_return(path):
            v = None
            for k, fv in path.facts.items():
                if k[0] == "discr" and fv[0] == "=":
                    v = F.variant_of(enum_id[0], fv[1]) if enum_id else None
            ret = path.env.get(0)
            if v and ret:
                root, chain = field_chain(ret)
                got[v] = tuple(chain)
        w.run(on_return=on_return)
        want = {"Left": ("p0", "x"), "Right": ("p1", "x"), "Bottom": ("p0", "y"), "Top": ("p1", "y")}
        for v, wp in want.items():
            if got.get(v) == wp:
                ctx.ok("R09.4", "BoundBox::side/%s" % v, ".".join(wp))
            else:
                ctx.violation("R09.4", "BoundBox::side/%s" % v, "BoundBox::side(%s) returns %s, expected %s" % (v, ".".join(got.get(v, ("?",))), ".".join(wp)), "%s:%d" % (g.sp[0], g.sp[1]))
    ctx.assume("the side / alignment / separation / reflection arithmetic of resolve_instance_place and array pitches are value-level and NOT decided; cycle detection is decided under C17")

    # ---- R09.5 mirroring an array's children: coordinate and orientation flip together, and exactly when the array is mirrored
    rule_mirror_pairing(ctx, "R09.5")
    # ---- R09.6 direction of the separation
    rule_separation_sign(ctx, "R09.6")
    # ---- R09.7 the size used for offsets is the size of the box that is placed
    rule_extent_agreement(ctx, "R09.7")
    # ---- R09.8 a reflection-dependent offset along one axis is decided by the reflection about that axis
    rule_axis_agreement(ctx, "R09.8")


AXIS_OF = {"reflect_horiz": "x", "reflect_vert": "y"}


def rule_mirror_pairing(ctx, rid):
    """Children of a reflected array are mirrored about the array origin: per axis, on every path through the loop that
    translates the children, `loc.<axis>` is negated iff the child's own reflect flag is toggled iff the array's flag is set."""
    from analysis import ctrl
    from analysis.mir import op_place, op_const
    ctx.rule(rid, "when an array's children are translated to the array's placement, on every path and for each axis: the child's coordinate is negated exactly when its own reflection flag is toggled, and exactly when the array's reflection flag for that axis is set")
    F = ctx.F
    n = 0
    for f in F.fns.values():
        if not f.id.startswith("layout21tetris::placer::") or f.kind == "Closure":
            continue
        b = Body(f)
        ev = {}  # bb -> list of events
        for bi, blk in enumerate(b.blocks):
            if blk["cleanup"] or bi not in b.reachable:
                continue
            for st in blk["st"]:
                if st["k"] == "assign" and st["rv"]["k"] == "un" and st["rv"]["op"] == "Not" and st["p"]["p"]:
                    last = st["p"]["p"][-1]
                    if isinstance(last, dict) and last.get("n") in AXIS_OF:
                        src = b.def_rvalue(st["rv"]["o"])
                        q = op_place(st["rv"]["o"])
                        d0 = b.single_def(q["l"]) if q is not None and not q["p"] else None
                        if d0 and d0[2] == "assign" and d0[3]["rv"]["k"] == "use" and op_place(d0[3]["rv"]["o"]) == st["p"]:
                            ev.setdefault(bi, []).append(("tog", last["n"]))
            t = blk["term"]
            if t["k"] == "call" and re.search(r"MulAssign<.*>>::mul_assign$", callee_name(t) or "") and len(t["args"]) == 2:
                c = op_const(t["args"][1])
                rv = b.def_rvalue(t["args"][0])
                if c is not None and c.get("int") == -1 and rv and rv["k"] == "ref" and rv["p"]["p"]:
                    last = rv["p"]["p"][-1]
                    if isinstance(last, dict) and last.get("n") in ("x", "y"):
                        ev.setdefault(bi, []).append(("neg", last["n"]))
        if not any(e[0] == "tog" for es in ev.values() for e in es):
            continue
        for header, blocks in b.loops():
            if not any(bi in blocks for bi in ev):
                continue
            n += 1
            key = "%s/loop" % f.short
            problems = []
            # enumerate the acyclic paths of one iteration
            stack = [(header, (), {}, frozenset([header]))]
            steps = 0
            while stack and steps < 20000:
                steps += 1
                bb, events, facts, seen = stack.pop()
                events = events + tuple(ev.get(bb, ()))
                t = b.term(bb)
                succs = [s for s in b.succs[bb] if s in blocks]
                if t["k"] == "switch":
                    c = ctrl.classify_switch(b, bb)
                    flag = None
                    if c[0] == "value" and c[1][1] and c[1][1][-1] in AXIS_OF and c[1][0][0] == "arg":
                        flag = c[1][1][-1]
                    for v, tgt in list(t["arms"]) + [(None, t["else"])]:
                        if tgt not in blocks:
                            continue
                        f2 = dict(facts)
                        if flag is not None:
                            f2[flag] = (v != 0) if v is not None else True
                        if tgt == header:
                            problems += _pairing_problems(events, f2)
                        elif tgt not in seen:
                            stack.append((tgt, events, f2, seen | {tgt}))
                    continue
                for s2 in succs:
                    if s2 == header:
                        problems += _pairing_problems(events, facts)
                    elif s2 not in seen:
                        stack.append((s2, events, facts, seen | {s2}))
            if problems:
                ctx.violation(rid, key, "%s: %s" % (f.short, "; ".join(sorted(set(problems))[:3])), b.site(header), key)
            else:
                ctx.ok(rid, key, "coordinate negation, flag toggle and array flag agree on every path, per axis")
    ctx.floor(rid, "mirroring_loops", n, 1)


def _pairing_problems(events, facts):
    out = []
    for flag, axis in AXIS_OF.items():
        neg = ("neg", axis) in events
        tog = ("tog", flag) in events
        if neg != tog:
            out.append("on some path the child's %s coordinate is %s but its %s flag is %s: the child is moved to the mirrored position without being mirrored itself (or the reverse)" % (
                axis, "negated" if neg else "kept", flag, "toggled" if tog else "kept"))
        if flag in facts and facts[flag] != neg:
            out.append("the array's %s is %s on a path that %s the children's %s coordinate" % (flag, facts[flag], "negates" if neg else "does not negate", axis))
        if flag in facts and facts[flag] != tog:
            out.append("the array's %s is %s on a path that %s the children's own %s" % (flag, facts[flag], "toggles" if tog else "does not toggle", flag))
    return out


def rule_separation_sign(ctx, rid):
    """The requested separation moves the placed instance away from the reference: towards negative coordinates for
    Side::Left / Side::Bottom, positive for Top / Right — whatever the instance's own reflection or size."""
    from analysis import ctrl
    ctx.rule(rid, "the separation is negated exactly for Side::Left and Side::Bottom, and that decision depends on the requested side alone (not on the instance's reflection, size or any flag derived from them)")
    F = ctx.F
    n = 0
    for f in F.fns.values():
        if not f.id.startswith("layout21tetris::placer::") or f.kind == "Closure" or not any("RelativePlace" in i.get("s", "") for i in f.inputs):
            continue
        b = Body(f)
        for bi, t in b.calls():
            if not re.search(r"::negate$", callee_name(t) or ""):
                continue
            n += 1
            key = "%s/negate" % f.short
            bad = []
            for c in ctrl.control_sources(b, bi):
                if c[0] in ("try", "next"):
                    continue
                if c[0] in ("discr", "value") and c[-1][1] and c[-1][1][-1] == "side" and c[-1][0][0] == "arg":
                    continue
                bad.append(ctrl.fmt_path(c[-1]) if c[0] in ("discr", "value", "callres") else (c[1].split("::")[-1] + "(..)" if c[0] == "call" else str(c[1:])))
            routed = set()
            for sbb, arms, other, eid in od.enum_switches(F, b, "Side"):
                allv = [v["name"] for v in F.adts[eid]["variants"]] if eid in F.adts else []
                for v in allv:
                    tgt = arms.get(v, other)
                    if tgt is not None and (tgt == bi or bi in od.reach(b, tgt, removed=[x for x in set(arms.values()) | {other} if x is not None and x != tgt])) and b.dominates(sbb, bi):
                        if b.dominates(tgt, bi):
                            routed.add(v)
            if bad:
                ctx.violation(rid, key, "%s: whether the separation is negated is decided by %s rather than by the requested side alone: for some combination of side and reflection the instance is moved into the reference instead of away from it" % (f.short, ", ".join(sorted(set(bad)))), b.site(bi), key)
            elif routed and routed != {"Left", "Bottom"}:
                ctx.violation(rid, key, "%s negates the separation for sides %s; it must be negated exactly for Left and Bottom" % (f.short, sorted(routed)), b.site(bi), key)
            else:
                ctx.ok(rid, key, "negated for %s, decided by the side alone" % sorted(routed))
    ctx.floor(rid, "separation_negations", n, 1)


def rule_extent_agreement(ctx, rid):
    """The placer offsets an instance by `boundbox_size` and compares positions through `boundbox`: the two are siblings and
    must measure the same thing — the maximal extent of the cell outline on each axis (Outline::xmax / ymax)."""
    ctx.rule(rid, "sibling agreement: every size / bounding-box accessor of a placed cell instance derives both of its extents from the outline's maxima (Outline::xmax and Outline::ymax), like its siblings do")
    F = ctx.F
    fl = get_flow(F)
    sibs = [f for f in F.fns.values() if f.id.startswith("layout21tetris::") and f.kind != "Closure" and not f.derived and
            re.search(r"(instance::Instance::boundbox_size|cell::Cell::boundbox_size|<instance::Instance as bbox::HasBoundBox>::boundbox)$", f.short)]
    for f in sibs:
        v = flow.vias_of(fl.deps(f.id, 0, ()))
        missing = [m for m in ("Outline::xmax", "Outline::ymax") if m not in v]
        if missing:
            ctx.violation(rid, f.short, "%s does not derive its extent from %s although its siblings do: for a stepped (non-rectangular) outline it measures something other than the box that is placed, so instances are offset by the wrong amount" % (f.short, " / ".join(missing)), "%s:%d" % (f.sp[0], f.sp[1]), f.short)
        else:
            ctx.ok(rid, f.short, "extent from Outline::xmax / ymax")
    ctx.floor(rid, "extent_accessors", len(sibs), 3)



def _axis_class(b, o, depth=0):
    """(root, parity): the axis operand `o` as a root local/parameter path with the number of `Dir::other` applications
    modulo 2; None when it cannot be traced"""
    from analysis.mir import op_place, op_local
    o = b.resolve_copy(o)
    pl = op_place(o)
    if pl is None or depth > 8:
        return None
    l = pl["l"]
    if not pl["p"]:
        c = b.def_call(o)
        if c is not None:
            if re.search(r"Dir::other$|::other$", callee_name(c) or "") and c["args"]:
                r = _axis_class(b, c["args"][0], depth + 1)
                return (r[0], 1 - r[1]) if r else None
            # any other call (a helper mapping the side to its axis): its result is a root of its own
    return ("%s%s" % (b.local_name(l) or "_%d" % l, "".join("." + str(e.get("n", e.get("f"))) for e in pl["p"] if isinstance(e, dict) and ("f" in e))), 0)


def _reflected_in_slice(b, operand, max_nodes=300):
    """axis classes of the `reflected(axis)` calls in the backward slice of `operand` (through copies, negations, flags
    assigned on several paths)"""
    from analysis.mir import op_place
    out, seen, work = set(), set(), []
    p = op_place(operand)
    if p is not None:
        work.append(p["l"])
    n = 0
    while work and n < max_nodes:
        l = work.pop()
        n += 1
        if l in seen or 1 <= l <= b.argc:
            continue
        seen.add(l)
        for d in b.defs.get(l, []):
            if d[2] == "assign":
                rv = d[3]["rv"]
                for key in ("o", "l", "r"):
                    if key in rv and isinstance(rv[key], dict):
                        q = op_place(rv[key])
                        if q is not None:
                            work.append(q["l"])
                if rv["k"] in ("ref", "rawptr", "discr", "len"):
                    work.append(rv["p"]["l"])
                if rv["k"] == "agg":
                    for o in rv["ops"]:
                        q = op_place(o)
                        if q is not None:
                            work.append(q["l"])
            elif d[2] == "call":
                nm = callee_name(d[3]) or ""
                if re.search(r"::reflected$", nm) and len(d[3]["args"]) > 1:
                    out.add(_axis_class(b, d[3]["args"][1]) or ("?", 0))
                    continue
                for o in d[3]["args"]:
                    q = op_place(o)
                    if q is not None:
                        work.append(q["l"])
    return out


def rule_axis_agreement(ctx, rid):
    """Whether the placed instance's extent along an axis is added to / subtracted from a coordinate is a question about
    that axis: a test that guards the use of `size[A]` (and not the use of the other axis' size as well) may consult the
    instance's reflection about A only.  Axes are compared as (root, parity of `Dir::other`)."""
    from analysis import ctrl
    from analysis.mir import op_place
    ctx.rule(rid, "in the relative-placement arithmetic, every test that guards the use of the instance's extent along one axis only consults `reflected(..)` for that same axis")
    F = ctx.F
    n = 0
    for f in F.fns.values():
        if not f.id.startswith("layout21tetris::placer::") or f.kind == "Closure" or not any("RelativePlace" in i.get("s", "") for i in f.inputs):
            continue
        b = Body(f)
        uses = []   # (block, axis class)
        for bi, t in b.calls():
            nm = callee_name(t) or ""
            if re.search(r"ops::Index<.*Dir>>::index$|Index<.*Dir>.*::index$", nm) and len(t["args"]) > 1:
                ac = _axis_class(b, t["args"][1])
                if ac is not None:
                    uses.append((bi, ac))
        if not uses:
            continue
        guards = {bi: ctrl.controlling_switches(b, bi) for bi, _ in uses}
        for bi, ac in uses:
            others = [bj for bj, aj in uses if aj != ac]
            for sw in sorted(guards[bi]):
                refl = _reflected_in_slice(b, b.term(sw)["on"])
                if not refl:
                    continue
                n += 1
                key = "%s/size[%s^%d]/guard:%s" % (f.short, ac[0], ac[1], ",".join(sorted("%s^%d" % r for r in refl)))
                if any(sw in guards[bj] for bj in others):
                    ctx.ok(rid, key + "/shared", "guard shared by both axes")
                    continue
                bad = [r for r in refl if r != ac]
                if bad:
                    ctx.violation(rid, key, "%s: the use of the instance's extent along axis %s^%d is guarded by a test computed from reflected(%s): the offset along one axis then depends on the reflection about the other, so for an instance reflected about exactly one axis it is not flush with / not touching its reference" % (f.short, ac[0], ac[1], ", ".join("%s^%d" % r for r in bad)), b.site(sw), key)
                else:
                    ctx.ok(rid, key, "same axis")
    ctx.floor(rid, "axis_guards", n, 4)
