"""Shared E3 rule: panic inventory with discharge, audit table, reachability from entry points."""
import json, os, re
from analysis import panics as pn
from analysis.mir import Body, CallGraph, callee_name, callee_id

AUDIT = json.load(open(os.path.join(os.path.dirname(__file__), "audit", "panics.json")))["entries"]


def _fn_key(site):
    """the enclosing named function: code moved into a closure (loop -> iterator adapter) keeps its key"""
    return re.sub(r"(::\{closure#\d+\})+$", "", site.fn.short)


def site_key(site):
    b = site.body
    t = site.term
    if site.kind.startswith("assert:"):
        ops = ",".join(pn.operand_key(b, o) for o in t["ops"])
        return "%s/%s(%s)" % (_fn_key(site), site.kind, ops)
    if site.kind == "unwrap":
        return "%s/unwrap(%s)" % (_fn_key(site), pn.operand_key(b, t["args"][0]) if t["args"] else "?")
    if site.kind == "index":
        ops = ",".join(pn.operand_key(b, o) for o in t["args"][:2])
        return "%s/index:%s(%s)" % (_fn_key(site), site.detail, ops)
    if site.kind == "panic":
        msg = pn.panic_message(site) or ""
        return "%s/panic:%s" % (_fn_key(site), re.sub(r"\s+", " ", msg)[:40])
    return "%s/%s:%s" % (_fn_key(site), site.kind, site.detail)


_cg = {}


def callgraph(F):
    c = _cg.get(id(F))
    if c is None:
        c = _cg[id(F)] = CallGraph(F)
    return c


def roots_by_short(F, shorts):
    out = []
    for f in F.fns.values():
        if f.short in shorts:
            out.append(f.id)
    return out


SIGNED64 = re.compile(r"^(isize|i64|i128)$")


def is_wide_signed_arith(site):
    """Overflow(Add|Sub|Mul|Neg) on 64-bit signed operands: coordinate arithmetic whose range is value-level"""
    if not site.kind.startswith("assert:Overflow("):
        return False
    op = site.kind[len("assert:Overflow("):-1]
    if op not in ("Add", "Sub", "Mul", "Neg", "Div", "Rem"):
        return False
    b = site.body
    from analysis.mir import op_place, op_const
    for o in site.term["ops"]:
        pl = op_place(o)
        if pl is not None and not pl["p"]:
            if SIGNED64.match(b.local_ty(pl["l"])["s"]):
                return True
        c = op_const(o)
        if c is not None and re.search(r"_(isize|i64)$", c.get("s", "")):
            return True
    return False


def rule_panic_free(ctx, rid, roots, what, scope_prefixes=None, exclude=None, floor=1, skip_wide_signed=False):
    """every potentially panicking operation reachable from `roots` is discharged by a guard rule or audited"""
    F = ctx.F
    pn.register_closure_items(F)
    ctx.rule(rid, "no reachable panic from %s: every assert / unwrap / indexing / explicit panic in reachable workspace code is discharged by a recognised guard or individually audited" % what)
    cg = callgraph(F)
    missing = [r for r in roots if r not in F.fns]
    if not roots or missing:
        ctx.error(rid, "entry points not found: %s" % (missing or "none given"))
        return set()
    reach = cg.reachable_from(roots)
    fns = [F.fns[x] for x in sorted(reach)]
    if scope_prefixes:
        fns = [f for f in fns if f.id.startswith(tuple(scope_prefixes))]
    if exclude:
        fns = [f for f in fns if not exclude(f)]
    inv = pn.inventory(F, fns)
    n_dis = n_aud = n_skip = 0
    for s in inv:
        if skip_wide_signed and is_wide_signed_arith(s):
            n_skip += 1
            continue
        key = site_key(s)
        why = pn.discharge(s, F)
        if why:
            n_dis += 1
            ctx.ok(rid, key, why)
        elif key in AUDIT:
            n_aud += 1
            ctx.ok(rid, key, "audited: " + AUDIT[key])
        else:
            path = cg.path(roots, s.fn.id)
            via = " <- ".join(F.fns[p].short.split("::")[-1] for p in (path or [])[::-1][:6])
            ctx.violation(rid, key, "%s can panic (%s %s) and no guard discharges it; reachable via %s" % (s.fn.short, s.kind, s.detail, via), s.site, key)
    ctx.count(rid + "_functions_reachable", len(fns))
    ctx.floor(rid, rid + "_panic_sites", len(inv), floor)
    ctx.count(rid + "_discharged", n_dis)
    ctx.count(rid + "_audited", n_aud)
    if skip_wide_signed:
        ctx.count(rid + "_coordinate_arithmetic_sites_not_decided", n_skip)
    return reach


def rule_acyclic(ctx, rid, reach, what, scope_prefixes):
    F = ctx.F
    ctx.rule(rid, "bounded stack: the call graph reachable from %s has no recursion" % what)
    cg = callgraph(F)
    nodes = [x for x in reach if x.startswith(tuple(scope_prefixes))]
    sccs = cg.sccs(nodes)
    if not sccs:
        ctx.ok(rid, what, "%d functions, acyclic" % len(nodes))
    for comp in sccs:
        names = sorted(F.fns[x].short for x in comp)
        ctx.violation(rid, "recursion/" + names[0], "recursive call cycle reachable from %s: %s" % (what, names), "%s:%d" % (F.fns[comp[0]].sp[0], F.fns[comp[0]].sp[1]))
