"""C02 — bytes written for a library are a well-formed GDSII stream with that content."""
from rules import gdsrules as gr


def run(ctx):
    g = gr.Gds(ctx)
    gr.rule_enum_numbers(ctx, g, "R02.1")
    gr.rule_writer_header(ctx, g, "R02.2")
    gr.rule_endianness(ctx, g, "R02.3", "gds21::write::", "gds21::write")
    gr.rule_encoder_grammar(ctx, g, "R02.4")
    gr.rule_strans_bits_writer(ctx, g, "R02.5")
    gr.rule_dates_writer(ctx, g, "R02.6")
    gr.rule_writer_content(ctx, g, "R02.7")
    gr.rule_emission_purity(ctx, g, "R02.8")
    gr.rule_string_padding(ctx, g, "R02.5s")
    gr.rule_writer_placement(ctx, g, "R02.9")
    ctx.assume("the oracle rules/oracle/gdsii.json is a faithful transcription of the GDSII Stream Format manual")
    ctx.assume("the bit patterns of reals (GdsFloat64::encode) are value-level and not decided here (C15)")
