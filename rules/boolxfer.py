"""Exact transfer of boolean settings through converters, decided path by path.

A may-dependence rule ("reflected derives from reflect_vert") cannot see a converter that copies the flag on one path and
forgets it on another (a match arm that fills the other settings only, an assignment moved under a sibling's `if let`).
Booleans have a two-point domain, so the question is decidable: at every construction of the target aggregate, on every
path, the operand stored in the flag is either the source flag itself or a constant that the path's branch facts force the
source to equal (including: the Option that holds the source is absent and the constant is the default).
"""
import re
from analysis.walk import Walker, strip_calls, field_chain
from analysis.lefsim import agg_switch


def _field_index(F, adt_id, variant, field):
    adt = F.adts.get(adt_id)
    if not adt:
        # types of crates without facts (generated protobuf messages): read the field order off any aggregate of that type
        for f in F.fns.values():
            for blk in f.body["blocks"] if f.body else ():
                for st in blk["st"]:
                    if st["k"] == "assign" and st["rv"]["k"] == "agg" and st["rv"].get("id") == adt_id and st["rv"].get("fields"):
                        names = st["rv"]["fields"]
                        return names.index(field) if field in names else None
        return None
    for v in adt["variants"]:
        if variant is None or v["name"] == variant:
            for i, fl in enumerate(v["fields"]):
                if fl["name"] == field:
                    return i
    return None


def _is_default_field(t, field):
    """`..Default::default()` leaves: ('f', ('call', '...default', ..), field)"""
    return t[0] == "f" and t[2] == field and t[1][0] == "call" and t[1][1] and re.search(r"Default>::default$|::default$", t[1][1])


def rule_bool_transfer(ctx, rid, f, target, field, src_param, src_chain, label, default=0, none_of=None):
    """target: (adt id, variant or None); src_chain: field chain below parameter `src_param`, in field_chain() notation
    (Option wrappers are transparent there: ['strans', 'reflected']).  none_of: (adt id, variant, field) of an enclosing aggregate whose
    Option-typed field holds the target — a `None` there counts as the flag being `default`."""
    F = ctx.F
    adt_id, variant = target
    idx = _field_index(F, adt_id, variant, field)
    if idx is None:
        ctx.error(rid, "%s: field %s.%s not found" % (label, adt_id, field))
        return
    vname = variant or adt_id.split("::")[-1]
    want_agg = "%s::%s" % (adt_id, vname)
    hits = []
    none_hits = []
    nidx = _field_index(F, none_of[0], none_of[1], none_of[2]) if none_of else None
    nagg = "%s::%s" % (none_of[0], none_of[1] or none_of[0].split("::")[-1]) if none_of else None

    def find_aggs(t, out, depth=0):
        if not isinstance(t, tuple) or depth > 12:
            return
        if t and t[0] == "agg":
            out.append(t)
            for o in t[2]:
                find_aggs(o, out, depth + 1)
        elif t and t[0] in ("op", "call"):
            for o in t[2]:
                find_aggs(o, out, depth + 1)
        elif t and t[0] in ("f", "v", "i"):
            find_aggs(t[1], out, depth + 1)

    def on_return(path):
        ret = path.env.get(0)
        if ret is None or (ret[0] == "agg" and str(ret[1]).endswith("::Err")):
            return
        aggs = []
        find_aggs(ret, aggs)
        facts = dict(path.facts)
        for val in aggs:
            if str(val[1]) == want_agg and idx < len(val[2]):
                hits.append((facts, val[2][idx], 0))
            if nagg and str(val[1]) == nagg and nidx is not None and nidx < len(val[2]):
                o = val[2][nidx]
                if o[0] == "agg" and str(o[1]).endswith("Option::None"):
                    none_hits.append((facts, ("const", "absent", default), 0))
    # aggregates that do not survive into the returned term (pushed into a Vec inside loops): take them where they are
    # built, unless the routine later assigns the flag field of some such aggregate in place (then only the returned term counts)
    stmt_hits = []
    patched_later = any(st["k"] == "assign" and st["p"]["p"] and any(isinstance(e, dict) and e.get("n") == field for e in st["p"]["p"])
                        for blk in f.body["blocks"] for st in blk["st"])

    def on_stmt(path, bb, st, val):
        if val and val[0] == "agg" and str(val[1]) == want_agg and idx < len(val[2]):
            stmt_hits.append((dict(path.facts), val[2][idx], bb))
    w = Walker(f, max_visits=2, follow_errors=False, max_paths=30000)
    w.run(on_return=on_return, on_stmt=on_stmt, on_switch=agg_switch(F))
    if not hits and stmt_hits and not patched_later:
        hits.extend(stmt_hits)
    if w.truncated:
        ctx.note(rid, "%s: path enumeration truncated" % label)
    if not hits and not none_hits:
        ctx.error(rid, "%s: no construction of %s found in %s" % (label, want_agg, f.short))
        return
    chain = list(src_chain)

    def is_src(t):
        root, ch = field_chain(t)
        return root == ("param", src_param) and ch == chain

    def forced(facts, c):
        """do the path facts force the source flag to equal c?"""
        for key, want in facts.items():
            if key[0] == "val" and is_src(key[1]):
                if want[0] == "=" and want[1] == c:
                    return True
                if want[0] == "!=" and len(want[1]) == 1 and (1 - want[1][0]) == c and want[1][0] in (0, 1):
                    return True
            # the Option holding the source is None on this path: the flag does not exist, its value is the default
            if key[0] == "discr" and c == default:
                root, ch = field_chain(key[1])
                if root == ("param", src_param) and ch and len(ch) < len(chain) and chain[:len(ch)] == ch:
                    if want == ("=", 0) or (want[0] == "!=" and 1 in want[1]):
                        return True
        return False
    bad = None
    n = 0
    for facts, o, bb in hits + none_hits:
        n += 1
        t = o
        if is_src(t) or is_src(strip_calls(t)):
            continue
        c = None
        if t[0] == "const" and t[2] in (0, 1):
            c = t[2]
        elif _is_default_field(t, field):
            c = default
        if c is not None and forced(facts, c):
            continue
        if bad is None:
            bad = (o, bb, c)
    key = "%s/%s" % (label, field)
    if bad:
        o, bb, c = bad
        what = ("the constant %s" % bool(c)) if c is not None else "a value other than the source flag"
        ctx.violation(rid, key, "%s: on some path %s.%s is set to %s although nothing on that path says the source flag (%s) has that value: the setting is lost or invented for some combination of the other settings" % (
            f.short, vname, field, what, ".".join(x for x in chain if not x.startswith("as:") and x != "0")), "%s:%d" % (f.sp[0], f.body["blocks"][bb]["sp"][1] if "sp" in f.body["blocks"][bb] else f.sp[1]), key)
    else:
        ctx.ok(rid, key, "%d constructions: the flag is copied, or a constant the branch facts force" % n)


# (function short name, (target adt, variant), flag field, source parameter, source chain, enclosing Option holder or None)
GDS_IMPORT = [
    ("gds::GdsImporter::import_instance", ("layout21raw::data::Instance", None), "reflect_vert", 2, ["strans", "reflected"], None),
    ("gds::GdsImporter::import_instance_array", ("layout21raw::data::Instance", None), "reflect_vert", 2, ["strans", "reflected"], None),
]
GDS_EXPORT = [
    ("gds::GdsExporter::export_instance", ("gds21::data::GdsStrans", None), "reflected", 2, ["reflect_vert"], ("gds21::data::GdsStructRef", None, "strans")),
]
RAW_PROTO = [
    ("proto::ProtoExporter::export_instance", ("vlsir::raw::Instance", None), "reflect_vert", 2, ["reflect_vert"], None),
    ("proto::ProtoImporter::import_instance", ("layout21raw::data::Instance", None), "reflect_vert", 2, ["reflect_vert"], None),
]
TETRIS_PROTO = [
    ("conv::proto::ProtoExporter::export_instance", ("vlsir::tetris::Instance", None), "reflect_horiz", 2, ["reflect_horiz"], None),
    ("conv::proto::ProtoExporter::export_instance", ("vlsir::tetris::Instance", None), "reflect_vert", 2, ["reflect_vert"], None),
    ("conv::proto::ProtoLibImporter::import_instance", ("layout21tetris::instance::Instance", None), "reflect_horiz", 2, ["reflect_horiz"], None),
    ("conv::proto::ProtoLibImporter::import_instance", ("layout21tetris::instance::Instance", None), "reflect_vert", 2, ["reflect_vert"], None),
]


def run_table(ctx, rid, rows):
    ctx.rule(rid, "boolean settings (reflection) are transferred exactly on every path: the flag stored is the source flag, or a constant that the path's branch facts force the source flag to equal")
    F = ctx.F
    for short, target, field, sp, chain, none_of in rows:
        c = [f for f in F.fns.values() if f.short == short]
        if len(c) != 1:
            ctx.error(rid, "converter %s not found uniquely (%d)" % (short, len(c)))
            continue
        rule_bool_transfer(ctx, rid, c[0], target, field, sp, chain, short.split("::")[-1], none_of=none_of)
