#!/bin/bash
# Build the fact-extraction driver offline and warm the dependency target dir + facts cache for /repo's current tree.
set -e
cd "$(dirname "$0")"
export CARGO_NET_OFFLINE=true
(cd driver && cargo build --offline 2>&1 | tail -3)
python3 -c "
import sys; sys.path.insert(0,'.')
from analysis import facts
d = facts.extract()
print('facts ready:', d)
"
