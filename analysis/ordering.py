"""E7 — ordering / dominance helpers on CFGs."""
import re
from .mir import Body, callee_name, callee_id, op_place, op_local, op_const
from .nondet import root_local, receiver_fields


def bool_branches(b, call_bb):
    """for a call returning bool whose result is switched on: (true_target, false_target) or None.
    Follows copies and `Not`."""
    r = bool_switch(b, call_bb)
    return None if r is None else (r[1], r[2])


def bool_switch(b, call_bb):
    """as bool_branches, but (switch_bb, true_target, false_target)"""
    t = b.term(call_bb)
    dest = t["dest"]["l"]
    negate = False
    cur = t["t"]
    locs = {dest}
    seen = set()
    while cur is not None and cur not in seen:
        seen.add(cur)
        blk = b.blocks[cur]
        for st in blk["st"]:
            if st["k"] == "assign" and not st["p"]["p"]:
                rv = st["rv"]
                if rv["k"] == "use" and op_local(rv["o"]) in locs:
                    locs.add(st["p"]["l"])
                if rv["k"] == "un" and rv["op"] == "Not" and op_local(rv["o"]) in locs:
                    locs = {st["p"]["l"]}
                    negate = not negate
        u = blk["term"]
        if u["k"] == "switch":
            if op_local(u["on"]) in locs:
                f = None
                for v, tgt in u["arms"]:
                    if v == 0:
                        f = tgt
                tr = u["else"]
                if f is None:
                    return None
                return (cur, f, tr) if negate else (cur, tr, f)
            return None
        if u["k"] == "goto":
            cur = u["t"]
            continue
        return None
    return None


def reach(b, start, removed=(), removed_edges=()):
    """blocks reachable from start over normal edges, not entering `removed` blocks nor taking `removed_edges`"""
    removed = set(removed)
    removed_edges = set(removed_edges)
    if start in removed:
        return set()
    seen = {start}
    st = [start]
    while st:
        x = st.pop()
        for s in b.succs[x]:
            if (x, s) in removed_edges:
                continue
            if s not in seen and s not in removed:
                seen.add(s)
                st.append(s)
    return seen


def ret_kind_blocks(b):
    """classify blocks that assign the return place: 'ok' (Result::Ok / Option::Some / plain), 'err' (Err aggregate,
    from_residual, or a call whose result is returned directly)"""
    ok, err = set(), set()
    for bi, blk in enumerate(b.blocks):
        if bi not in b.reachable or blk["cleanup"]:
            continue
        for st in blk["st"]:
            if st["k"] == "assign" and st["p"]["l"] == 0 and not st["p"]["p"]:
                rv = st["rv"]
                if rv["k"] == "agg" and rv.get("ak") == "adt":
                    if rv["variant"] in ("Err", "None", "Break"):
                        err.add(bi)
                    else:
                        ok.add(bi)
                else:
                    ok.add(bi)
        t = blk["term"]
        if t["k"] == "call" and t["dest"]["l"] == 0 and not t["dest"]["p"]:
            n = callee_name(t) or ""
            if "from_residual" in n:
                err.add(bi)
            else:
                err.add(bi)  # `return f()` — treated as an abnormal (non-Ok-literal) exit; refined by callers if needed
    return ok, err


def field_calls(b, pattern, self_local=1):
    """[(bb, term, field path)] of calls matching `pattern` whose receiver (arg0) is a field of *self"""
    out = []
    for bi, t in b.calls():
        n = callee_name(t) or ""
        if re.search(pattern, n) and t["args"]:
            if root_local(b, t["args"][0]) == self_local:
                out.append((bi, t, receiver_fields(b, t["args"][0])))
    return out


def enum_switches(F, b, ty_suffix):
    """[(bb, {variant name: target bb}, otherwise bb, enum id)] for SwitchInt on discriminant(place) where the place's
    type name ends with ty_suffix"""
    out = []
    for bi, blk in enumerate(b.blocks):
        if bi not in b.reachable or blk["cleanup"]:
            continue
        t = blk["term"]
        if t["k"] != "switch":
            continue
        rv = b.def_rvalue(t["on"])
        if not rv or rv["k"] != "discr":
            continue
        ty = rv["ty"]
        # look through references
        while ty.get("k") == "ref":
            ty = ty["to"]
        if ty.get("k") != "adt" or not ty["id"].endswith(ty_suffix):
            continue
        arms = {}
        for v, tgt in t["arms"]:
            arms[F.variant_of(ty["id"], v) or str(v)] = tgt
        out.append((bi, arms, t["else"], ty["id"]))
    return out


def region(b, tgt):
    """blocks dominated by tgt"""
    return {x for x in b.reachable if b.dominates(tgt, x)}


def next_arms(b, x):
    """for a block x ending in `Iterator::next(..)`: (none_target, some_target, switch_bb) of the discriminant switch on its result"""
    t = b.term(x)
    dest = t["dest"]["l"]
    cur = t["t"]
    for _ in range(6):
        if cur is None:
            return None
        u = b.term(cur)
        if u["k"] == "switch":
            rv = b.def_rvalue(u["on"])
            if rv and rv["k"] == "discr" and rv["p"]["l"] == dest:
                arms = dict((v, tgt) for v, tgt in u["arms"])
                none_t = arms.get(0)
                some_t = arms.get(1, u["else"])
                if none_t is None:
                    none_t = u["else"]
                return none_t, some_t, cur
            return None
        if u["k"] == "goto":
            cur = u["t"]
            continue
        return None
    return None


def normal_exit_reachable(b, start, blocks_removed=(), edges_removed=()):
    """can a normal (non-error) return be reached from `start` without entering error-return blocks?"""
    okb, errb = ret_kind_blocks(b)
    r = reach(b, start, removed=set(errb) | set(blocks_removed), removed_edges=edges_removed)
    for x in r:
        if x in okb:
            return True
        if b.term(x)["k"] == "return" and not (okb or errb):
            return True
    # unit functions: `_0` may never be assigned explicitly
    if not okb:
        return any(b.term(x)["k"] == "return" for x in r)
    return False


def loop_iterations_all_call(b, call_bbs, detail=None):
    """for each natural loop driven by Iterator::next that contains one of call_bbs: True iff
      (a) no path from the Some-continuation of next() back to the loop header avoids all call_bbs (no item is skipped), and
      (b) the loop is only left normally when the iterator is exhausted: every other exit edge leads to error returns only
          (an early `break`/`return Ok` would leave later items unprocessed).
    Error exits leave the loop, so they do not count.  Returns list of (header, ok); reasons are appended to `detail`."""
    res = []
    for header, blocks in b.loops():
        inloop = [p for p in call_bbs if p in blocks]
        if not inloop:
            continue
        nexts = [x for x in blocks if b.term(x)["k"] == "call" and re.search(r"Iterator>?::next$|Iterator for .*>::next$", callee_name(b.term(x)) or "")]
        if not nexts:
            continue
        ok = True
        for x in nexts:
            t = b.term(x)
            # innermost loop only: skip if next() belongs to a nested loop that does not contain the calls
            r = reach(b, t["t"], removed=set(inloop))
            r &= blocks
            arms = next_arms(b, x)
            start = t["t"]
            if arms is not None:
                # paths through the None arm leave the loop legitimately
                r = reach(b, arms[1], removed=set(inloop)) & blocks
            back = [p for p in b.preds[header] if p in r]
            if back:
                ok = False
                if detail is not None:
                    detail.append("an iteration can return to the loop header without the call")
        # (b) early normal exits — only for the loop's own driver (the next() whose None arm leaves this loop)
        drivers = [x for x in nexts if next_arms(b, x) is not None and next_arms(b, x)[0] not in blocks]
        if drivers:
            none_edges = {(next_arms(b, x)[2], next_arms(b, x)[0]) for x in drivers}
            for x in blocks:
                if b.blocks[x]["cleanup"]:
                    continue
                for y in b.succs[x]:
                    if y in blocks or (x, y) in none_edges or b.blocks[y]["cleanup"]:
                        continue
                    if normal_exit_reachable(b, y):
                        ok = False
                        if detail is not None:
                            detail.append("the loop can be left at %s before the iterator is exhausted, continuing to a normal return" % b.site(x))
        res.append((header, ok))
    return res


_always_err_cache = {}


def always_err(F, fid, _depth=0):
    """function whose every normal return assigns an Err (or which diverges): e.g. `fail(..)` helpers"""
    if fid in _always_err_cache:
        return _always_err_cache[fid]
    f = F.fns.get(fid)
    if f is None or _depth > 4:
        return False
    _always_err_cache[fid] = False
    b = Body(f)
    okb, errb = ret_kind_blocks(b)
    res = True
    if okb:
        res = False
    else:
        for bi, t in b.calls():
            if t["dest"]["l"] == 0 and not t["dest"]["p"]:
                if "from_residual" in (callee_name(t) or ""):
                    continue
                cid = callee_id(t)
                if cid == fid or not always_err(F, cid, _depth + 1):
                    res = False
        if not errb:
            res = False
    _always_err_cache[fid] = res
    return res


def infeasible_blocks(F, b):
    """blocks only entered on the Continue edge of `always_err_call(..)?` — never executed"""
    out = set()
    for bj, u in b.calls():
        if (callee_name(u) or "").endswith("Try>::branch") and u["args"] and u["t"] is not None:
            inner = b.def_call(u["args"][0])
            if inner is not None:
                cid = callee_id(inner)
                impls = [cid] if cid in F.fns else [g.id for g in F.fns.values() if g.trait_item == cid]
                if impls and all(always_err(F, c) for c in impls):
                    sw = b.term(u["t"])
                    if sw["k"] == "switch":
                        for v, tgt in sw["arms"]:
                            if v == 0 and len(b.preds[tgt]) == 1:
                                out.add(tgt)
    return out


def pruned_body(F, b):
    """a Body over the same MIR whose CFG omits infeasible blocks (dominators are recomputed on it)"""
    bad = infeasible_blocks(F, b)
    if not bad:
        return b
    nb = Body(b.fn, b.b)
    nb._succ = [[x for x in ss if x not in bad] for ss in b.succs]
    return nb


EXHAUSTIVE_ADAPTERS = re.compile(r"Iterator>?::(for_each|try_for_each|map|try_fold|fold|inspect|filter_map|flat_map)$")
SHORT_CIRCUIT_ADAPTERS = re.compile(r"Iterator>?::(any|all|find|find_map|position|take_while|skip_while|take|step_by|nth|last|min|max)(_by|_by_key)?$")


def closure_loops(F, fn):
    """[(closure Fn, adapter call bb, adapter name)] for closures created in `fn` and handed to an iterator adapter:
    `v.iter().for_each(|x| ..)` is a loop whose body is the closure"""
    out = []
    if not fn.body:
        return out
    b = Body(fn)
    for bi, t in b.calls():
        n = callee_name(t) or ""
        if not re.search(r"Iterator>?::\w+$", n):
            continue
        for a in t["args"][1:]:
            rv = b.def_rvalue(a)
            if rv is not None and rv["k"] == "agg" and str(rv.get("id", "")).startswith(fn.id + "::{closure"):
                cf = F.fns.get(rv["id"])
                if cf is not None and cf.body:
                    out.append((cf, bi, n))
    return out


def closure_calls(F, fn):
    """[(closure Fn, call bb, callee name)] for every closure created in `fn` and handed to ANY call (Option / Result
    combinators as well as iterator adapters): `dep.map_or(Ok(()), |d| orderer.push(&d))`"""
    out = []
    if not fn.body:
        return out
    b = Body(fn)
    for bi, t in b.calls():
        for a in t["args"]:
            rv = b.def_rvalue(a)
            if rv is not None and rv["k"] == "agg" and str(rv.get("id", "")).startswith(fn.id + "::{closure"):
                cf = F.fns.get(rv["id"])
                if cf is not None and cf.body:
                    out.append((cf, bi, callee_name(t) or ""))
    return out


def every_item_handled(F, fn, is_target, detail=None):
    """Every item of every loop of `fn` that contains a target call is handled: native loops by loop_iterations_all_call,
    iterator-adapter loops by requiring an exhaustive adapter whose closure reaches a target call on every normal return.
    is_target(term) -> bool.  Returns list of (description, ok)."""
    b = Body(fn)
    res = []
    tb = [bi for bi, t in b.calls() if is_target(t)]
    for header, ok in loop_iterations_all_call(b, tb, detail):
        res.append(("loop@%s" % b.site(header), ok))
    for cf, abb, an in closure_loops(F, fn):
        cb = Body(cf)
        ctb = [bi for bi, t in cb.calls() if is_target(t)]
        if not ctb:
            continue
        ok = True
        if not EXHAUSTIVE_ADAPTERS.search(an):
            ok = False
            if detail is not None:
                detail.append("the items are visited through %s, which can stop before the last item" % an.split("::")[-1])
        if normal_exit_reachable(cb, 0, blocks_removed=ctb):
            ok = False
            if detail is not None:
                detail.append("the closure can return normally without the call")
        res.append(("closure@%s" % b.site(abb), ok))
    # a whole-iterator consumer outside any loop: `out.extend(items.iter().map(f))` handles every item iff every adapter
    # between the container and the consumer passes every item on
    in_loop = set()
    for header, blocks in b.loops():
        in_loop |= set(blocks)
    for bi in tb:
        t = b.term(bi)
        n = callee_name(t) or ""
        if bi in in_loop or not CONSUMERS.search(n) or not t["args"]:
            continue
        # `dest.extend(iter)` / `extend_from_slice(dest, src)`: the source is the second argument; `iter.collect()`,
        # `from_iter(iter)`: the first
        src_i = 1 if re.search(r"::extend$|::extend_from_slice$", n) else 0
        if src_i >= len(t["args"]):
            continue
        ok, why = exhaustive_source(b, t["args"][src_i])
        if not ok and detail is not None:
            detail.append(why)
        res.append(("consumer@%s" % b.site(bi), ok))
    return res


CONSUMERS = re.compile(r"Extend<.*>>?::extend$|::extend_from_slice$|FromIterator<.*>>?::from_iter$|Iterator>?::collect$")
LAZY_EXHAUSTIVE = re.compile(r"Iterator>?::(map|cloned|copied|enumerate|rev|chain|flat_map|flatten|inspect|peekable|by_ref)$|IntoIterator>?::into_iter$|::(iter|iter_mut|into_iter|values|keys|drain)$|Deref>?::deref$|AsRef<.*>>?::as_ref$|::as_slice$")


def exhaustive_source(b, o, depth=0):
    """does the iterator operand `o` yield every item of the container(s) it starts from?  (ok, reason)"""
    if depth > 12:
        return False, "iterator chain too deep to follow"
    src = b.def_call(o)
    if src is None:
        return True, ""          # a container / slice handed over whole
    n = callee_name(src) or ""
    if not LAZY_EXHAUSTIVE.search(n):
        return False, "the items pass through %s, which can drop or stop before some of them" % n.split("::")[-1]
    if not src["args"]:
        return True, ""
    args = src["args"][:2] if n.endswith("::chain") else src["args"][:1]
    for a in args:
        ok, why = exhaustive_source(b, a, depth + 1)
        if not ok:
            return ok, why
    return True, ""
