"""E0 harness: run the l21facts driver over /repo's current working tree (hash-keyed cache) and load facts.

Nothing here executes Layout21 code: `cargo check` only type-checks; the driver dumps MIR/ADT/AST facts.
"""
import hashlib, json, os, subprocess, sys, time, shutil, glob

VERIF = os.path.dirname(os.path.dirname(os.path.abspath(__file__)))
REPO = os.environ.get("L21_REPO", "/repo")
WORK = os.environ.get("L21_WORK") or os.path.join(VERIF, ".work")
DRIVER = os.path.join(VERIF, "driver", "target", "debug", "l21facts")
MEMBERS = ["gds21", "lef21", "layout21utils", "layout21raw", "layout21tetris", "layout21protos",
           "layout21converters", "layout21"]
EXPECTED_FILES = [
    "gds21.lib", "lef21.lib", "lefrw.bin", "layout21utils.lib", "layout21raw.lib", "layout21tetris.lib",
    "layout21protos.lib", "layout21converters.lib", "layout21.lib",
    "gds2json.bin", "gds2markup.bin", "gds2proto.bin", "gds2toml.bin", "gds2yaml.bin", "lef2yaml.bin",
    "markup2gds.bin", "proto2gds.bin",
]


def nightly_sysroot():
    return subprocess.check_output(["rustc", "+nightly", "--print", "sysroot"], text=True).strip()


def tree_hash(repo=REPO):
    """sha256 over every file that can influence the type-checked program."""
    h = hashlib.sha256()
    files = []
    for root, dirs, fs in os.walk(repo):
        dirs[:] = sorted(d for d in dirs if d not in (".git", "target", "resources", "scratch"))
        for f in sorted(fs):
            if f.endswith((".rs", ".toml", ".lock", ".proto")):
                files.append(os.path.join(root, f))
    for p in files:
        h.update(os.path.relpath(p, repo).encode())
        h.update(b"\0")
        with open(p, "rb") as fh:
            h.update(fh.read())
        h.update(b"\0")
    # the driver itself is part of the key
    try:
        with open(DRIVER, "rb") as fh:
            h.update(hashlib.sha256(fh.read()).digest())
    except FileNotFoundError:
        pass
    return h.hexdigest()[:24]


def _env(outdir, target, tag=""):
    env = dict(os.environ)
    sysroot = nightly_sysroot()
    env["LD_LIBRARY_PATH"] = os.path.join(sysroot, "lib") + ":" + env.get("LD_LIBRARY_PATH", "")
    env["RUSTFLAGS"] = "-Zmir-opt-level=0 -Awarnings"
    env["RUSTC_WORKSPACE_WRAPPER"] = DRIVER
    env["L21FACTS_OUT"] = outdir
    env["L21FACTS_TAG"] = tag
    env["CARGO_TARGET_DIR"] = target
    env["CARGO_NET_OFFLINE"] = "true"
    env.pop("RUSTC_WRAPPER", None)
    return env


def build_driver():
    if os.path.exists(DRIVER):
        src_m = max(os.path.getmtime(p) for p in glob.glob(os.path.join(VERIF, "driver", "src", "*.rs")))
        if os.path.getmtime(DRIVER) >= src_m:
            return
    env = dict(os.environ)
    env["CARGO_NET_OFFLINE"] = "true"
    r = subprocess.run(["cargo", "build", "--offline"], cwd=os.path.join(VERIF, "driver"), env=env,
                       stdout=subprocess.PIPE, stderr=subprocess.STDOUT, text=True)
    if r.returncode != 0:
        sys.stdout.write(r.stdout)
        raise SystemExit("ERROR: driver build failed")


def _lock(path):
    import fcntl
    os.makedirs(os.path.dirname(path), exist_ok=True)
    fh = open(path, "w")
    fcntl.flock(fh, fcntl.LOCK_EX)
    return fh


def extract(repo=REPO, force=False, quiet=True):
    """Return the directory with fresh facts for the current tree of `repo` (extracting if not cached)."""
    build_driver()
    lock = _lock(os.path.join(WORK, "extract.lock"))
    try:
        h = tree_hash(repo)
        outdir = os.path.join(WORK, "facts", h)
        ok_marker = os.path.join(outdir, "OK")
        if os.path.exists(ok_marker) and not force:
            return outdir
        if os.path.exists(outdir):
            shutil.rmtree(outdir)
        os.makedirs(outdir)
        target = os.path.join(WORK, "target")
        env = _env(outdir, target)
        # cargo's freshness cache would skip the wrapper for unchanged members: clean members first
        for m in MEMBERS:
            subprocess.run(["cargo", "+nightly", "clean", "--offline", "-p", m], cwd=repo, env=env,
                           stdout=subprocess.DEVNULL, stderr=subprocess.DEVNULL)
        t0 = time.time()
        r = subprocess.run(["cargo", "+nightly", "check", "--offline", "--locked", "--workspace"], cwd=repo, env=env,
                           stdout=subprocess.PIPE, stderr=subprocess.STDOUT, text=True)
        if r.returncode != 0:
            sys.stdout.write(r.stdout[-6000:])
            raise SystemExit("ERROR: cargo check of /repo failed; facts not extracted (check is broken, not passing)")
        missing = [f for f in EXPECTED_FILES if not os.path.exists(os.path.join(outdir, f + ".json"))]
        if missing:
            raise SystemExit("ERROR: fact files missing for crates: %s (fail closed)" % missing)
        # cargo metadata (resolved features)
        md = subprocess.run(["cargo", "metadata", "--offline", "--locked", "--format-version", "1"], cwd=repo,
                            env=env, stdout=subprocess.PIPE, stderr=subprocess.PIPE, text=True)
        if md.returncode != 0:
            raise SystemExit("ERROR: cargo metadata failed: " + md.stderr[-2000:])
        with open(os.path.join(outdir, "metadata.json"), "w") as fh:
            fh.write(md.stdout)
        with open(ok_marker, "w") as fh:
            fh.write(json.dumps({"extract_s": round(time.time() - t0, 2), "hash": h}))
        # prune old caches (keep the 6 most recent)
        ds = sorted(glob.glob(os.path.join(WORK, "facts", "*")), key=os.path.getmtime, reverse=True)
        for d in ds[6:]:
            shutil.rmtree(d, ignore_errors=True)
        return outdir
    finally:
        lock.close()


class Fn:
    __slots__ = ("id", "name", "kind", "impl", "trait", "self_ty", "sp", "derived", "pub", "inputs", "output",
                 "trait_item", "root", "body", "promoted", "crate", "raw")

    def __init__(self, j, crate):
        self.raw = j
        self.crate = crate
        self.id = j["id"]
        self.name = j["name"]
        self.kind = j["kind"]
        self.impl = j.get("impl")
        self.trait = j.get("trait")
        self.self_ty = j.get("self")
        self.sp = j["sp"]
        self.derived = j.get("derived", False)
        self.pub = j.get("pub", False)
        self.inputs = j.get("inputs", [])
        self.output = j.get("output")
        self.trait_item = j.get("trait_item")
        self.root = j.get("root")
        self.body = j["body"]
        self.promoted = j.get("promoted", [])

    @property
    def file(self):
        return self.sp[0]

    @property
    def short(self):
        """readable name: Type::method (generic args stripped)"""
        return short_name(self.name)

    def __repr__(self):
        return "<Fn %s>" % self.id


def short_name(name):
    import re
    n = re.sub(r"::<[^<>]*(<[^<>]*>[^<>]*)*>", "", name)
    n = re.sub(r"<[^<>]*(<[^<>]*>[^<>]*)*>", "", n) if n.startswith("<") and " as " not in n else n
    return n


class Facts:
    def __init__(self, outdir):
        self.dir = outdir
        self.crates = {}
        self.fns = {}
        self.adts = {}
        self.enums = {}
        self.impls = []
        self.ast = {}
        for f in EXPECTED_FILES:
            with open(os.path.join(outdir, f + ".json")) as fh:
                j = json.load(fh)
            key = f
            self.crates[key] = j
            for a in j["adts"]:
                self.adts[a["id"]] = a
            for e in j["enums"]:
                self.enums[e["id"]] = e
            for i in j["impls"]:
                i["crate"] = key
                self.impls.append(i)
            for a in (j.get("ast") or []):
                self.ast[a["path"]] = a
            for fj in j["fns"]:
                fn = Fn(fj, key)
                self.fns[fn.id] = fn
        with open(os.path.join(outdir, "metadata.json")) as fh:
            self.metadata = json.load(fh)
        self.hash = os.path.basename(outdir)

    def fn(self, fid):
        return self.fns.get(fid)

    def find(self, pred):
        return [f for f in self.fns.values() if pred(f)]

    def by_short(self, short):
        return [f for f in self.fns.values() if f.short == short]

    def variant_of(self, enum_id, discr):
        e = self.enums.get(enum_id)
        if not e:
            return None
        for n, d, _ in e["variants"]:
            if d == discr:
                return n
        return None


def load(repo=REPO, force=False):
    return Facts(extract(repo, force=force))


# ------------------------------------------------------------------------------------------------------
# debug pretty printer
# ------------------------------------------------------------------------------------------------------
def fmt_place(p):
    s = "_%d" % p["l"]
    for e in p["p"]:
        if e == "*":
            s = "(*%s)" % s
        elif isinstance(e, str):
            s += "." + e
        elif "f" in e:
            s += "." + e["n"]
        elif "ix" in e:
            s += "[_%d]" % e["ix"]
        elif "ci" in e:
            s += "[%s%d]" % ("-" if e["fe"] else "", e["ci"])
        elif "sub" in e:
            s += "[%d..%d]" % tuple(e["sub"])
        elif "dc" in e:
            s = "(%s as %s)" % (s, e["dc"])
    return s


def fmt_op(o):
    if "cp" in o:
        return fmt_place(o["cp"])
    if "mv" in o:
        return "move " + fmt_place(o["mv"])
    if "c" in o:
        c = o["c"]
        if "fn" in c:
            return "fn:" + (c.get("rname") or c["fname"])
        return c["s"]
    return str(o)


def fmt_rv(rv):
    k = rv["k"]
    if k == "use":
        return fmt_op(rv["o"])
    if k == "ref":
        return ("&mut " if rv["mut"] else "&") + fmt_place(rv["p"])
    if k == "bin":
        return "%s(%s, %s)" % (rv["op"], fmt_op(rv["l"]), fmt_op(rv["r"]))
    if k == "un":
        return "%s(%s)" % (rv["op"], fmt_op(rv["o"]))
    if k == "cast":
        return "%s as %s [%s]" % (fmt_op(rv["o"]), rv["to"]["s"], rv["ck"])
    if k == "discr":
        return "discriminant(%s)" % fmt_place(rv["p"])
    if k == "agg":
        ak = rv["ak"]
        head = ak
        if ak == "adt":
            head = "%s::%s" % (rv["id"].split("::")[-1], rv["variant"])
        elif ak == "closure":
            head = "closure " + rv["id"]
        return "%s{%s}" % (head, ", ".join(fmt_op(o) for o in rv["ops"]))
    if k == "repeat":
        return "[%s; %s]" % (fmt_op(rv["o"]), rv["n"])
    return rv.get("s", k)


def dump_fn(fn, out=sys.stdout, body=None):
    b = body or fn.body
    out.write("fn %s  [%s]  %s:%d\n" % (fn.id, fn.name, fn.sp[0], fn.sp[1]))
    for i, l in enumerate(b["locals"]):
        out.write("  let _%d: %s%s\n" % (i, l["ty"]["s"], ("  // " + l["n"]) if "n" in l else ""))
    for i, blk in enumerate(b["blocks"]):
        out.write("  bb%d%s:\n" % (i, " (cleanup)" if blk["cleanup"] else ""))
        for st in blk["st"]:
            if st["k"] == "assign":
                out.write("    %s = %s\n" % (fmt_place(st["p"]), fmt_rv(st["rv"])))
            else:
                out.write("    setdiscr %s = %s\n" % (fmt_place(st["p"]), st["variant"]))
        t = blk["term"]
        k = t["k"]
        if k == "call":
            out.write("    %s = call %s(%s) -> bb%s  [line %d]\n" % (fmt_place(t["dest"]), fmt_op(t["f"]),
                                                           ", ".join(fmt_op(a) for a in t["args"]), t["t"], blk["sp"][1]))
        elif k == "switch":
            out.write("    switch %s {%s, else: bb%d}\n" % (fmt_op(t["on"]), ", ".join("%d: bb%d" % tuple(a) for a in t["arms"]), t["else"]))
        elif k == "assert":
            out.write("    assert %s(%s) cond=%s==%s -> bb%d\n" % (t["kind"], ", ".join(fmt_op(o) for o in t["ops"]), fmt_op(t["cond"]), t["expected"], t["t"]))
        elif k in ("goto", "drop"):
            out.write("    %s -> bb%d\n" % (k, t["t"]))
        else:
            out.write("    %s\n" % k)


if __name__ == "__main__":
    import argparse
    ap = argparse.ArgumentParser()
    ap.add_argument("--dump", help="substring of fn id/name to dump")
    ap.add_argument("--list", help="substring filter to list fns")
    ap.add_argument("--force", action="store_true")
    a = ap.parse_args()
    t0 = time.time()
    F = load(force=a.force)
    print("facts:", F.dir, "fns:", len(F.fns), "adts:", len(F.adts), "load_s: %.1f" % (time.time() - t0))
    if a.list:
        for f in F.fns.values():
            if a.list in f.id or a.list in f.name:
                print(f.id, "|", f.name, "|", f.short)
    if a.dump:
        for f in F.fns.values():
            if a.dump in f.id or a.dump in f.name:
                dump_fn(f)
                for i, p in enumerate(f.promoted):
                    print("  -- promoted[%d]" % i)
                    dump_fn(f, body=p)
