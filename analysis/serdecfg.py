"""E5 — serde attribute and cargo-feature facts."""
import re


def parse_serde_attr(attr):
    """'#[serde(default, skip_serializing_if = "Option::is_none")]' -> dict of items (value True or string)"""
    m = re.match(r"#\[serde\((.*)\)\]$", attr.strip(), re.S)
    if not m:
        return None
    body = m.group(1)
    items = {}
    depth = 0
    cur = ""
    parts = []
    instr = False
    for ch in body:
        if ch == '"':
            instr = not instr
        if not instr:
            if ch == "(":
                depth += 1
            elif ch == ")":
                depth -= 1
            elif ch == "," and depth == 0:
                parts.append(cur)
                cur = ""
                continue
        cur += ch
    if cur.strip():
        parts.append(cur)
    for p in parts:
        p = p.strip()
        if not p:
            continue
        m2 = re.match(r"(\w+)\s*=\s*\"(.*)\"$", p, re.S)
        if m2:
            items[m2.group(1)] = m2.group(2)
            continue
        m3 = re.match(r"(\w+)\s*\((.*)\)$", p, re.S)
        if m3:
            sub = {}
            for q in re.findall(r"(\w+)\s*=\s*\"([^\"]*)\"", m3.group(2)):
                sub[q[0]] = q[1]
            items[m3.group(1)] = sub
            continue
        items[p] = True
    return items


def serde_items(attrs):
    out = {}
    for a in attrs:
        d = parse_serde_attr(a)
        if d:
            out.update(d)
    return out


def ty_adts(ty, acc=None):
    """all ADT ids mentioned in a structured type tree"""
    if acc is None:
        acc = set()
    if not isinstance(ty, dict):
        return acc
    if ty.get("k") == "adt":
        acc.add(ty["id"])
    for a in ty.get("args", []):
        ty_adts(a, acc)
    if "to" in ty:
        ty_adts(ty["to"], acc)
    return acc


def resolved_features(metadata, crate):
    for n in metadata["resolve"]["nodes"]:
        if re.search(r"[#/]%s@" % re.escape(crate), n["id"]):
            return n["features"]
    return None
