"""Control-dependence purity: which inputs decide whether a call is made.

`controlling_switches(b, bb)` — the switch blocks `bb` is (transitively) control dependent on.
`access_path(b, place)`     — a place resolved through reborrows, copies, tuple temporaries and deref-like calls to
                              (root, fields): root is a parameter local or the local/call that produced the value.
`classify_switch(b, sw)`    — what a switch tests: ('try',), ('next',), ('call', callee, recv path), ('discr', path),
                              ('cmp', [paths]) or ('other', text).
`slice_paths(b, operands)`  — access paths read anywhere in the intraprocedural backward slice of the operands.

Used by rules of the form: "whether X is emitted / visited may depend only on where X's data is stored".
"""
import re
from .mir import Body, op_place, op_const, op_local, callee_name

DEREF_LIKE = re.compile(
    r"(Deref|DerefMut|Index|IndexMut|AsMut|AsRef|BorrowMut|Borrow)(<.*>)?>::(deref|deref_mut|index|index_mut|as_mut|as_ref|borrow_mut|borrow)$"
    r"|::(as_ref|as_mut|as_deref|as_deref_mut|as_slice|as_mut_slice|as_str|unwrap|expect|iter|iter_mut|into_iter|values|keys|read|write|lock|clone|borrow|borrow_mut|get|get_mut|first|last|to_owned|to_vec|enumerate|rev|cloned|copied|peekable|by_ref)$"
    r"|Try>::branch$|Iterator>::next$|IntoIterator>::into_iter$|::from$|::into$")


def _normal_graph(b):
    """successor lists with error continuations removed: an edge into a block from which no normal (non-error) return is
    reachable is dropped, so `x?;` and `return Err(..)` do not make everything after them control dependent on x"""
    if getattr(b, "_normal_graph", None) is not None:
        return b._normal_graph
    from . import ordering as od
    okb, errb = od.ret_kind_blocks(b)
    n = len(b.blocks)
    rets = [i for i in b.reachable if b.term(i)["k"] == "return"]
    # blocks that can reach a normal return: backward closure from ok-assigning blocks (or from returns when nothing is classified)
    good = set()
    seeds = set(okb) if okb else set(rets)
    # a block in errb assigns an error result: do not walk back through it from the shared return block
    work = list(seeds)
    preds = b.preds
    while work:
        x = work.pop()
        if x in good:
            continue
        good.add(x)
        for p in preds[x]:
            if p not in good and p not in errb:
                work.append(p)
    # forward part: blocks after the ok assignment up to the return
    for s0 in list(seeds):
        st = [s0]
        while st:
            x = st.pop()
            for y in b.succs[x]:
                if y not in good:
                    good.add(y)
                    st.append(y)
    succs = [[y for y in b.succs[i] if y in good] for i in range(n)]
    b._normal_graph = (succs, good)
    return b._normal_graph


def _pdom_normal(b):
    if getattr(b, "_pdom_normal", None) is not None:
        return b._pdom_normal
    succs, good = _normal_graph(b)
    n = len(b.blocks)
    exitn = n
    sx = [list(s) for s in succs] + [[]]
    for i in range(n):
        if b.term(i)["k"] == "return":
            sx[i].append(exitn)
    px = [[] for _ in range(n + 1)]
    for i, ss in enumerate(sx):
        for y in ss:
            px[y].append(i)
    b._pdom_normal = b._compute_dom({exitn}, px, sx, n + 1)
    return b._pdom_normal


def controlling_switches(b, bb):
    """switch blocks S such that bb is transitively control dependent on S, over the normal-flow graph (error exits removed;
    virtual exit at returns)"""
    succs, good = _normal_graph(b)
    pdom = _pdom_normal(b)

    def postdom(a, c):
        return bool(pdom[c] >> a & 1)
    out = set()
    work = [bb]
    seen = set()
    while work:
        x = work.pop()
        if x in seen:
            continue
        seen.add(x)
        for s in b.reachable:
            t = b.term(s)
            if t["k"] != "switch" or b.blocks[s]["cleanup"] or s == x:
                continue
            ss = [y for y in succs[s] if not b.is_unreachable_blk(y)]
            if len(ss) < 2:
                continue
            # x is control dependent on s: x post-dominates some successor of s (or is it), but not every successor
            pd = [(y == x or postdom(x, y)) for y in ss]
            if any(pd) and not all(pd):
                if s not in out:
                    out.add(s)
                    work.append(s)
    return out


def access_path(b, place, depth=0):
    """(root, fields): root = ('arg', n) | ('local', n) | ('call', callee name, bb); fields = tuple of field names,
    variant names (for downcasts) and '[*]' for iteration / indexing"""
    if depth > 40:
        return (("local", place["l"]), ())
    fields = []
    for e in place["p"]:
        if e == "*":
            continue
        if isinstance(e, dict):
            if "f" in e:
                fields.append(e.get("n") if e.get("n") is not None else str(e["f"]))
            elif "dc" in e:
                fields.append("as " + str(e.get("n", e["dc"])))
            else:
                fields.append("[*]")
        elif isinstance(e, str):
            fields.append("[*]")
    l = place["l"]
    if 1 <= l <= b.argc:
        return (("arg", l), tuple(fields))
    d = b.single_def(l)
    if d is None:
        return (("local", l), tuple(fields))
    if d[2] == "assign":
        rv = d[3]["rv"]
        q = None
        if rv["k"] in ("ref", "rawptr"):
            q = rv["p"]
        elif rv["k"] in ("use", "cast"):
            q = op_place(rv["o"])
        elif rv["k"] == "agg" and rv.get("ak") == "tuple" and fields:
            try:
                i = int(fields[0])
            except ValueError:
                i = None
            if i is not None and i < len(rv["ops"]):
                q = op_place(rv["ops"][i])
                fields = fields[1:]
        if q is not None:
            r, f0 = access_path(b, q, depth + 1)
            return (r, f0 + tuple(fields))
        return (("local", l), tuple(fields))
    if d[2] == "call":
        t = d[3]
        n = callee_name(t) or ""
        if DEREF_LIKE.search(n) and t["args"]:
            q = op_place(t["args"][0])
            if q is not None:
                r, f0 = access_path(b, q, depth + 1)
                # drop the wrappers' own projections (`as Continue`.0, `as Some`.0 on the call result)
                rest = [f for f in fields if not f.startswith("as ") and f != "0"] if re.search(r"branch$|next$|::get$|::get_mut$|::first$|::last$", n) else fields
                if re.search(r"next$|::get$|::get_mut$|index$|index_mut$|::first$|::last$", n):
                    f0 = f0 + ("[*]",)
                return (r, f0 + tuple(rest))
        return (("call", n, d[0]), tuple(fields))
    return (("local", l), tuple(fields))


def _strip(path):
    """comparable form of a field tuple: variant downcasts of Option and positional `.0` are dropped, consecutive [*] collapsed"""
    out = []
    for f in path:
        if f in ("as Some", "as Ok", "as Continue", "0", "as 1"):
            continue
        if f == "[*]" and out and out[-1] == "[*]":
            continue
        out.append(f)
    return tuple(out)


def prefix_compatible(p, q):
    """(root, fields) p is a prefix of q (same root): q is data stored under p"""
    if p[0] != q[0]:
        return False
    a, c = _strip(p[1]), _strip(q[1])
    return len(a) <= len(c) and a == c[:len(a)]


def slice_paths(b, operands, max_nodes=400):
    """access paths of every place read in the backward slice (through single and multiple definitions, call arguments) of operands"""
    paths = set()
    seen = set()
    work = []
    for o in operands:
        p = op_place(o)
        if p is not None:
            work.append(p)
    n = 0
    while work and n < max_nodes:
        p = work.pop()
        n += 1
        paths.add(access_path(b, p))
        l = p["l"]
        if 1 <= l <= b.argc:
            continue
        # field-sensitive through tuple temporaries: `(_t.1)` follows only the second operand
        proj = [e for e in p["p"] if e != "*"]
        fidx = proj[0]["f"] if proj and isinstance(proj[0], dict) and "f" in proj[0] else None
        sd = b.single_def(l)
        if fidx is not None and sd and sd[2] == "assign" and sd[3]["rv"]["k"] == "agg" and sd[3]["rv"].get("ak") == "tuple" and fidx < len(sd[3]["rv"]["ops"]):
            q = op_place(sd[3]["rv"]["ops"][fidx])
            if q is not None:
                work.append({"l": q["l"], "p": list(q["p"]) + [e for e in p["p"] if e is not proj[0]]})
            continue
        if l in seen:
            continue
        seen.add(l)
        for d in b.defs.get(l, []):
            if d[2] == "assign":
                rv = d[3]["rv"]
                for key in ("o", "l", "r"):
                    if key in rv and isinstance(rv[key], dict):
                        q = op_place(rv[key])
                        if q is not None:
                            work.append(q)
                if rv["k"] in ("ref", "rawptr", "discr", "len"):
                    work.append(rv["p"])
                if rv["k"] == "agg":
                    for o in rv["ops"]:
                        q = op_place(o)
                        if q is not None:
                            work.append(q)
            elif d[2] == "call":
                for o in d[3]["args"]:
                    q = op_place(o)
                    if q is not None:
                        work.append(q)
    return paths


def classify_switch(b, sw):
    """what the switch at block `sw` tests"""
    t = b.term(sw)
    o = b.resolve_copy(t["on"])
    l = op_local(o)
    if l is None:
        return ("other", "constant")
    # look through `Not`
    d = b.single_def(l)
    hops = 0
    while d and d[2] == "assign" and d[3]["rv"]["k"] == "un" and d[3]["rv"]["op"] == "Not" and hops < 4:
        o = b.resolve_copy(d[3]["rv"]["o"])
        l = op_local(o)
        d = b.single_def(l) if l is not None else None
        hops += 1
    if d is None:
        return ("other", "multiply-defined local _%s" % l)
    if d[2] == "call":
        n = callee_name(d[3]) or ""
        recv = None
        if d[3]["args"]:
            q = op_place(d[3]["args"][0])
            if q is not None:
                recv = access_path(b, q)
        return ("call", n, recv, [access_path(b, op_place(a)) for a in d[3]["args"] if op_place(a) is not None])
    rv = d[3]["rv"]
    if rv["k"] == "discr":
        ap = access_path(b, rv["p"])
        # discriminant of the result of Try::branch / Iterator::next
        pl = rv["p"]
        dd = b.single_def(pl["l"]) if not pl["p"] else None
        if dd and dd[2] == "call":
            n = callee_name(dd[3]) or ""
            if re.search(r"Try>::branch$", n):
                return ("try",)
            if re.search(r"Iterator>?::next$|Iterator for .*>::next$", n):
                return ("next",)
            return ("callres", n, ap)
        return ("discr", ap)
    if rv["k"] == "bin":
        ps = []
        for key in ("l", "r"):
            q = op_place(rv[key])
            if q is not None:
                ps.append(access_path(b, q))
        return ("cmp", rv["op"], ps)
    if rv["k"] in ("use", "cast"):
        q = op_place(rv["o"])
        if q is not None:
            return ("value", access_path(b, q))
    return ("other", rv["k"])


def fmt_path(ap):
    r, f = ap
    if r[0] == "arg":
        base = "arg%d" % r[1]
    elif r[0] == "call":
        base = "%s(..)" % r[1].split("::")[-1]
    else:
        base = "_%d" % r[1]
    return base + "".join("." + x if not x.startswith("[") else x for x in _strip(f))


def control_sources(b, bb, depth=0, _seen=None):
    """classified tests that decide whether `bb` runs, with flags expanded: a test of a boolean local that is assigned
    constants on different paths (`let mut neg = false; if .. { neg = true }`, `let neg = matches!(..)`) is replaced by
    the tests that decide which constant it gets"""
    _seen = _seen if _seen is not None else set()
    out = []
    for sw in sorted(controlling_switches(b, bb)):
        if sw in _seen:
            continue
        _seen.add(sw)
        c = classify_switch(b, sw)
        if c[0] == "other" and depth < 4:
            t = b.term(sw)
            l = op_local(b.resolve_copy(t["on"]))
            defs = b.defs.get(l, []) if l is not None else []
            whole = [d for d in defs if d[2] == "assign" and not d[3]["p"]["p"]]
            if whole and len(whole) == len(defs) and all(d[3]["rv"]["k"] == "use" and op_const(d[3]["rv"]["o"]) is not None for d in whole):
                for d in whole:
                    out += control_sources(b, d[0], depth + 1, _seen)
                continue
            # a flag combined from other flags / calls: `a || b` lowers to assignments of the operands
            if whole and len(whole) == len(defs):
                expanded = False
                for d in whole:
                    rv = d[3]["rv"]
                    if rv["k"] == "use":
                        q = op_place(rv["o"])
                        if q is not None and not q["p"]:
                            dd = b.single_def(q["l"])
                            if dd and dd[2] == "call":
                                out.append(("call", callee_name(dd[3]) or "", access_path(b, op_place(dd[3]["args"][0])) if dd[3]["args"] and op_place(dd[3]["args"][0]) is not None else None,
                                            [access_path(b, op_place(a)) for a in dd[3]["args"] if op_place(a) is not None]))
                                expanded = True
                    out += control_sources(b, d[0], depth + 1, _seen)
                if expanded:
                    continue
        out.append(c)
    return out
