"""E6 — nondeterminism sources and order-sensitive sinks."""
import re
from .mir import Body, callee_name, callee_id, op_place, op_local, op_const

HASH_ITER = re.compile(r"(HashMap|HashSet)\b.*::(iter|iter_mut|keys|values|values_mut|drain|into_iter|into_keys|into_values|retain|extract_if)$")
HASH_TY = re.compile(r"std::collections::(HashMap|HashSet)<")

ORDER_SINK = re.compile(
    r"(^|[ <:])(std::vec::Vec|alloc::vec::Vec|std::collections::VecDeque)::<[^>]*(<[^<>]*>[^<>]*)*>::(push|push_back|push_front|insert|append|extend_from_slice|extend_from_within)$"
    r"|<(std|alloc)::vec::Vec<.*> as std::iter::Extend<.*>>::extend$"
    r"|^std::string::String::(push|push_str|insert|insert_str)$"
    r"|::write_fmt$|::write_all$|::write_str$|::write$"
)
POP = re.compile(r"(Vec|VecDeque)::<.*>::(pop|pop_back|pop_front)$")
SLOT_INSERT = re.compile(r"^slotmap::(SlotMap|HopSlotMap|DenseSlotMap)::<.*>::(insert|insert_with_key)$")
SLOT_ITER = re.compile(r"slotmap::.*::(iter|iter_mut|keys|values|values_mut|drain|into_iter|retain)$")
SORT = re.compile(r"(slice::<impl \[T\]>|Vec::<.*>)::(sort|sort_by|sort_by_key|sort_unstable|sort_unstable_by|sort_unstable_by_key|sort_by_cached_key)$")
KEYED_INSERT = re.compile(r"(HashMap|HashSet|BTreeMap|BTreeSet)::<.*>::(insert|entry|get|get_mut|contains|contains_key|remove)$")
INSENSITIVE_CONSUMER = re.compile(r"Iterator::(count|sum|product|any|all|min|max|min_by_key|max_by_key|min_by|max_by)$")
ADAPTER = re.compile(r"Iterator::(map|filter|filter_map|cloned|copied|enumerate|flat_map|flatten|chain|zip|inspect|take|skip|peekable|by_ref|rev)$|IntoIterator>::into_iter$|::into_iter$")
TIME_SRC = re.compile(r"(chrono::.*(Utc|Local)::now|chrono::.*::now$|std::time::SystemTime::now|std::time::Instant::now|SystemTime::now|Instant::now)")
OTHER_SEED = re.compile(r"^(rand::|std::thread::spawn|std::env::(var|vars|args)|std::process::id|std::hash::RandomState::new|std::collections::hash_map::RandomState::new|std::thread::current)")


def root_local(b, o_or_place, depth=0):
    """follow reborrows / copies / deref-like calls back to a root local"""
    p = o_or_place
    if "l" not in p:
        p = op_place(p)
    if p is None:
        return None
    l = p["l"]
    while depth < 30:
        depth += 1
        if 1 <= l <= b.argc:
            return l
        d = b.single_def(l)
        if d is None:
            return l
        if d[2] == "assign":
            rv = d[3]["rv"]
            if rv["k"] in ("ref", "rawptr"):
                l = rv["p"]["l"]
                continue
            if rv["k"] == "use":
                q = op_place(rv["o"])
                if q is None:
                    return l
                l = q["l"]
                continue
            if rv["k"] == "cast":
                q = op_place(rv["o"])
                if q is None:
                    return l
                l = q["l"]
                continue
            return l
        if d[2] == "call":
            n = callee_name(d[3]) or ""
            if re.search(r"(Deref|DerefMut|Index|IndexMut|AsMut|AsRef|BorrowMut|Borrow)(<.*>)?>::(deref|deref_mut|index|index_mut|as_mut|as_ref|borrow_mut|borrow)$", n) or \
               re.search(r"::(as_mut|as_mut_slice|unwrap|expect|as_deref_mut|get_mut|iter_mut|last_mut|first_mut|or_insert|or_insert_with|or_default|entry|write|lock|borrow_mut)$", n):
                if d[3]["args"]:
                    q = op_place(d[3]["args"][0])
                    if q is None:
                        return l
                    l = q["l"]
                    continue
            return l
        return l
    return l


def place_path(b, place):
    """stable textual path of a receiver place rooted at its root local: e.g. 'arg1.ctx'"""
    names = []
    for e in place["p"]:
        if isinstance(e, dict) and "f" in e:
            names.append(e["n"])
    return names


def receiver_fields(b, o, depth=0):
    """field path (names) from root to the receiver behind operand o (through one level of reborrow)"""
    p = op_place(o)
    if p is None:
        return ()
    fields = []
    l = p["l"]
    cur = p
    while depth < 30:
        depth += 1
        fields = place_path(b, cur) + fields
        l = cur["l"]
        if 1 <= l <= b.argc:
            break
        d = b.single_def(l)
        if d is None or d[2] != "assign":
            break
        rv = d[3]["rv"]
        if rv["k"] in ("ref", "rawptr"):
            cur = rv["p"]
            continue
        if rv["k"] == "use" and op_place(rv["o"]):
            cur = op_place(rv["o"])
            continue
        break
    return tuple(fields)


class Effects:
    """per-function summary: set of param indices (1-based locals) through which the function performs an
    order-sensitive mutation (Vec push/extend/..., slot-map insert) not paired with a pop on the same receiver."""

    def __init__(self, facts):
        self.F = facts
        self.eff = {fid: set() for fid in facts.fns}
        self.slot_eff = {fid: set() for fid in facts.fns}  # param -> slot key types inserted
        self.slot_types = {fid: {} for fid in facts.fns}
        self._bodies = {}
        self._compute()

    def body(self, fid):
        b = self._bodies.get(fid)
        if b is None:
            b = self._bodies[fid] = Body(self.F.fns[fid])
        return b

    def direct_sinks(self, b, blocks=None):
        """[(bb, kind, receiver operand, callee name)] for primitive sinks in the given blocks"""
        res = []
        pops = set()
        for bi, t in b.calls():
            if blocks is not None and bi not in blocks:
                continue
            n = callee_name(t) or ""
            if POP.search(n) and t["args"]:
                pops.add((root_local(b, t["args"][0]), receiver_fields(b, t["args"][0])))
        for bi, t in b.calls():
            if blocks is not None and bi not in blocks:
                continue
            n = callee_name(t) or ""
            if not t["args"]:
                continue
            if ORDER_SINK.search(n):
                key = (root_local(b, t["args"][0]), receiver_fields(b, t["args"][0]))
                if key in pops:
                    continue  # stack discipline (push/pop paired on the same receiver)
                res.append((bi, "seq", t["args"][0], ""))
            elif SLOT_INSERT.search(n):
                c = op_const(t["f"])
                ra = c.get("rargs") or c.get("gargs") or ["?"]
                res.append((bi, "slot", t["args"][0], ra[0]))
        return res

    def _compute(self):
        changed = True
        rounds = 0
        while changed and rounds < 20:
            changed = False
            rounds += 1
            for fid, f in self.F.fns.items():
                b = self.body(fid)
                cur = self.eff[fid]
                new = set(cur)
                for bi, kind, recv, n in self.direct_sinks(b):
                    r = root_local(b, recv)
                    if r is not None and 1 <= r <= b.argc:
                        new.add((r, kind, n))
                for bi, t in b.calls():
                    cid = callee_id(t)
                    if cid in self.eff and self.eff[cid]:
                        for (pi, kind, n) in self.eff[cid]:
                            if pi - 1 < len(t["args"]):
                                r = root_local(b, t["args"][pi - 1])
                                if r is not None and 1 <= r <= b.argc:
                                    new.add((r, kind, n))
                if new != cur:
                    self.eff[fid] = new
                    changed = True


def hash_iterations(F):
    """yield (fn, body, bb, term, callee name) for each HashMap/HashSet iteration call in workspace code"""
    for f in F.fns.values():
        b = Body(f)
        for bi, t in b.calls():
            n = callee_name(t) or ""
            if HASH_ITER.search(n) and ("std::collections::Hash" in n or "hashbrown" in n):
                yield f, b, bi, t, n


def loop_of_iterator(b, call_bb):
    """natural loop (header, blocks) that consumes the iterator produced at call_bb via Iterator::next, or None"""
    best = None
    for header, blocks in b.loops():
        if not b.dominates(call_bb, header):
            continue
        # the loop must call `next` on something
        has_next = False
        for x in blocks:
            t = b.term(x)
            if t["k"] == "call" and re.search(r"Iterator>?::next$", callee_name(t) or ""):
                has_next = True
        if not has_next:
            continue
        # choose the outermost loop closest to the call (smallest header index dominated by call)
        if best is None or b.dominates(header, best[0]):
            best = (header, blocks)
    return best


def uses_of_local(b, l):
    """blocks (and terminators) where local l is used as an operand or borrowed"""
    res = []
    for bi, blk in enumerate(b.blocks):
        if bi not in b.reachable or blk["cleanup"]:
            continue
        for st in blk["st"]:
            if st["k"] != "assign":
                continue
            rv = st["rv"]
            ops = [rv.get("o"), rv.get("l"), rv.get("r")] + list(rv.get("ops", []))
            pls = [op_place(o) for o in ops if o]
            if rv["k"] in ("ref", "rawptr", "discr"):
                pls.append(rv["p"])
            if any(p is not None and p["l"] == l for p in pls):
                res.append((bi, "st", st))
        t = blk["term"]
        if t["k"] == "call":
            if any((op_place(a) or {}).get("l") == l for a in t["args"]):
                res.append((bi, "call", t))
    return res
