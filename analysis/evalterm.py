"""Deciding comparison-only code over a finite ordering abstraction.

A function that touches its integer inputs only through comparisons, min/max and copies depends on nothing but the relative
order of those inputs.  `summaries(fn)` lists its paths (branch facts + returned term, from the symbolic walker);
`decide(fn, leaves, domain, oracle)` evaluates them for every assignment of the small `domain` to the `leaves` (which
realises every weak ordering when |domain| >= number of values compared with each other) and compares with the oracle.
Nothing of Layout21 is executed: the summaries are terms over the MIR, evaluated here.
"""
import itertools, re
from .walk import Walker, strip_calls


class NotEvaluable(Exception):
    pass


def evaluate(t, leaf):
    """integer / boolean value of a walker term; `leaf(term)` supplies the inputs (None = not a leaf)"""
    v = leaf(t)
    if v is not None:
        return v
    k = t[0]
    if k == "const":
        if t[2] is not None:
            return t[2]
        if t[1] in ("true", "false"):
            return 1 if t[1] == "true" else 0
        raise NotEvaluable(t)
    if k == "op":
        op, args = t[1], t[2]
        if op.startswith("cast:"):
            return evaluate(args[0], leaf)
        if op == "Not":
            return 0 if evaluate(args[0], leaf) else 1
        if op == "Neg":
            return -evaluate(args[0], leaf)
        if len(args) == 2:
            a, b = evaluate(args[0], leaf), evaluate(args[1], leaf)
            base = op.replace("WithOverflow", "").replace("Unchecked", "")
            f = {"Eq": lambda: int(a == b), "Ne": lambda: int(a != b), "Lt": lambda: int(a < b), "Le": lambda: int(a <= b),
                 "Gt": lambda: int(a > b), "Ge": lambda: int(a >= b), "BitAnd": lambda: a & b, "BitOr": lambda: a | b, "BitXor": lambda: a ^ b,
                 "Add": lambda: a + b, "Sub": lambda: a - b, "Mul": lambda: a * b,
                 "Div": lambda: (abs(a) // abs(b)) * (1 if (a >= 0) == (b >= 0) else -1) if b else _raise(t),
                 "Rem": lambda: (abs(a) % abs(b)) * (1 if a >= 0 else -1) if b else _raise(t)}.get(base)
            if f:
                return f()
        raise NotEvaluable(t)
    if k == "f" and t[2] == "0" and t[1][0] == "op" and t[1][1].endswith("WithOverflow"):
        return evaluate(t[1], leaf)
    if k == "call":
        n = t[1] or ""
        args = t[2]
        if re.search(r"Ord::min$|cmp::min$|::min$", n) and len(args) == 2:
            return min(evaluate(args[0], leaf), evaluate(args[1], leaf))
        if re.search(r"Ord::max$|cmp::max$|::max$", n) and len(args) == 2:
            return max(evaluate(args[0], leaf), evaluate(args[1], leaf))
        if re.search(r"::abs$", n) and len(args) == 1:
            return abs(evaluate(args[0], leaf))
        if re.search(r"RangeInclusive<.*>::contains$|RangeInclusive::<.*>::contains$|ops::Range.*::contains$", n) and len(args) == 2:
            rng = args[0]
            while rng[0] == "call" and rng[2] and len(rng[2]) == 1:
                rng = rng[2][0]
            x = evaluate(args[1], leaf)
            if rng[0] == "call" and rng[1] and re.search(r"RangeInclusive::<.*>::new$|RangeInclusive<.*>::new$", rng[1]) and len(rng[2]) == 2:
                return int(evaluate(rng[2][0], leaf) <= x <= evaluate(rng[2][1], leaf))
            if rng[0] == "agg" and len(rng[2]) >= 2:
                lo, hi = evaluate(rng[2][0], leaf), evaluate(rng[2][1], leaf)
                return int(lo <= x <= hi) if "Inclusive" in str(rng[1]) else int(lo <= x < hi)
            raise NotEvaluable(t)
        if re.search(r"PartialEq(<.*>)?>?::(eq|ne)$", n) and len(args) == 2:
            a, b = evaluate(args[0], leaf), evaluate(args[1], leaf)
            return int((a == b) == n.endswith("eq"))
        if re.search(r"PartialOrd(<.*>)?>?::(lt|le|gt|ge)$", n) and len(args) == 2:
            a, b = evaluate(args[0], leaf), evaluate(args[1], leaf)
            return int({"lt": a < b, "le": a <= b, "gt": a > b, "ge": a >= b}[n[-2:]])
        s = strip_calls(t)
        if s is not t:
            return evaluate(s, leaf)
    raise NotEvaluable(t)


def _raise(t):
    raise NotEvaluable(t)


def summaries(fn, max_paths=20000, on_stmt=None, on_call=None, follow_errors=True):
    """[(facts, returned term)] of every path of a loop-free function"""
    w = Walker(fn, max_visits=1, follow_errors=follow_errors, max_paths=max_paths)
    out = []
    w.run(on_return=lambda p: out.append((dict(p.facts), p.env.get(0))), on_stmt=on_stmt, on_call=on_call)
    return out, w.truncated


def facts_hold(facts, leaf, strict=True):
    """do the branch facts of a path hold under the assignment?  facts the evaluator cannot decide count as true unless strict"""
    for key, want in facts.items():
        if key[0] != "val":
            if strict and key[0] == "discr":
                raise NotEvaluable(key)
            continue
        try:
            v = evaluate(key[1], leaf)
        except NotEvaluable:
            if strict:
                raise
            continue
        if want[0] == "=" and v != want[1]:
            return False
        if want[0] == "!=" and v in want[1]:
            return False
    return True


def decide(fn, leaf_terms, domain, oracle, strict=True):
    """evaluate `fn` for every assignment of `domain` to `leaf_terms`; return (n_assignments, first mismatch or None).
    oracle(values: dict leaf_term -> int) -> expected value"""
    paths, trunc = summaries(fn)
    if trunc or not paths:
        raise NotEvaluable("path enumeration failed")
    n = 0
    for combo in itertools.product(domain, repeat=len(leaf_terms)):
        vals = dict(zip(leaf_terms, combo))
        leaf = vals.get
        got = None
        hits = 0
        for facts, ret in paths:
            if facts_hold(facts, leaf, strict):
                hits += 1
                got = evaluate(ret, leaf)
        if hits != 1:
            raise NotEvaluable("%d paths match an assignment" % hits)
        n += 1
        want = oracle(vals)
        if bool(got) != bool(want):
            return n, (vals, got, want)
    return n, None
