"""E4 for GDSII: extract the writer's and the reader's record codec tables from MIR by guarded walks."""
import re
from .mir import Body, callee_name, op_const
from .walk import Walker, Path, strip_calls, field_chain
from . import ordering as od

REC = "gds21::data::GdsRecord"
RTYPE = "gds21::data::GdsRecordType"
DTYPE = "gds21::data::GdsDataType"


def enum_table(F, eid):
    return {v["name"]: v["discr"] for v in F.adts[eid]["variants"]}


def find_fn(F, crate_prefix, pred):
    return [f for f in F.fns.values() if f.id.startswith(crate_prefix) and pred(f)]


def record_switch_fns(F):
    """functions of gds21::write that dispatch on the discriminant of a GdsRecord parameter with >= 40 arms"""
    out = []
    for f in F.fns.values():
        if not f.id.startswith("gds21::write::"):
            continue
        b = Body(f)
        sw = od.enum_switches(F, b, REC)
        if sw and max(len(a[1]) for a in sw) >= 40:
            out.append(f)
    return out


def unit_variant(t, enum_id):
    """variant name if term is (a cast of) a unit aggregate of enum_id"""
    t0 = t
    while isinstance(t, tuple) and ((t[0] == "op" and t[1].startswith("cast:") and t[2]) or t[0] == "discr"):
        t = t[2][0] if t[0] == "op" else t[1]
    if isinstance(t, tuple) and t[0] == "agg" and isinstance(t[1], str) and t[1].startswith(enum_id + "::"):
        return t[1].split("::")[-1]
    return None


def find_terms(t, pred, acc=None, depth=0):
    if acc is None:
        acc = []
    if not isinstance(t, tuple) or depth > 20:
        return acc
    if pred(t):
        acc.append(t)
    for x in t[1:]:
        if isinstance(x, tuple):
            if x and isinstance(x[0], str):
                find_terms(x, pred, acc, depth + 1)
            else:
                for y in x:
                    find_terms(y, pred, acc, depth + 1)
    return acc


def len_expr(t):
    """describe the length term of the header: ('const', n) | ('strlen',) | ('mul', k) | ('other', repr)"""
    t = strip_calls(t)
    if t[0] == "const" and t[2] is not None:
        return ("const", t[2])
    # closure call computing s.len() + s.len() % 2
    if t[0] == "call" and t[1] and "{closure" in t[1]:
        return ("closure", t[1])
    if t[0] == "op" and t[1] in ("Mul", "MulWithOverflow"):
        cs = [x for x in t[2] if x[0] == "const"]
        if cs:
            return ("mul", cs[0][2])
    if t[0] == "f" and t[2] == "0":
        return len_expr(t[1])
    return ("other", str(t)[:80])


def _with_helpers(F, fn):
    """the codec function with its small private helpers spliced in (`self.write_padded_str(s)`): the tables are read
    from what the function does, not from how it is cut into methods.  The reader's primitive `read_*` routines are
    the vocabulary of the decode table and stay calls."""
    from .inline import inlined
    return inlined(F, fn, depth=2, max_blocks=60,
                   pred=lambda g_, t_: g_.id.startswith(("gds21::write::", "gds21::read::")) and g_.kind != "Closure" and g_.id != fn.id
                   and not re.search(r"::(read_\w+|fill_buf|encode_\w+|write_record\w*|next|peek|fail|invalid)$", g_.short))


def writer_header_table(F, fn):
    """variant -> dict(rtype, dtype, len, checked) from the function that writes the 4 header bytes"""
    fn = _with_helpers(F, fn)
    w = Walker(fn, follow_errors=False)
    table = {}
    rec_enum = REC

    def on_call(path, bb, t, name, args):
        n = name or ""
        if re.search(r"WriteBytesExt::write_(u8|u16|i16|u32|i32|u64)$", n):
            c = op_const(t["f"])
            ga = c.get("rargs") or c.get("gargs") or []
            path.events.append((n.split("::")[-1], args[1] if len(args) > 1 else None, ga))
        return None

    def on_return(path):
        key = [k for k in path.facts if k[0] == "discr" and k[1] == ("param", 2)]
        if not key:
            return
        fv = path.facts[key[0]]
        if fv[0] != "=":
            return
        v = F.variant_of(rec_enum, fv[1])
        if len(path.events) < 3:
            return  # error path (length too large)
        ev = path.events
        lenterm = ev[0][1]
        # the u16 written: value of try_from(len + 4)
        adds = find_terms(lenterm, lambda x: x[0] == "op" and x[1] in ("Add", "AddWithOverflow"))
        ln = None
        plus = None
        if adds:
            a = adds[0]
            cs = [x for x in a[2] if x[0] == "const"]
            others = [x for x in a[2] if x[0] != "const"]
            if len(cs) == 2:
                ln = ("const", cs[0][2])
                plus = cs[1][2]
            elif cs and others:
                plus = cs[0][2]
                ln = len_expr(others[0])
        checked = bool(find_terms(lenterm, lambda x: x[0] == "call" and x[1] and "try_from" in x[1]))
        narrowing = bool(find_terms(lenterm, lambda x: x[0] == "op" and x[1].startswith("cast:u16")))
        table[v] = {
            "rtype": unit_variant(ev[1][1], RTYPE), "dtype": unit_variant(ev[2][1], DTYPE),
            "len": ln, "plus": plus, "checked": checked and not narrowing,
            "prims": [e[0] for e in ev], "endian": [e[2] for e in ev],
        }

    w.run(on_call=on_call, on_return=on_return)
    return table


def writer_content_table(F, fn):
    """variant -> list of write events [(prim, endian args, field chain of the value, via_encode, in_loop, conditional)]"""
    fn = _with_helpers(F, fn)
    w = Walker(fn, follow_errors=False, max_visits=2)
    b = w.b
    loops = b.loops()
    loop_blocks = set()
    for h, blks in loops:
        loop_blocks |= blks
    table = {}
    in_closure = [False]

    def on_call(path, bb, t, name, args):
        n = name or ""
        if re.search(r"WriteBytesExt::write_(u8|u16|i16|u32|i32|u64|i64|f64)$", n):
            c = op_const(t["f"])
            ga = c.get("rargs") or c.get("gargs") or []
            val = args[1] if len(args) > 1 else None
            enc = bool(find_terms(val, lambda x: x[0] == "call" and x[1] and x[1].endswith("GdsFloat64::encode")))
            if enc:
                inner = find_terms(val, lambda x: x[0] == "call" and x[1] and x[1].endswith("GdsFloat64::encode"))[0][2][0]
            else:
                inner = val
            root, chain = field_chain(inner)
            path.events.append((n.split("::")[-1], tuple(ga), tuple(chain), enc, (bb in loop_blocks) or in_closure[0], bb, val))
            return None
        # a loop written as an iterator adapter: `d.iter().try_for_each(|v| dest.write_i32(*v))` — walk the closure body once
        # as the body of a loop over the receiver's elements
        if re.search(r"Iterator>?::(try_for_each|for_each|map|try_fold|fold|all|any|inspect)$", n) and len(args) >= 2:
            cl = [a for a in args[1:] if a and a[0] == "agg" and str(a[1]).startswith("closure:")]
            cf = F.fns.get(str(cl[0][1])[len("closure:"):]) if cl else None
            if cf is not None and cf.body and not in_closure[0]:
                from .walk import Path
                item = ("f", ("v", ("call", "<std::slice::Iter<'a, T> as std::iter::Iterator>::next", (args[0],), ("closure", bb, 0)), "Some"), "0")
                init = Path()
                init.env[1] = cl[0]
                init.env[2] = item
                cw = Walker(cf, follow_errors=False, max_visits=2, max_paths=200)
                got = []
                in_closure[0] = True
                try:
                    cw.run(init=init, on_call=on_call, on_return=lambda p: got.append(list(p.events)))
                finally:
                    in_closure[0] = False
                if got:
                    best = max(got, key=len)
                    path.events += [e[:5] + (bb,) + e[6:] for e in best]
        return None

    def on_return(path):
        key = [k for k in path.facts if k[0] == "discr" and k[1] == ("param", 2)]
        if not key:
            return
        fv = path.facts[key[0]]
        if fv[0] != "=":
            return
        v = F.variant_of(REC, fv[1])
        table.setdefault(v, []).append(list(path.events))

    w.run(on_call=on_call, on_return=on_return)
    return table


def reader_decode_table(F, fn):
    """list of leaves: dict(rtype, dtype, len ('const', n | 'any'), variant, reads=[(fn short, len arg kind)],
    fields=[(field name, index k or None, read idx)])"""
    w = Walker(fn, follow_errors=False, max_visits=1, max_paths=5000)
    leaves = []

    def hdr_field(term):
        root, chain = field_chain(term)
        return chain[-1] if chain else None

    def on_call(path, bb, t, name, args):
        n = name or ""
        m = re.search(r"GdsReader::<.*>::(read_\w+)$", n)
        if m:
            la = args[1] if len(args) > 1 else None
            if la is not None and la[0] == "const":
                lk = ("const", la[2])
            else:
                lk = ("hdr", hdr_field(la) if la is not None else None)
            path.events.append((m.group(1), lk, bb))
        return None

    def on_stmt(path, bb, st, val):
        if val[0] == "agg" and isinstance(val[1], str) and val[1].startswith(REC + "::") and st["p"]["l"] != 0:
            path.events.append(("build", val))

    def on_return(path):
        builds = [e for e in path.events if e[0] == "build"]
        if not builds:
            return
        val = builds[-1][1]
        variant = val[1].split("::")[-1]
        cons = {}
        for k, fv in path.facts.items():
            if k[0] == "discr":
                root, chain = field_chain(k[1])
                nm = chain[-1] if chain else None
                if fv[0] == "=":
                    cons[nm] = fv[1]
            elif k[0] == "val":
                root, chain = field_chain(k[1])
                nm = chain[-1] if chain else None
                if fv[0] == "=":
                    cons[nm] = fv[1]
        reads = [e for e in path.events if e[0] != "build"]
        fields = []
        adt = [v for v in F.adts[REC]["variants"] if v["name"] == variant][0]
        for fl, opt in zip(adt["fields"], val[2]):
            t = strip_calls(opt)
            idx = None
            src = None
            # peel index
            tt = opt
            while isinstance(tt, tuple):
                if tt[0] == "i":
                    idx = tt[2]
                    tt = tt[1]
                    continue
                if tt[0] == "call" and tt[1] and re.search(r"Index(Mut)?<.*>>::index$|::index$", tt[1]):
                    k = tt[2][1]
                    idx = k[2] if k[0] == "const" else "*"
                    tt = tt[2][0]
                    continue
                if tt[0] == "call" and tt[1] and re.search(r"GdsReader::<.*>::(read_\w+)$", tt[1]):
                    src = re.search(r"(read_\w+)$", tt[1]).group(1)
                    break
                nt = strip_calls(tt)
                if nt is tt:
                    if tt[0] in ("f", "v"):
                        tt = tt[1]
                        continue
                    break
                tt = nt
            fields.append((fl["name"], idx, src))
        leaves.append({"variant": variant, "cons": cons, "reads": reads, "fields": fields})

    w.run(on_call=on_call, on_return=on_return, on_stmt=on_stmt)
    return leaves, w.truncated


# ------------------------------------------------------------------------------------------------------
# element level: encoder record sequences and parser acceptance arms
# ------------------------------------------------------------------------------------------------------
def param_chains(t, acc=None, depth=0):
    """all field chains rooted at a parameter that occur anywhere inside term t: {(param index, tuple(chain))}"""
    if acc is None:
        acc = set()
    if not isinstance(t, tuple) or depth > 25:
        return acc
    if t[0] in ("f", "v", "i"):
        root, chain = field_chain(t)
        if isinstance(root, tuple) and root[0] == "param":
            acc.add((root[1], tuple(c for c in chain if not (c.startswith("as:") and c[3:] in ("Some", "Ok", "Continue")))))
            return acc
        param_chains(root, acc, depth + 1)
        return acc
    if t[0] == "param":
        acc.add((t[1], ()))
        return acc
    for x in t[1:]:
        if isinstance(x, tuple):
            if x and isinstance(x[0], str):
                param_chains(x, acc, depth + 1)
            else:
                for y in x:
                    param_chains(y, acc, depth + 1)
    return acc


def clean_chain(chain):
    out = []
    for c in chain:
        if c.startswith("as:") and c[3:] in ("Some", "Ok", "Continue"):
            continue
        out.append(c)
    # Option payload positional '0' directly after a stripped Some: keep (it is a real tuple-struct field, e.g. GdsPlex.0)
    return tuple(out)


def encoder_paths(F, fn):
    """all (bounded) paths of an Encode default method: list of event lists.
    event = ('rec', Variant, [set of param chains per payload operand]) | ('call', callee short name, chains of args)"""
    w = Walker(fn, follow_errors=False, max_visits=2, max_paths=4000)
    out = []

    def rec_events(term):
        """GdsRecord aggregate term(s) -> list of ('rec', V, payload chains)"""
        evs = []
        if term[0] == "agg" and isinstance(term[1], str) and term[1].startswith(REC + "::"):
            V = term[1].split("::")[-1]
            evs.append(("rec", V, tuple(frozenset(param_chains(o)) for o in term[2])))
        elif term[0] == "agg" and term[1] in ("array", "tuple"):
            for o in term[2]:
                evs += rec_events(o)
        return evs

    def on_call(path, bb, t, name, args):
        n = name or ""
        if re.search(r"Encode::encode_records?$", n):
            evs = []
            for a in args[1:]:
                evs += rec_events(a)
            if not evs:
                evs = [("rec", "?", ())]
            path.events += evs
            return None
        m = re.search(r"Encode::(encode_\w+)$", n)
        if m and m.group(1) not in ("encode_datetimes", "encode_datetime"):
            path.events.append(("call", m.group(1), tuple(frozenset(param_chains(a)) for a in args[1:])))
        return None

    def on_return(path):
        out.append(list(path.events))

    w.run(on_call=on_call, on_return=on_return)
    return out, w.truncated


def main_record_switch(F, b):
    sws = od.enum_switches(F, b, REC)
    if not sws:
        return None
    return sorted(sws, key=lambda s: (-len(set(s[1].values())), s[0]))[0]


def parser_arms(F, fn):
    """for a GdsParser::parse_* function: classify every GdsRecord variant at the function's main `match`:
    'loop' (handled, parsing continues), 'exit' (ends this construct normally), 'reject' (only error exits).
    returns dict(cls={V: class}, switch_bb, loop_header)"""
    b = Body(fn)
    sw = main_record_switch(F, b)
    res = {"cls": {}, "switch_bb": None, "loop": None}
    if sw is None:
        return res
    bi, arms, other, eid = sw
    res["switch_bb"] = bi
    okb, errb = od.ret_kind_blocks(b)
    myloop = None
    for h, blks in b.loops():
        if bi in blks and (myloop is None or len(blks) < len(myloop[1])):
            myloop = (h, blks)
    res["loop"] = myloop[0] if myloop else None
    for v in [x["name"] for x in F.adts[REC]["variants"]]:
        tgt = arms.get(v, other)
        r_ok = od.reach(b, tgt, removed=errb)
        leaves_ok = any(x in okb for x in r_ok if (myloop is None or x not in myloop[1]))
        back_ok = myloop is not None and any(p in r_ok for p in b.preds[myloop[0]] if p in myloop[1])
        if back_ok:
            res["cls"][v] = "loop"
        elif leaves_ok:
            res["cls"][v] = "exit"
        else:
            res["cls"][v] = "reject"
    return res


def out_paths(term, prefix=(), acc=None, depth=0):
    """decompose a constructed value term into (output field path, leaf term) pairs"""
    if acc is None:
        acc = []
    if depth > 12 or not isinstance(term, tuple):
        return acc
    if term[0] == "agg" and isinstance(term[1], str) and "::" in term[1] and term[1].split("::")[-1] in ("Some", "Ok"):
        for o in term[2]:
            out_paths(o, prefix, acc, depth + 1)
        return acc
    if term[0] == "agg" and isinstance(term[1], str) and term[1].startswith("gds21::") and "_fields" not in term[1]:
        acc.append((prefix, term))  # whole-aggregate entry; fields resolved by caller with ADT field names
        return acc
    acc.append((prefix, term))
    return acc


def parser_setters(F, fn):
    """walk one iteration of the parser's main match per record variant and collect the calls made with payload-derived
    arguments: {Variant: [(callee name, [arg terms])]}"""
    b = Body(fn)
    sw = main_record_switch(F, b)
    if sw is None:
        return {}
    bi, arms, other, eid = sw
    w = Walker(fn, follow_errors=False, max_visits=1, max_paths=3000)
    res = {}

    def variant_of_path(path):
        for k, fv in path.facts.items():
            if k[0] == "discr" and fv[0] == "=" and len(k) > 1:
                # the first discr fact recorded at the main switch
                pass
        return path.events[0] if path.events else None

    def on_switch(path, bb, t, on):
        if bb == bi and not path.events:
            # fork per variant explicitly so that we know the arm
            chosen = []
            for v, tgt in t["arms"]:
                chosen.append((tgt, ("arm",), F.variant_of(eid, v)))
            return chosen
        return None

    def on_call(path, bb, t, name, args):
        arm = path.facts.get(("arm",))
        if arm is None:
            return None
        n = name or ""
        if any(param_or_local_payload(a) for a in args):
            res.setdefault(arm, []).append((n, args, bb))
        return None

    def param_or_local_payload(a):
        return bool(find_terms(a, lambda x: x[0] == "v" and x[2] in arms))

    w.run(start=bi, on_call=on_call, on_switch=on_switch)
    return res
