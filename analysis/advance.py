"""Must-advance analysis for a hand-written lexer (E3, progress).

Progress measure: a field of the lexer (`pos`) that only grows.  A function *advances* on a path when the path stores to
that field.  For every function of the lexer type the analysis computes, per kind of returned value
(true / false / some / none / ok_some / ok_none / ok / other), whether **every** path returning that kind has advanced —
path-sensitively, with
  * look-ahead facts: `self.<field> is Some`, established on the Some arm of a discriminant test of that field (directly or
    through a getter such as `peek_char`) and dropped when the field may be stored to; summaries are computed per entry fact
    set, so `next_char()` called under a successful peek has no `None` path;
  * result correlation: the kind of a callee's result is learned at the switch that inspects it (`if self.accept(..)`,
    `match self.lex_one()? { None => .., Some(t) => .. }`).
Loop rule: starting a cycle at a loop header with "not advanced", no path may return to the header still not advanced.
"""
import re
from .mir import Body, op_place, op_const, op_local, callee_name, callee_id

KINDS = ("true", "false", "some", "none", "ok_some", "ok_none", "ok", "other")


def _self_field(place):
    """field name F when place is (*_1).F[...]; else None"""
    if place["l"] != 1:
        return None
    for e in place["p"]:
        if e == "*":
            continue
        if isinstance(e, dict) and "f" in e:
            return e.get("n")
        return None
    return None


class Advance:
    def __init__(self, F, scope, progress_field="pos", audited_edges=None):
        self.F = F
        self.scope = {f.id: f for f in scope}
        self.field = progress_field
        self.audited = audited_edges or {}  # (caller short, callee short) -> reason
        self.used_audits = set()
        self.bodies = {}
        self.getters = {}
        self.stores = {}
        self.memo = {}
        self.inprog = set()
        for fid, f in self.scope.items():
            b = Body(f)
            self.bodies[fid] = b
            g = self._getter(b)
            if g:
                self.getters[fid] = g
        self._compute_stores()

    # ---- static helpers
    def _getter(self, b):
        """F for a function whose whole body is `return &self.F` (possibly through a reborrow temp)"""
        blks = [i for i in b.reachable if not b.blocks[i]["cleanup"]]
        if len(blks) != 1 or b.term(blks[0])["k"] != "return":
            return None
        st = [s for s in b.blocks[blks[0]]["st"] if s["k"] == "assign"]
        if not st or not all(s["rv"]["k"] == "ref" for s in st) or st[-1]["p"]["l"] != 0:
            return None
        from .ctrl import access_path
        root, fields = access_path(b, st[-1]["rv"]["p"])
        if root == ("arg", 1) and len(fields) == 1:
            return fields[0]
        return None

    def _compute_stores(self):
        direct = {}
        for fid, b in self.bodies.items():
            s = set()
            for bi in b.reachable:
                for st in b.blocks[bi]["st"]:
                    if st["k"] != "assign":
                        continue
                    f0 = _self_field(st["p"])
                    if f0 and ("*" in st["p"]["p"]):
                        s.add(f0)
                    rv = st["rv"]
                    if rv["k"] in ("ref", "rawptr") and rv.get("mut") and _self_field(rv["p"]):
                        s.add(_self_field(rv["p"]))
            direct[fid] = s
        self.stores = {k: set(v) for k, v in direct.items()}
        changed = True
        while changed:
            changed = False
            for fid, b in self.bodies.items():
                for bi, t in b.calls():
                    c = callee_id(t)
                    if c in self.stores and not self.stores[c] <= self.stores[fid]:
                        self.stores[fid] |= self.stores[c]
                        changed = True

    def _mut_ref_field(self, b, st):
        """F when the statement takes `&mut (*_1).F` (any mutable borrow of a self field)"""
        rv = st["rv"]
        if rv["k"] in ("ref", "rawptr"):
            f0 = _self_field(rv["p"])
            if f0 and rv.get("mut"):
                return f0
        return None

    # ---- summaries
    def summary(self, fid, facts=frozenset()):
        key = (fid, facts)
        if key in self.memo:
            return self.memo[key]
        if key in self.inprog:
            return {}
        self.inprog.add(key)
        res, _ = self._explore(fid, 0, facts, None)
        self.inprog.discard(key)
        self.memo[key] = res
        return res

    def loop_violations(self, fid):
        """[(header bb, witness)] for loops with a cycle that does not advance"""
        b = self.bodies[fid]
        out = []
        for header, blocks in b.loops():
            _, back = self._explore(fid, header, frozenset(), (header, blocks))
            if back:
                out.append((header, back))
        return out

    def _explore(self, fid, start, facts, loop):
        b = self.bodies[fid]
        f = self.scope[fid]
        results = {}
        back_witness = []
        seen = set()
        # state: (bb, adv, facts, retk, pend) ; pend: tuple of (local, form, frozenset(summary items))
        stack = [(start, False, facts, None, ())]
        first = True
        while stack:
            st = stack.pop()
            if st in seen:
                continue
            seen.add(st)
            bb, adv, facts, retk, pend = st
            if loop is not None:
                header, blocks = loop
                if bb == header and not first:
                    if not adv:
                        back_witness.append(b.site(bb))
                    continue
                if bb not in blocks:
                    continue
            first = False
            blk = b.blocks[bb]
            pd = dict((l, (form, s)) for l, form, s in pend)
            facts = set(facts)
            for s in blk["st"]:
                if s["k"] != "assign":
                    continue
                tgt = s["p"]
                rv = s["rv"]
                f0 = _self_field(tgt)
                if f0 == self.field and "*" in tgt["p"]:
                    adv = True
                if f0 and "*" in tgt["p"]:
                    facts.discard(f0)
                    if rv["k"] == "agg" and rv.get("variant") == "Some":
                        facts.add(f0)
                mf = self._mut_ref_field(b, s)
                if mf:
                    facts.discard(mf)
                # value tags through copies / projections
                if not tgt["p"]:
                    src = None
                    if rv["k"] in ("use", "cast"):
                        src = op_place(rv["o"])
                    elif rv["k"] in ("ref",):
                        src = rv["p"]
                    if src is not None and src["l"] in pd:
                        form, sm = pd[src["l"]]
                        dcs = [e for e in src["p"] if isinstance(e, dict) and "dc" in e]
                        if form == "cf" and dcs and str(dcs[0]["dc"]) == "Continue":
                            pd[tgt["l"]] = ("okv", sm)
                        elif not dcs:
                            pd[tgt["l"]] = (form, sm)
                    if tgt["l"] == 0:
                        retk = self._ret_kind(b, rv, pd)
            t = blk["term"]
            k = t["k"]
            ffacts = frozenset(facts)

            def push(nb, adv2=adv, facts2=ffacts, retk2=retk, pd2=None):
                p2 = tuple(sorted(((l, form, sm) for l, (form, sm) in (pd2 if pd2 is not None else pd).items()), key=lambda x: x[0]))
                stack.append((nb, adv2, facts2, retk2, p2))
            if k == "return":
                if loop is None:
                    for kind, a in self._expand(retk, adv):
                        results[kind] = results.get(kind, True) and a
                continue
            if k in ("goto", "drop", "assert"):
                push(t["t"])
                continue
            if k == "call":
                if t["t"] is None:
                    continue
                cid = callee_id(t)
                nm = callee_name(t) or ""
                dest = t["dest"]
                pd2 = dict(pd)
                adv2 = adv
                facts2 = set(facts)
                retk2 = retk
                if cid in self.scope and cid not in self.getters:
                    ctxf = frozenset(x for x in facts if True)
                    sm = self.summary(cid, ctxf)
                    edge = (f.short, self.scope[cid].short)
                    if edge in self.audited:
                        self.used_audits.add(edge)
                        sm = {kk: True for kk in (sm or {"other": True})}
                    facts2 -= self.stores.get(cid, set())
                    fs = frozenset(sm.items())
                    if sm and all(sm.values()):
                        adv2 = True
                    if not dest["p"]:
                        pd2[dest["l"]] = ("v", fs)
                        if dest["l"] == 0:
                            from . import ordering as od
                            retk2 = "err" if (not sm and od.always_err(self.F, cid)) else ("call", fs)
                elif cid in self.getters:
                    if not dest["p"]:
                        pd2[dest["l"]] = ("fieldref", frozenset({(self.getters[cid], True)}))
                elif re.search(r"Try>::branch$", nm) and t["args"]:
                    q = op_place(t["args"][0])
                    if q is not None and q["l"] in pd and pd[q["l"]][0] == "v" and not dest["p"]:
                        pd2[dest["l"]] = ("cf", pd[q["l"]][1])
                elif not dest["p"] and dest["l"] == 0:
                    retk2 = "err" if ("from_residual" in nm) else "other"
                    from . import ordering as od
                    if cid and cid in self.F.fns and od.always_err(self.F, cid):
                        retk2 = "err"
                # any call that receives `&mut self` outside the scope may store anywhere
                push(t["t"], adv2, frozenset(facts2), retk2, pd2)
                continue
            if k == "switch":
                o = b.resolve_copy(t["on"])
                l = op_local(o)
                neg = False
                d = b.single_def(l) if l is not None else None
                while d and d[2] == "assign" and d[3]["rv"]["k"] == "un" and d[3]["rv"]["op"] == "Not":
                    neg = not neg
                    o = b.resolve_copy(d[3]["rv"]["o"])
                    l = op_local(o)
                    d = b.single_def(l) if l is not None else None
                arms = list(t["arms"]) + [(None, t["else"])]
                handled = False
                if l in pd and pd[l][0] == "v":
                    # bool result of a scoped call
                    sm = dict(pd[l][1])
                    for v, tgt in arms:
                        truth = (v != 0) if v is not None else True
                        if neg:
                            truth = not truth
                        kind = "true" if truth else "false"
                        if sm and kind not in sm and ("true" in sm or "false" in sm):
                            continue  # the callee never returns this value
                        push(tgt, adv or sm.get(kind, False))
                    handled = True
                elif d and d[2] == "assign" and d[3]["rv"]["k"] == "discr":
                    P = d[3]["rv"]["p"]
                    fld = _self_field(P) if "*" in P["p"] else None
                    root = P["l"]
                    if fld is None and root in pd and pd[root][0] == "fieldref":
                        fld = list(pd[root][1])[0][0]
                    if fld is not None:
                        for v, tgt in arms:
                            if v == 0:
                                if fld in facts:
                                    continue
                                push(tgt)
                            elif v == 1 or v is None:
                                # `else` of a 2-variant Option switch is the other variant
                                is_some = (v == 1) or (v is None and any(a[0] == 0 for a in t["arms"]))
                                is_none = (v is None and any(a[0] == 1 for a in t["arms"]))
                                if is_none:
                                    if fld in facts:
                                        continue
                                    push(tgt)
                                else:
                                    push(tgt, adv, frozenset(set(facts) | {fld}))
                        handled = True
                    elif root in pd and pd[root][0] in ("v", "okv", "cf"):
                        form, fs = pd[root]
                        sm = dict(fs)
                        for v, tgt in arms:
                            if v is None:
                                vals = {a[0] for a in t["arms"]}
                                v = 1 if 0 in vals and 1 not in vals else (0 if 1 in vals and 0 not in vals else None)
                            if form == "cf":
                                if v == 0:
                                    oks = [sm[x] for x in ("ok_some", "ok_none", "ok", "other", "true", "false", "some", "none") if x in sm]
                                    push(tgt, adv or (bool(oks) and all(oks)))
                                else:
                                    push(tgt)
                                continue
                            kind = {("v", 0): "none", ("v", 1): "some", ("okv", 0): "ok_none", ("okv", 1): "ok_some"}.get((form, v))
                            if kind is None:
                                push(tgt)
                                continue
                            fam = ("none", "some") if form == "v" else ("ok_none", "ok_some")
                            if kind not in sm and any(x in sm for x in fam) and "ok" not in sm and "other" not in sm:
                                continue  # infeasible: callee never returns this kind
                            extra = sm.get(kind, sm.get("ok", sm.get("other", False)) if form == "okv" else sm.get("other", False))
                            push(tgt, adv or bool(extra))
                        handled = True
                if not handled:
                    for v, tgt in arms:
                        push(tgt)
                continue
            # unreachable / resume etc.: path ends
        return results, back_witness

    def _ret_kind(self, b, rv, pd):
        if rv["k"] == "use":
            c = op_const(rv["o"])
            if c is not None and (c.get("ty") or {}).get("s") == "bool":
                return "true" if c.get("int") == 1 else "false"
            q = op_place(rv["o"])
            if q is not None and q["l"] in pd and pd[q["l"]][0] == "v" and not q["p"]:
                return ("call", pd[q["l"]][1])
            return "other"
        if rv["k"] == "agg" and rv.get("ak") == "adt":
            v = rv.get("variant")
            if v == "Some":
                return "some"
            if v == "None":
                return "none"
            if v == "Err":
                return "err"
            if v == "Ok":
                x = rv["ops"][0] if rv["ops"] else None
                q = op_place(x) if x else None
                if q is not None:
                    r2 = b.def_rvalue(x)
                    if r2 and r2["k"] == "agg" and r2.get("variant") == "Some":
                        return "ok_some"
                    if r2 and r2["k"] == "agg" and r2.get("variant") == "None":
                        return "ok_none"
                return "ok"
        return "other"

    def _expand(self, retk, adv):
        if retk is None:
            return [("other", adv)]
        if retk == "err":
            return []
        if isinstance(retk, tuple) and retk[0] == "call":
            sm = dict(retk[1])
            if not sm:
                return [("other", adv)]
            return [(k, adv or a) for k, a in sm.items()]
        return [(retk, adv)]
