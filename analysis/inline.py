"""MIR-level inlining of small helper functions.

Rules that read the control-flow shape of ONE function (protocols, guards, pairings) must not change their verdict when
three lines are moved into a private helper.  `inlined(F, fn, ...)` returns a copy of `fn` whose body has the bodies of the
selected callees spliced in: callee locals are appended to the caller's, callee blocks to the caller's, the call becomes
parameter assignments + goto, every callee `return` becomes `dest = move _0'; goto <call target>`.  Spans are kept, so
reports still name the line in the helper.  Nothing else is changed: callee panics / unwinds keep their (renumbered) edges.

Selection (default): resolved callee is a workspace function with a body, is not the caller or on the inlining stack
(recursion), is not a closure, and has at most `max_blocks` blocks.  `pred(callee_fn, call_term)` can restrict further.
"""
import copy

WORKSPACE = ("layout21", "gds21", "lef21")


def _renumber(j, loff, boff):
    """deep copy of a MIR JSON fragment with locals shifted by loff (block numbers are fixed up by the caller)"""
    if isinstance(j, dict):
        if "l" in j and "p" in j and isinstance(j["p"], list) and isinstance(j["l"], int):
            return {"l": j["l"] + loff, "p": [({"ix": e["ix"] + loff} if isinstance(e, dict) and "ix" in e else e) for e in j["p"]]}
        if "ty" in j and "s" in j and "fn" not in j and len(j) <= 3 and not isinstance(j.get("ty"), str):
            return j            # a plain constant: shared, immutable
        return {a: _renumber(v, loff, boff) for a, v in j.items()}
    if isinstance(j, list):
        return [_renumber(v, loff, boff) for v in j]
    return j


def _shift_term(t, boff):
    k = t["k"]
    if k in ("goto", "drop", "assert", "call"):
        if t.get("t") is not None:
            t["t"] += boff
    if k == "switch":
        t["arms"] = [[a[0], a[1] + boff] for a in t["arms"]]
        t["else"] += boff
    if t.get("uw") is not None:
        t["uw"] += boff


class _Clone:
    """a stand-in for facts.Fn with a different body (all other attributes forwarded)"""

    def __init__(self, fn, body, inlined_ids):
        object.__setattr__(self, "_fn", fn)
        object.__setattr__(self, "body", body)
        object.__setattr__(self, "inlined_ids", inlined_ids)

    def __getattr__(self, a):
        return getattr(object.__getattribute__(self, "_fn"), a)

    def __repr__(self):
        return "<Fn %s +inl>" % self._fn.id


def default_pred(F, caller):
    def pred(g, term):
        return g.kind != "Closure" and g.id.startswith(WORKSPACE) and g.id.split("::")[0] == caller.id.split("::")[0]
    return pred


def inlined(F, fn, pred=None, depth=2, max_blocks=40, same_impl=False, thread=True):
    """copy of `fn` with small helpers spliced in (None-safe: returns `fn` itself when nothing was inlined)"""
    if not fn.body:
        return fn
    pred = pred or default_pred(F, fn)
    body = {"argc": fn.body["argc"], "locals": list(fn.body["locals"]), "blocks": copy.deepcopy(fn.body["blocks"])}
    done = []
    # work list of (block index, stack of callee ids, depth)
    work = [(i, (fn.id,), 0) for i in range(len(body["blocks"]))]
    while work:
        bi, stack, d = work.pop(0)
        t = body["blocks"][bi]["term"]
        if t["k"] != "call" or d >= depth:
            continue
        c = (t["f"] or {}).get("c") or {}
        cid = c.get("res") or c.get("fn")
        g = F.fns.get(cid)
        if g is None or not g.body or cid in stack or len(g.body["blocks"]) > max_blocks:
            continue
        if same_impl and g.impl != fn.impl:
            continue
        if not pred(g, t):
            continue
        if len(t["args"]) != g.body["argc"]:
            continue
        loff = len(body["locals"])
        boff = len(body["blocks"])
        body["locals"] = body["locals"] + [dict(l, inl=g.id) for l in g.body["locals"]]
        sp = body["blocks"][bi].get("sp") or t.get("fsp")
        # parameter passing
        st = body["blocks"][bi]["st"]
        for k, a in enumerate(t["args"]):
            st.append({"k": "assign", "p": {"l": loff + 1 + k, "p": []}, "rv": {"k": "use", "o": a}, "sp": sp, "inl_arg": True})
        dest, tgt, uw = t["dest"], t["t"], t.get("uw")
        for blk in g.body["blocks"]:
            nb = _renumber(blk, loff, boff)
            nt = nb["term"]
            if nt["k"] == "return":
                nb["st"].append({"k": "assign", "p": dest, "rv": {"k": "use", "o": {"mv": {"l": loff, "p": []}}}, "sp": nb.get("sp") or sp, "inl_ret": True})
                nb["term"] = {"k": "goto", "t": tgt} if tgt is not None else {"k": "unreachable"}
            elif nt["k"] == "resume":
                nb["term"] = {"k": "goto", "t": uw} if uw is not None else {"k": "resume"}
            else:
                _shift_term(nt, boff)
            nb["inl"] = g.id
            body["blocks"].append(nb)
        body["blocks"][bi]["term"] = {"k": "goto", "t": boff, "inl_call": g.id}
        done.append(g.id)
        work += [(boff + i, stack + (cid,), d + 1) for i in range(len(g.body["blocks"]))]
    if not done:
        return fn
    if thread:
        thread_constants(body)
    return _Clone(fn, body, done)


def _const_of(o):
    c = (o or {}).get("c")
    if not c:
        return None
    if isinstance(c.get("int"), int) and "fn" not in c:
        return c["int"]
    return None


def thread_constants(body, max_chain=6):
    """jump threading: a block that stores a constant into a local and then falls (through gotos, copies and `!`) into a
    switch on that value is given its own copy of the fall-through, ending in a goto to the arm the constant selects.
    Makes `fn open(..) -> bool { if .. { return false } ..; true }` + `if !open(..) { fail }` path-exact after inlining."""
    blocks = body["blocks"]
    changed = True
    rounds = 0
    while changed and rounds < 4:
        changed = False
        rounds += 1
        for bi in range(len(blocks)):
            blk = blocks[bi]
            if blk["term"]["k"] != "goto" or blk.get("cleanup"):
                continue
            env = {}
            for st in blk["st"]:
                if st["k"] == "assign" and not st["p"]["p"]:
                    rv = st["rv"]
                    v = _const_of(rv["o"]) if rv["k"] == "use" else None
                    if v is None and rv["k"] == "use":
                        p = rv["o"].get("cp") or rv["o"].get("mv")
                        if p is not None and not p["p"] and p["l"] in env:
                            v = env[p["l"]]
                    if v is not None:
                        env[st["p"]["l"]] = v
                    else:
                        env.pop(st["p"]["l"], None)
            if not env:
                continue
            cur = blk["term"]["t"]
            sts = []
            steps = 0
            target = None
            e = dict(env)
            visited = set()
            while steps < max_chain and cur not in visited and cur != bi:
                visited.add(cur)
                steps += 1
                cb = blocks[cur]
                for st in cb["st"]:
                    sts.append(st)
                    if st["k"] == "assign" and not st["p"]["p"]:
                        rv = st["rv"]
                        v = None
                        if rv["k"] == "use":
                            v = _const_of(rv["o"])
                            p = rv["o"].get("cp") or rv["o"].get("mv")
                            if v is None and p is not None and not p["p"] and p["l"] in e:
                                v = e[p["l"]]
                        elif rv["k"] == "un" and rv.get("op") == "Not":
                            p = rv["o"].get("cp") or rv["o"].get("mv")
                            if p is not None and not p["p"] and p["l"] in e and e[p["l"]] in (0, 1):
                                v = 1 - e[p["l"]]
                        if v is not None:
                            e[st["p"]["l"]] = v
                        else:
                            e.pop(st["p"]["l"], None)
                    elif st["k"] == "assign":
                        pass
                t = cb["term"]
                if t["k"] == "goto":
                    cur = t["t"]
                    continue
                if t["k"] == "switch":
                    p = t["on"].get("cp") or t["on"].get("mv")
                    if p is not None and not p["p"] and p["l"] in e:
                        v = e[p["l"]]
                        target = t["else"]
                        for val, tg in t["arms"]:
                            if val == v:
                                target = tg
                break
            if target is None or steps < 1:
                continue
            nb = {"cleanup": False, "st": copy.deepcopy(sts), "term": {"k": "goto", "t": target}, "sp": blocks[blk["term"]["t"]].get("sp"), "threaded": True}
            if blocks[blk["term"]["t"]].get("inl"):
                nb["inl"] = blocks[blk["term"]["t"]]["inl"]
            blocks.append(nb)
            blk["term"] = dict(blk["term"], t=len(blocks) - 1)
            changed = True
    return body
