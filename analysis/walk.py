"""E2 core — path-sensitive abstract walks over a MIR CFG with a symbolic store.

No code is executed: the walker enumerates CFG paths, evaluating statements over *symbolic terms* (parameters, field
projections, enum downcasts, opaque call results) and pruning switch arms that contradict facts already assumed on the
path (the discriminant of the same place was tested before).  Loops are cut after `max_visits` visits of a block.

Terms (tuples):
  ('param', i) ('local', l) ('const', repr, intval|None)
  ('f', base, name) ('v', base, Variant) ('i', base, k|'*') ('discr', base)
  ('agg', head, (terms...)) ('op', name, (terms...)) ('call', name, (terms...), site)
"""
import re
from .mir import Body, op_place, op_const, op_local, callee_of, callee_name

MAXD = 14


def too_deep(t, limit):
    """is the nesting depth of term t greater than limit?  (early exit, no full traversal of shallow terms)"""
    stack = [(t, 0)]
    while stack:
        x, d = stack.pop()
        if d > limit:
            return True
        if not isinstance(x, tuple):
            continue
        for y in x[1:]:
            if isinstance(y, tuple):
                if y and isinstance(y[0], str):
                    stack.append((y, d + 1))
                else:
                    for z in y:
                        if isinstance(z, tuple):
                            stack.append((z, d + 1))
    return False


def tdepth(t, d=0):
    return MAXD + 1 if too_deep(t, MAXD) else 0


def clip(t):
    return ("op", "deep", ()) if too_deep(t, MAXD) else t


class Path:
    __slots__ = ("env", "facts", "events", "visits", "trace", "refs")

    def __init__(self, env=None, facts=None, events=None, visits=None, trace=None, refs=None):
        self.env = env or {}
        self.facts = facts or {}
        self.events = events or []
        self.visits = visits or {}
        self.trace = trace or []
        self.refs = refs or {}

    def fork(self):
        return Path(dict(self.env), dict(self.facts), list(self.events), dict(self.visits), list(self.trace), dict(self.refs))


class Walker:
    """Enumerate paths of one function body.

    on_call(path, bb, term_dict, name, arg_terms) may return:
        None                         -> default: dest := ('call', name, args, site)
        ('value', term)              -> dest := term
        ('stop',)                    -> abandon this path (e.g. diverging call)
    on_return(path) is called when a `return` terminator is reached.
    """

    def __init__(self, fn, body=None, max_visits=2, follow_errors=False, max_paths=20000, max_depth=None):
        self.max_depth = max_depth
        self.fn = fn
        self.b = Body(fn, body)
        self.max_visits = max_visits
        self.follow_errors = follow_errors
        self.max_paths = max_paths
        self.n_paths = 0
        self.truncated = False

    # ---- symbolic evaluation
    def place(self, path, p):
        l = p["l"]
        if l in path.env:
            t = path.env[l]
        elif 1 <= l <= self.b.argc:
            t = ("param", l)
        else:
            t = ("local", l)
        for e in p["p"]:
            if e == "*" or isinstance(e, str):
                continue
            if "f" in e:
                # projection on a known aggregate picks the operand
                if t[0] == "agg" and isinstance(t[2], tuple) and e["f"] < len(t[2]) and t[1] not in ("array",):
                    t = t[2][e["f"]]
                else:
                    t = ("f", t, e["n"])
            elif "dc" in e:
                if t[0] == "agg" and isinstance(t[1], str) and t[1].endswith("::" + e["dc"]):
                    pass
                else:
                    t = ("v", t, e["dc"])
            elif "ci" in e:
                if t[0] == "agg" and t[1] in ("array", "tuple") and not e["fe"] and e["ci"] < len(t[2]):
                    t = t[2][e["ci"]]
                else:
                    t = ("i", t, e["ci"] if not e["fe"] else -1 - e["ci"])
            elif "ix" in e:
                it = path.env.get(e["ix"])
                if it and it[0] == "const" and it[2] is not None:
                    if t[0] == "agg" and t[1] in ("array", "tuple") and it[2] < len(t[2]):
                        t = t[2][it[2]]
                    else:
                        t = ("i", t, it[2])
                else:
                    t = ("i", t, "*")
            elif "sub" in e:
                t = ("i", t, "*")
        return t

    def operand(self, path, o):
        pl = op_place(o)
        if pl is not None:
            return self.place(path, pl)
        c = op_const(o)
        if c is not None:
            if "fn" in c:
                return ("const", "fn:" + (c.get("rname") or c["fname"]), None)
            if "str" in c:
                return ("const", c["str"], None)
            if "bytes" in c:
                return ("const", bytes(c["bytes"]), None)
            if "promoted" in c:
                return ("promoted", c["promoted"])
            return ("const", c.get("s", "?"), c.get("int"))
        return ("op", "rt", ())

    def rvalue(self, path, rv):
        k = rv["k"]
        if k == "use":
            return self.operand(path, rv["o"])
        if k in ("ref", "rawptr"):
            return self.place(path, rv["p"])
        if k == "agg":
            ak = rv.get("ak")
            ops = tuple(self.operand(path, o) for o in rv["ops"])
            if ak == "adt":
                return ("agg", "%s::%s" % (rv["id"], rv["variant"]), ops)
            if ak == "closure":
                return ("agg", "closure:" + rv["id"], ops)
            return ("agg", ak, ops)
        if k == "bin":
            l = self.operand(path, rv["l"])
            r = self.operand(path, rv["r"])
            return clip(("op", rv["op"], (l, r)))
        if k == "un":
            return clip(("op", rv["op"], (self.operand(path, rv["o"]),)))
        if k == "cast":
            t = self.operand(path, rv["o"])
            ck = rv["ck"]
            if ck.startswith("PointerCoercion") or ck.startswith("PtrToPtr") or ck.startswith("Transmute"):
                return t
            return clip(("op", "cast:" + rv["to"]["s"], (t,)))
        if k == "discr":
            return ("discr", self.place(path, rv["p"]), rv["ty"].get("id"))
        if k == "repeat":
            return ("agg", "repeat", (self.operand(path, rv["o"]),))
        return ("op", "other", ())

    # ---- the walk
    def run(self, start=0, init=None, on_call=None, on_return=None, on_switch=None, on_stmt=None):
        """see class doc; `max_depth` (constructor) raises the term nesting limit for this walk only"""
        global MAXD
        if self.max_depth is None:
            return self._run(start, init, on_call, on_return, on_switch, on_stmt)
        saved = MAXD
        MAXD = self.max_depth
        try:
            return self._run(start, init, on_call, on_return, on_switch, on_stmt)
        finally:
            MAXD = saved

    def _run(self, start=0, init=None, on_call=None, on_return=None, on_switch=None, on_stmt=None):
        stack = [(start, init or Path())]
        F_enum = None
        while stack:
            bb, path = stack.pop()
            if self.n_paths > self.max_paths:
                self.truncated = True
                return
            while True:
                v = path.visits.get(bb, 0)
                if v >= self.max_visits:
                    break
                path.visits[bb] = v + 1
                path.trace.append(bb)
                blk = self.b.blocks[bb]
                for st in blk["st"]:
                    if st["k"] == "assign":
                        p = st["p"]
                        val = self.rvalue(path, st["rv"])
                        if on_stmt:
                            on_stmt(path, bb, st, val)
                        rv0 = st["rv"]
                        if not p["p"] and rv0["k"] == "ref" and rv0.get("mut"):
                            q = rv0["p"]
                            if all(e == "*" for e in q["p"]):
                                path.refs[p["l"]] = path.refs.get(q["l"], q["l"])
                        elif not p["p"] and rv0["k"] == "use":
                            ql = op_local(rv0["o"])
                            if ql is not None and ql in path.refs:
                                path.refs[p["l"]] = path.refs[ql]
                        if not p["p"]:
                            path.env[p["l"]] = val
                        else:
                            # partial assignment: keep a tiny model for tuple/struct building `_x.0 = ..`
                            cur = path.env.get(p["l"])
                            first = p["p"][0]
                            if isinstance(first, dict) and "f" in first and len(p["p"]) == 1:
                                if cur is None or cur[0] != "agg" or not isinstance(cur[2], tuple):
                                    cur = ("agg", "partial", ())
                                ops = list(cur[2])
                                while len(ops) <= first["f"]:
                                    ops.append(("op", "unset", ()))
                                ops[first["f"]] = val
                                path.env[p["l"]] = ("agg", cur[1], tuple(ops))
                t = blk["term"]
                k = t["k"]
                if k == "return":
                    self.n_paths += 1
                    if on_return:
                        on_return(path)
                    break
                if k in ("goto", "drop"):
                    bb = t["t"]
                    continue
                if k == "assert":
                    bb = t["t"]
                    continue
                if k == "call":
                    d, r, c = callee_of(t)
                    name = (c.get("rname") or c.get("fname")) if c else None
                    args = tuple(self.operand(path, a) for a in t["args"])
                    site = (self.fn.id, bb, path.visits.get(bb, 0))
                    res = on_call(path, bb, t, name, args) if on_call else None
                    if res is not None and res[0] == "stop":
                        break
                    if t["t"] is None:
                        break  # diverging call
                    if res is not None and res[0] == "forkvals":
                        # several possible results, each with the facts under which it is produced (an inlined helper that
                        # matches on its argument): continue with the first consistent one, fork the others
                        alts = [a for a in res[1] if all(path.facts.get(k, fv) == fv for k, fv in a[1].items())]
                        if not alts:
                            break
                        dp0 = t["dest"]
                        for a in alts[1:]:
                            p2 = path.fork()
                            p2.facts.update(a[1])
                            if len(a) > 2:
                                p2.events += list(a[2])
                            if not dp0["p"]:
                                p2.env[dp0["l"]] = clip(a[0])
                            stack.append((t["t"], p2))
                        path.facts.update(alts[0][1])
                        if len(alts[0]) > 2:
                            path.events += list(alts[0][2])
                        res = ("value", alts[0][0])
                    val = res[1] if res is not None and res[0] == "value" else ("call", name or "?", args, site)
                    # mutation through `&mut local` arguments: the local's value now also depends on the other arguments
                    for ai, a in enumerate(t["args"]):
                        al = op_local(a)
                        if al is not None and al in path.refs:
                            L = path.refs[al]
                            old = path.env.get(L, ("param", L) if 1 <= L <= self.b.argc else ("local", L))
                            others = tuple(x for j, x in enumerate(args) if j != ai)
                            if old[0] == "op" and old[1] == "mut":
                                base, prev = old[2][0], old[2][1:]
                            else:
                                base, prev = old, ()
                            merged = list(prev)
                            for x in others:
                                if x not in merged and len(merged) < 16:
                                    merged.append(x)
                            path.env[L] = clip(("op", "mut", (base,) + tuple(merged)))
                    dp = t["dest"]
                    if not dp["p"]:
                        path.env[dp["l"]] = clip(val)
                    bb = t["t"]
                    continue
                if k == "switch":
                    on = self.operand(path, t["on"])
                    arms = list(t["arms"])
                    other = t["else"]
                    chosen = None
                    if on_switch:
                        chosen = on_switch(path, bb, t, on)
                    if chosen is None:
                        chosen = self.default_switch(path, t, on)
                    # chosen: list of (target bb, fact key, fact value)
                    if not chosen:
                        break
                    for tgt, fk, fv in chosen[1:]:
                        p2 = path.fork()
                        if fk is not None:
                            p2.facts[fk] = fv
                        stack.append((tgt, p2))
                    tgt, fk, fv = chosen[0]
                    if fk is not None:
                        path.facts[fk] = fv
                    bb = tgt
                    continue
                # unreachable / resume / other
                break

    def default_switch(self, path, t, on):
        arms = list(t["arms"])
        other = t["else"]
        unreachable_else = self.b.is_unreachable_blk(other)
        if on[0] == "discr":
            base = on[1]
            # Try::branch result: follow Continue only
            if base[0] == "call" and base[1] and base[1].endswith("Try>::branch") and not self.follow_errors:
                for v, tgt in arms:
                    if v == 0:
                        return [(tgt, None, None)]
            # known aggregate: pick the arm
            if base[0] == "agg" and "::" in str(base[1]):
                return self._arm_for_variant(path, t, on, base[1].split("::")[-1])
            key = ("discr", base)
            if key in path.facts:
                want = path.facts[key]
                res = []
                for v, tgt in arms:
                    if ("=", v) == want:
                        res.append((tgt, None, None))
                if not res and want[0] == "!=":
                    # previously excluded values
                    for v, tgt in arms:
                        if v not in want[1]:
                            res.append((tgt, key, ("=", v)))
                    if not unreachable_else:
                        res.append((other, None, None))
                elif not res and not unreachable_else:
                    res.append((other, None, None))
                return res
            res = [(tgt, key, ("=", v)) for v, tgt in arms]
            if not unreachable_else:
                res.append((other, key, ("!=", tuple(v for v, _ in arms))))
            return res
        if on[0] == "const" and on[2] is not None:
            for v, tgt in arms:
                if v == on[2]:
                    return [(tgt, None, None)]
            return [(other, None, None)]
        key = ("val", on)
        if key in path.facts:
            want = path.facts[key]
            res = []
            if want[0] == "=":
                for v, tgt in arms:
                    if v == want[1]:
                        return [(tgt, None, None)]
                return [(other, None, None)]
            else:
                for v, tgt in arms:
                    if v not in want[1]:
                        res.append((tgt, key, ("=", v)))
                res.append((other, None, None))
                return res
        res = [(tgt, key, ("=", v)) for v, tgt in arms]
        if not unreachable_else:
            res.append((other, key, ("!=", tuple(v for v, _ in arms))))
        return res

    def _arm_for_variant(self, path, t, on, vname):
        # needs enum table: resolved lazily by caller through on_switch; fallback: fork all
        arms = list(t["arms"])
        res = [(tgt, None, None) for v, tgt in arms]
        if not self.b.is_unreachable_blk(t["else"]):
            res.append((t["else"], None, None))
        return res


def strip_calls(t):
    """peel identity-like wrappers (deref, clone, iter, next, unwrap …) off a term to reach the underlying place term"""
    from .flow import IDENTITY
    while isinstance(t, tuple):
        if t[0] == "call" and t[2] and t[1] and (IDENTITY.search(t[1]) or re.search(r"::(as_bytes|iter|into_iter|next|deref)$", t[1])):
            t = t[2][0]
            continue
        if t[0] == "v" and t[2] in ("Some", "Ok", "Continue"):
            t = t[1]
            continue
        if t[0] == "f" and t[2] == "0" and t[1][0] == "v" and t[1][2] in ("Some", "Ok", "Continue"):
            t = t[1][1]
            continue
        if t[0] == "op" and t[1].startswith("cast:") and t[2]:
            t = t[2][0]
            continue
        if t[0] == "op" and t[1] == "mut" and t[2]:
            t = t[2][0]
            continue
        break
    return t


def field_chain(t):
    """('f',('v',('param',2),'ColRow'),'cols') -> (('param',2), ['as:ColRow','cols'])"""
    chain = []
    t = strip_calls(t)
    while isinstance(t, tuple) and t[0] in ("f", "v", "i"):
        if t[0] == "f":
            chain.append(t[2])
        elif t[0] == "v":
            chain.append("as:" + t[2])
        else:
            chain.append("[%s]" % (t[2],))
        t = strip_calls(t[1])
    return t, chain[::-1]


ADAPTER = re.compile(r"Iterator>?::(for_each|try_for_each|map|try_fold|fold|inspect|filter_map|flat_map|any|all|find|find_map|filter|position|take_while|skip_while)$")


def with_closures(F, on_call, depth=2):
    """wrap an on_call hook so that a closure handed to an iterator adapter is walked as the body of a loop over the
    receiver's items: its calls reach the same hook, with the closure's captures bound to the caller's terms and its
    argument bound to `next(receiver)`.  Events the nested walk appends go to the caller's path."""
    state = {"depth": 0}

    def hook(path, bb, t, name, args):
        res = on_call(path, bb, t, name, args) if on_call else None
        n = name or ""
        if ADAPTER.search(n) and len(args) >= 2 and state["depth"] < depth:
            for a in args[1:]:
                if not (a and a[0] == "agg" and str(a[1]).startswith("closure:")):
                    continue
                cf = F.fns.get(str(a[1])[len("closure:"):])
                if cf is None or not cf.body:
                    continue
                item = ("f", ("v", ("call", "<std::slice::Iter<'a, T> as std::iter::Iterator>::next", (args[0],), ("closure", bb, 0)), "Some"), "0")
                init = Path()
                init.env[1] = a
                init.env[2] = item
                init.facts = dict(path.facts)
                cw = Walker(cf, follow_errors=False, max_visits=2, max_paths=300)
                state["depth"] += 1
                got = []
                try:
                    cw.run(init=init, on_call=hook, on_return=lambda p: got.append(list(p.events)))
                finally:
                    state["depth"] -= 1
                if got:
                    path.events += max(got, key=len)
        return res
    return hook


def with_inlining(F, on_call, prefixes, max_blocks=400, depth=2, only=None):
    """wrap an on_call hook: a call to a small, loop-free workspace helper that the hook itself does not interpret is
    replaced by the helper's own results — one alternative per return path, each with the branch facts (in the caller's
    terms, because the helper is walked with the caller's argument terms bound to its parameters) under which it is taken.
    This lets table extractors see through `record.record_type()` / `payload_layout(&record)` style helpers."""
    state = {"depth": 0}

    def hook(path, bb, t, name, args):
        res = on_call(path, bb, t, name, args) if on_call else None
        if res is not None:
            return res
        d, r, c = callee_of(t)
        cid = r or d
        g = F.fns.get(cid)
        if g is None or not g.body or state["depth"] >= depth or not cid.startswith(tuple(prefixes)):
            return None
        if only is not None and not only(g):
            return None
        gb = Body(g)
        if len(gb.blocks) > max_blocks or gb.loops() or len(g.inputs) != len(args):
            return None
        init = Path()
        for i, a in enumerate(args):
            init.env[i + 1] = a
        init.facts = dict(path.facts)
        base_facts = dict(path.facts)
        outs = []
        cw = Walker(g, follow_errors=True, max_visits=1, max_paths=400)
        state["depth"] += 1
        try:
            cw.run(init=init, on_call=hook, on_return=lambda p: outs.append((p.env.get(0), {k: v for k, v in p.facts.items() if base_facts.get(k) != v}, list(p.events))))
        finally:
            state["depth"] -= 1
        if cw.truncated or not outs or any(o[0] is None for o in outs):
            return None
        # error returns of the helper end the caller's path too when the caller propagates them; keep them as alternatives
        if len(outs) == 1:
            path.facts.update(outs[0][1])
            path.events += outs[0][2]
            return ("value", outs[0][0])
        return ("forkvals", outs)
    return hook
