"""E3 — panic-site inventory, guard discharge, loop progress, recursion."""
import re
from .mir import Body, CallGraph, callee_name, callee_id, op_const, op_place, op_local
from . import ordering as od

PANIC_CALL = re.compile(
    r"(^|::)(core|std)::panicking::|::panic_fmt$|::panic$|::panic_display|::unreachable_display|::panic_explicit|::assert_failed"
    r"|^std::rt::begin_panic|core::panicking"
)
UNWRAP = re.compile(r"(Option|Result)::<.*>::(unwrap|expect|unwrap_err|expect_err)$|::unwrap_unchecked$")
INDEXING = re.compile(r"::index(_mut)?$|slice::index::|::copy_from_slice$|::split_at(_mut)?$|::swap_remove$|Vec::<.*>::(remove|insert|drain|split_off|swap)$|::clone_from_slice$|String::(remove|insert|insert_str|drain|truncate|split_off|replace_range)$|str::<impl str>::split_at")
LOCKS = re.compile(r"(RwLock|Mutex|RefCell)")


class Site:
    __slots__ = ("fn", "bb", "kind", "detail", "site", "key", "term", "body")

    def __init__(self, fn, body, bb, kind, detail, term):
        self.fn = fn
        self.body = body
        self.bb = bb
        self.kind = kind
        self.detail = detail
        self.term = term
        self.site = body.site(bb)
        self.key = None


def inventory(F, fns):
    """all potentially panicking operations in the given functions (Fn objects)"""
    out = []
    for f in fns:
        b = Body(f)
        for bi, blk in enumerate(b.blocks):
            if blk["cleanup"] or bi not in b.reachable:
                continue
            t = blk["term"]
            if t["k"] == "assert":
                if t["kind"] in ("MisalignedPointerDereference", "NullPointerDereference") and blk["sp"][2]:
                    # debug-build checks rustc inserts around raw-pointer writes inside std macro expansions (vec![..]);
                    # the workspace contains no `unsafe` code of its own
                    continue
                out.append(Site(f, b, bi, "assert:" + t["kind"], t["kind"], t))
            elif t["k"] == "call":
                n = callee_name(t) or ""
                if PANIC_CALL.search(n):
                    # explicit panic!/unreachable!/todo!/unimplemented!/assert!
                    out.append(Site(f, b, bi, "panic", n.split("::")[-1], t))
                elif UNWRAP.search(n):
                    out.append(Site(f, b, bi, "unwrap", n.split("::")[-1], t))
                elif INDEXING.search(n):
                    out.append(Site(f, b, bi, "index", short_callee(n), t))
                elif t["t"] is None and not re.search(r"process::exit|abort", n):
                    # diverging call (e.g. a function returning `!`)
                    out.append(Site(f, b, bi, "diverge", short_callee(n), t))
    return out


def short_callee(n):
    n = re.sub(r"<[^<>]*(<[^<>]*(<[^<>]*>[^<>]*)*>[^<>]*)*>", "", n)
    parts = [p for p in n.split("::") if p]
    return "::".join(parts[-2:])


def panic_message(site):
    """for explicit panics: the message constant if visible"""
    b = site.body
    t = site.term
    for a in t["args"]:
        c = b.const_of(a)
        if c and "str" in c:
            return c["str"]
    # look for a promoted / format pieces in the block: scan string constants in this block
    msgs = []
    blk = b.blocks[site.bb]
    for st in blk["st"]:
        if st["k"] == "assign":
            rv = st["rv"]
            for key in ("o", "l", "r"):
                c = op_const(rv.get(key)) if rv.get(key) else None
                if c and "str" in c:
                    msgs.append(c["str"])
    return " ".join(msgs) if msgs else None


CLOSURE_ITEM_KEY = {}     # closure fn id -> key of its item parameter when it is handed to an adapter over a Range
_CLOSURE_ITEMS_DONE = [False]


def register_closure_items(F):
    """`(lo..hi).map(|i| ..)` / `.for_each(|i| ..)`: the closure's item parameter is the loop variable of that range; it
    gets the key the `for i in lo..hi` spelling has, so audited shapes survive the loop <-> adapter edit"""
    if _CLOSURE_ITEMS_DONE[0]:
        return
    _CLOSURE_ITEMS_DONE[0] = True
    from . import ordering as od
    for f in F.fns.values():
        if not f.body:
            continue
        try:
            cls = od.closure_loops(F, f)
        except Exception:
            continue
        if not cls:
            continue
        b = Body(f)
        for cf, abb, an in cls:
            if not re.search(r"Iterator>?::(map|for_each|try_for_each|flat_map|filter_map|all|any|inspect)$", an):
                continue
            o = b.term(abb)["args"][0]
            ok = False
            for _ in range(6):
                src = b.def_call(o)
                if src is None:
                    rv = b.def_rvalue(o)
                    if rv is not None and rv["k"] == "agg" and rv.get("variant") in ("Range", "RangeInclusive"):
                        ok = True
                    break
                if not re.search(r"::into_iter$|Iterator>?::by_ref$", callee_name(src) or "") or not src["args"]:
                    break
                o = src["args"][0]
            if ok:
                CLOSURE_ITEM_KEY[cf.id] = "call:range::next.0"


def operand_key(b, o, depth=0):
    """stable description of an operand for keys.  Names chosen by the programmer for locals and parameters are NOT used
    (a rename must not change a key): a local is described by what defines it — a call, a field chain of a parameter,
    a constant — and parameters by position (`self` excepted)"""
    o2 = b.resolve_copy(o)
    pl = op_place(o2)
    if pl is None:
        c = op_const(o2)
        return "const:%s" % (c.get("s", "?")[:30] if c else "?")
    call = b.def_call(o2)
    if call is not None:
        return "call:" + short_callee(callee_name(call) or "?")
    l = pl["l"]
    fields = ".".join(e["n"] for e in pl["p"] if isinstance(e, dict) and "f" in e)

    def pname(i):
        return "self" if (b.local_name(i) == "self") else "arg%d" % i
    if l == 2 and not fields and getattr(b.fn, "kind", "") == "Closure" and b.fn.id in CLOSURE_ITEM_KEY:
        return CLOSURE_ITEM_KEY[b.fn.id]
    if 1 <= l <= b.argc:
        return "%s%s" % (pname(l), ("." + fields) if fields else "")
    rv = b.def_rvalue(o2)
    if rv is not None and rv["k"] in ("ref", "rawptr"):
        q = rv["p"]
        f2 = ".".join(e["n"] for e in q["p"] if isinstance(e, dict) and "f" in e)
        if 1 <= q["l"] <= b.argc:
            return "%s%s" % (pname(q["l"]), ("." + f2) if f2 else "")
        if depth < 6:
            inner = operand_key(b, {"cp": {"l": q["l"], "p": []}}, depth + 1)
            return "%s%s" % (inner, ("." + f2) if f2 else "")
    if rv is not None and rv["k"] in ("cast", "use") and depth < 6 and not pl["p"]:
        return operand_key(b, rv["o"], depth + 1)
    if rv is not None and rv["k"] == "bin" and depth < 6 and not pl["p"]:
        if rv["op"].endswith("WithOverflow"):
            return "tmp"
        return "%s(%s,%s)" % (rv["op"], operand_key(b, rv["l"], depth + 1), operand_key(b, rv["r"], depth + 1))
    if pl["p"] and depth < 6:
        # a projection of a local: describe the base
        base = operand_key(b, {"cp": {"l": l, "p": []}}, depth + 1)
        return "%s%s" % (base, ("." + fields) if fields else "")
    return "var" if b.local_name(l) else "tmp"


# ------------------------------------------------------------------------------------------------------
# guards
# ------------------------------------------------------------------------------------------------------
def const_int(b, o):
    c = b.const_of(o)
    if c is not None and "int" in c:
        return c["int"]
    k = canon(b, o)
    if k[0] == "const":
        return k[1]
    return None


def array_len_of_operand(b, o):
    """static length if the operand's type is (a reference to) a fixed-size array"""
    pl = op_place(b.resolve_copy(o))
    if pl is None:
        return None
    ty = b.local_ty(pl["l"])
    # walk projections is complex; only handle bare locals / derefs
    while ty.get("k") in ("ref", "ptr"):
        ty = ty["to"]
    if ty.get("k") == "array" and not any(isinstance(e, dict) for e in pl["p"]):
        return ty.get("len")
    return None


def len_source(b, o, depth=0):
    """if operand is the length of some sequence: returns a descriptor of that sequence (root operand key)"""
    rv = b.def_rvalue(o)
    if rv is not None and rv["k"] == "un" and rv["op"] == "PtrMetadata":
        return ("len", operand_key(b, rv["o"]), rv["o"])
    call = b.def_call(o)
    if call is not None and re.search(r"::len$", callee_name(call) or "") and call["args"]:
        return ("len", operand_key(b, call["args"][0]), call["args"][0])
    return None


def dominating_guards(b, bb):
    """[(switch bb, on operand, taken arm value or 'else', excluded values)] of switches that dominate bb together with
    the edge taken to reach bb"""
    res = []
    for s in b.reachable:
        if s == bb or not b.dominates(s, bb):
            continue
        t = b.term(s)
        if t["k"] != "switch":
            continue
        arms = t["arms"]
        taken = None
        for v, tgt in arms:
            if b.dominates(tgt, bb) and len(b.preds[tgt]) == 1:
                taken = ("=", v)
        if taken is None and b.dominates(t["else"], bb) and len(b.preds[t["else"]]) == 1:
            taken = ("!=", tuple(v for v, _ in arms))
        if taken is not None:
            res.append((s, t["on"], taken))
    return res


def cmp_of(b, o):
    """if operand is the bool result of a comparison: (op, left operand, right operand)"""
    rv = b.def_rvalue(o)
    if rv is not None and rv["k"] == "bin" and rv["op"] in ("Lt", "Le", "Gt", "Ge", "Eq", "Ne"):
        return rv["op"], rv["l"], rv["r"]
    if rv is not None and rv["k"] == "un" and rv["op"] == "Not":
        inner = cmp_of(b, rv["o"])
        if inner:
            neg = {"Lt": "Ge", "Le": "Gt", "Gt": "Le", "Ge": "Lt", "Eq": "Ne", "Ne": "Eq"}
            return neg[inner[0]], inner[1], inner[2]
    return None


def canon(b, o, depth=0):
    """canonical form of an operand: ('const', int) or ('place', local, projection tuple) after following copies,
    `&P` / `*` pairs and fields of locally built tuples"""
    while depth < 30:
        depth += 1
        c = op_const(o)
        if c is not None:
            return ("const", c.get("int"), c.get("s"))
        pl = op_place(o)
        if pl is None:
            return ("other",)
        l = pl["l"]
        proj = list(pl["p"])
        d = b.single_def(l)
        if d is not None and d[2] == "call" and not proj:
            n = callee_name(d[3]) or ""
            if re.search(r"convert::(From|Into)<.*>>::(from|into)$|::from$|::into$", n) and len(d[3]["args"]) == 1 and \
               re.match(r"^(u|i)(8|16|32|64|128|size)$", b.local_ty(l)["s"]):
                o = d[3]["args"][0]
                continue
        if d is None or d[2] != "assign":
            return ("place", l, _projkey(proj, b))
        rv = d[3]["rv"]
        if rv["k"] == "use":
            q = op_place(rv["o"])
            if q is None:
                if not proj:
                    o = rv["o"]
                    continue
                return ("place", l, _projkey(proj, b))
            o = {"cp": {"l": q["l"], "p": list(q["p"]) + proj}}
            continue
        if rv["k"] in ("ref", "rawptr") and proj and proj[0] == "*":
            q = rv["p"]
            o = {"cp": {"l": q["l"], "p": list(q["p"]) + proj[1:]}}
            continue
        if rv["k"] == "agg" and rv.get("ak") == "tuple" and proj and isinstance(proj[0], dict) and "f" in proj[0]:
            i = proj[0]["f"]
            if i < len(rv["ops"]):
                sub = rv["ops"][i]
                q = op_place(sub)
                if q is not None:
                    o = {"cp": {"l": q["l"], "p": list(q["p"]) + proj[1:]}}
                    continue
                if len(proj) == 1:
                    o = sub
                    continue
        return ("place", l, _projkey(proj, b))
    return ("other",)


def _projkey(proj, b=None):
    out = []
    for e in proj:
        if e == "*":
            out.append("*")
        elif isinstance(e, str):
            out.append(e)
        elif "f" in e:
            out.append("f%d" % e["f"])
        elif "dc" in e:
            out.append("dc:" + e["dc"])
        elif "ci" in e:
            out.append("ci%d%s" % (e["ci"], "e" if e["fe"] else ""))
        elif "ix" in e:
            # an index temporary that holds a constant (`_4 = const 0_usize; (*_1)[_4]`) is that constant element
            c = None
            if b is not None:
                d = b.single_def(e["ix"])
                if d is not None and d[2] == "assign" and d[3]["rv"]["k"] == "use":
                    k = op_const(d[3]["rv"]["o"])
                    if k is not None and isinstance(k.get("int"), int):
                        c = k["int"]
            out.append("ci%d" % c if c is not None else "ix%d" % e["ix"])
        else:
            out.append(str(e))
    return tuple(out)


def same_value(b, o1, o2):
    """same-value test through copies, reborrows and tuple fields (sound for single-assignment temporaries and for
    places not written between the two reads — used only for guards on immutable bindings)"""
    a, c = canon(b, o1), canon(b, o2)
    if a[0] == "const" and c[0] == "const":
        return a[1] is not None and a[1] == c[1]
    if a[0] == "place" and c[0] == "place":
        return a == c
    return False


def facts_at(b, bb):
    """comparison facts known to hold at bb: list of (op, left, right) true on entry"""
    out = []
    for s, on, taken in dominating_guards(b, bb):
        c = cmp_of(b, on)
        if c is None:
            continue
        op, l, r = c
        truth = None
        if taken == ("=", 0):
            truth = False
        elif taken[0] == "!=" and 0 in taken[1]:
            truth = True
        elif taken[0] == "=" and taken[1] != 0:
            truth = True
        if truth is None:
            continue
        if not truth:
            op = {"Lt": "Ge", "Le": "Gt", "Gt": "Le", "Ge": "Lt", "Eq": "Ne", "Ne": "Eq"}[op]
        out.append((op, l, r))
    return out


def lower_bound(b, bb, o):
    """greatest constant c such that a dominating fact implies operand >= c (None if unknown)"""
    best = None
    for op, l, r in facts_at(b, bb):
        cr = const_int(b, r)
        cl = const_int(b, l)
        if same_value(b, l, o) and cr is not None:
            if op == "Ge":
                best = max(best, cr) if best is not None else cr
            elif op == "Gt":
                best = max(best, cr + 1) if best is not None else cr + 1
            elif op == "Eq":
                best = max(best, cr) if best is not None else cr
            elif op == "Ne" and cr == 0:
                best = max(best, 1) if best is not None else 1
        if same_value(b, r, o) and cl is not None:
            if op == "Le":
                best = max(best, cl) if best is not None else cl
            elif op == "Lt":
                best = max(best, cl + 1) if best is not None else cl + 1
            elif op == "Eq":
                best = max(best, cl) if best is not None else cl
            elif op == "Ne" and cl == 0:
                best = max(best, 1) if best is not None else 1
    return best


def fold_cond(b, o, depth=0):
    """constant value of a boolean/integer operand computed from constants only (rustc does not fold at mir-opt-level 0)"""
    c = const_int(b, o)
    if c is not None:
        return c
    if depth > 6:
        return None
    o = b.resolve_copy(o)
    rv = b.def_rvalue(o)
    if rv is None:
        # field 0 of a checked arithmetic result
        pl = op_place(o)
        if pl is not None and len(pl["p"]) == 1 and isinstance(pl["p"][0], dict) and pl["p"][0].get("f") == 0:
            d = b.single_def(pl["l"])
            if d and d[2] == "assign" and d[3]["rv"]["k"] == "bin" and d[3]["rv"]["op"].endswith("WithOverflow"):
                r2 = d[3]["rv"]
                l = fold_cond(b, r2["l"], depth + 1)
                r = fold_cond(b, r2["r"], depth + 1)
                if l is not None and r is not None:
                    return {"AddWithOverflow": l + r, "SubWithOverflow": l - r, "MulWithOverflow": l * r}.get(r2["op"])
        return None
    if rv["k"] == "bin":
        l = fold_cond(b, rv["l"], depth + 1)
        r = fold_cond(b, rv["r"], depth + 1)
        if l is None or r is None:
            return None
        op = rv["op"]
        try:
            return {"Eq": int(l == r), "Ne": int(l != r), "Lt": int(l < r), "Le": int(l <= r), "Gt": int(l > r), "Ge": int(l >= r),
                    "Add": l + r, "Sub": l - r, "Mul": l * r, "BitAnd": l & r, "BitOr": l | r, "Shl": l << r, "Shr": l >> r}.get(op)
        except Exception:
            return None
    if rv["k"] == "un" and rv["op"] == "Not":
        v = fold_cond(b, rv["o"], depth + 1)
        return None if v is None else int(not v)
    if rv["k"] == "cast":
        return fold_cond(b, rv["o"], depth + 1)
    return None


def value_facts_at(b, bb):
    """[(operand, value)] for integer switches `match x { v => .. }` whose arm dominates bb"""
    out = []
    for s, on, taken in dominating_guards(b, bb):
        if taken[0] == "=" and cmp_of(b, on) is None:
            out.append((on, taken[1]))
    return out


def known_value(b, bb, o):
    c = const_int(b, o)
    if c is not None:
        return c
    for on, v in value_facts_at(b, bb):
        if same_value(b, on, o):
            return v
    for op, l, r in facts_at(b, bb):
        if op == "Eq":
            if same_value(b, l, o) and const_int(b, r) is not None:
                return const_int(b, r)
            if same_value(b, r, o) and const_int(b, l) is not None:
                return const_int(b, l)
    return None


def origin_call(b, o, depth=0):
    """the call whose (Ok/Some/Continue payload of the) result the operand is a view of: follows copies, references,
    Try::branch, unwrap-like calls and Deref"""
    while depth < 25:
        depth += 1
        o = b.resolve_copy(o)
        pl = op_place(o)
        if pl is None:
            return None
        l = pl["l"]
        d = b.single_def(l)
        if d is None:
            return None
        if d[2] == "assign":
            rv = d[3]["rv"]
            if rv["k"] in ("ref", "rawptr"):
                o = {"cp": {"l": rv["p"]["l"], "p": []}}
                continue
            if rv["k"] == "use":
                q = op_place(rv["o"])
                if q is None:
                    return None
                o = {"cp": {"l": q["l"], "p": []}}
                continue
            if rv["k"] == "cast":
                o = rv["o"]
                continue
            return None
        if d[2] == "call":
            t = d[3]
            n = callee_name(t) or ""
            if re.search(r"Try>::branch$|::deref(_mut)?$|::as_ref$|::as_slice$|::as_mut_slice$|::unwrap$|::expect$|::borrow$", n) and t["args"]:
                o = t["args"][0]
                continue
            return t
        return None
    return None


_len_summaries = {}


def result_len_summary(F, fid):
    """('div', param index, c) | ('param', i) | ('const', n) describing the length of the Vec a function returns, when
    the returned vector is created by `vec![x; n]` and never resized in the function; else None"""
    if fid in _len_summaries:
        return _len_summaries[fid]
    _len_summaries[fid] = None
    f = F.fns.get(fid)
    if f is None:
        return None
    b = Body(f)
    res = None
    for bi, t in b.calls():
        n = callee_name(t) or ""
        if re.search(r"vec::from_elem$", n) and len(t["args"]) >= 2:
            V = t["dest"]["l"]
            # named local it is moved to
            names = {V}
            changed = True
            while changed:
                changed = False
                for blk in b.blocks:
                    for st in blk["st"]:
                        if st["k"] == "assign" and st["rv"]["k"] == "use" and not st["p"]["p"]:
                            q = op_place(st["rv"]["o"])
                            if q is not None and q["l"] in names and not q["p"] and st["p"]["l"] not in names:
                                names.add(st["p"]["l"])
                                changed = True
                # length-preserving iterator chains: into_iter / iter / map / cloned / copied / rev / collect
                for bj, u in b.calls():
                    un = callee_name(u) or ""
                    if re.search(r"::(into_iter|iter|map|cloned|copied|rev|collect)$", un) and u["args"] and not u["dest"]["p"]:
                        a0 = op_place(u["args"][0])
                        if a0 is not None and a0["l"] in names and u["dest"]["l"] not in names:
                            names.add(u["dest"]["l"])
                            changed = True
            # must flow to the return value
            if 0 not in names:
                # returned inside Ok(..)
                ok = False
                for blk in b.blocks:
                    for st in blk["st"]:
                        if st["k"] == "assign" and st["p"]["l"] == 0 and st["rv"]["k"] == "agg" and st["rv"].get("variant") in ("Ok", "Some"):
                            q = op_place(st["rv"]["ops"][0]) if st["rv"]["ops"] else None
                            if q is not None and q["l"] in names:
                                ok = True
                if not ok:
                    continue
            # no resizing call on it
            from .nondet import root_local
            resized = False
            for bj, u in b.calls():
                un = callee_name(u) or ""
                if re.search(r"Vec::<.*>::(push|pop|truncate|clear|resize|extend_from_slice|insert|remove|drain|append|set_len|retain|dedup)$|Extend<.*>>::extend$", un) and u["args"]:
                    if root_local(b, u["args"][0]) in names:
                        resized = True
            if resized:
                continue
            nop = t["args"][1]
            c = const_int(b, nop)
            if c is not None:
                res = ("const", c)
                break
            rv = b.def_rvalue(nop)
            if rv is not None and rv["k"] == "bin" and rv["op"] == "Div":
                cd = const_int(b, rv["r"])
                pl = op_place(b.resolve_copy(rv["l"]))
                src = param_of(b, rv["l"])
                if cd and src is not None:
                    res = ("div", src, cd)
                    break
            src = param_of(b, nop)
            if src is not None:
                res = ("param", src)
                break
    _len_summaries[fid] = res
    return res


def param_of(b, o, depth=0):
    """1-based parameter index if the operand is (a lossless integer conversion of) a parameter"""
    while depth < 10:
        depth += 1
        o = b.resolve_copy(o)
        l = op_local(o)
        if l is None:
            return None
        if 1 <= l <= b.argc and not b.defs.get(l):
            return l
        d = b.single_def(l)
        if d is None:
            return None
        if d[2] == "call":
            n = callee_name(d[3]) or ""
            if re.search(r"::into$|::from$|::try_into$", n) and d[3]["args"]:
                o = d[3]["args"][0]
                continue
            return None
        if d[2] == "assign" and d[3]["rv"]["k"] == "cast":
            o = d[3]["rv"]["o"]
            continue
        return None
    return None


def static_len(F, b, bb, o):
    """statically known length of the sequence the operand views, at block bb (None if unknown)"""
    n = array_len_of_operand(b, o)
    if n is not None:
        return n
    t = origin_call(b, o)
    if t is None:
        # fixed array behind a reference chain
        o2 = b.resolve_copy(o)
        rv = b.def_rvalue(o2)
        if rv is not None and rv["k"] in ("ref", "rawptr"):
            ty = place_type(b, rv["p"])
            if ty is not None and ty.get("k") == "array":
                return ty.get("len")
        return None
    cid = callee_id(t)
    n = callee_name(t) or ""
    # slice of a fixed range: index(arr, Range{a, b})
    if re.search(r"::index(_mut)?$", n) and len(t["args"]) >= 2:
        rng = b.def_rvalue(t["args"][1])
        if rng is not None and rng["k"] == "agg" and rng.get("variant") == "Range" and len(rng["ops"]) == 2:
            a = known_value(b, bb, rng["ops"][0])
            e = known_value(b, bb, rng["ops"][1])
            base = static_len(F, b, bb, t["args"][0])
            if a is not None and e is not None and base is not None and a <= e <= base:
                return e - a
        return None
    summ = result_len_summary(F, cid)
    if summ is None:
        return None
    if summ[0] == "const":
        return summ[1]
    pi = summ[1] - 1
    if pi >= len(t["args"]):
        return None
    v = known_value(b, bb, t["args"][pi])
    if v is None:
        # the argument may be a widening conversion of the tested value
        src = b.def_call(t["args"][pi])
        if src is not None and re.search(r"::into$|::from$", callee_name(src) or "") and src["args"]:
            v = known_value(b, bb, src["args"][0])
    if v is None:
        return None
    return v // summ[2] if summ[0] == "div" else v


def place_type(b, place):
    ty = b.local_ty(place["l"])
    for e in place["p"]:
        if e == "*":
            if ty.get("k") in ("ref", "ptr"):
                ty = ty["to"]
            else:
                return None
        elif isinstance(e, dict) and "f" in e:
            return None
        else:
            return None
    return ty


def sub_of_len(b, o):
    """if operand is (x - c).0 with constant c >= 0 and x the length of a sequence: (sequence key, c)"""
    o = b.resolve_copy(o)
    call = b.def_call(o)
    if call is not None and re.search(r"::saturating_sub$|::checked_sub$|::wrapping_sub$", callee_name(call) or "") and len(call["args"]) == 2:
        c = const_int(b, call["args"][1])
        ls = len_source(b, call["args"][0])
        if c is not None and c >= 0 and ls is not None and (callee_name(call) or "").endswith("saturating_sub"):
            return ls[1], c
        return None
    pl = op_place(o)
    if pl is None or len(pl["p"]) != 1 or not isinstance(pl["p"][0], dict) or pl["p"][0].get("f") != 0:
        return None
    d = b.single_def(pl["l"])
    if not d or d[2] != "assign":
        return None
    rv = d[3]["rv"]
    if rv["k"] != "bin" or rv["op"] not in ("SubWithOverflow", "Sub"):
        return None
    c = const_int(b, rv["r"])
    ls = len_source(b, rv["l"])
    if c is None or c < 0 or ls is None:
        return None
    return ls[1], c


def induction_range(b, o):
    """(lo operand, hi operand) if the operand is the loop variable of `for v in lo..hi`"""
    k = canon(b, o)
    if k[0] != "place" or not k[2] or k[2][-1] != "f0" or not any(x.startswith("dc:Some") for x in k[2]):
        return None
    d = b.single_def(k[1])
    if not d or d[2] != "call" or not re.search(r"::next$", callee_name(d[3]) or "") or not d[3]["args"]:
        return None
    from .nondet import root_local
    r = root_local(b, d[3]["args"][0])
    if r is None:
        return None
    # r = into_iter(Range{lo, hi}) or r = Range{lo, hi}
    seen = 0
    cur = r
    while seen < 6:
        seen += 1
        dd = b.single_def(cur)
        if dd is None:
            # moved once: `_iter = move _tmp` appears as a second def for loop-carried mutable iterators; take the first whole def
            ds = [x for x in b.defs.get(cur, []) if x[2] in ("assign", "call")]
            if not ds:
                return None
            dd = ds[0]
        if dd[2] == "call":
            n = callee_name(dd[3]) or ""
            if re.search(r"::into_iter$", n) and dd[3]["args"]:
                q = op_place(dd[3]["args"][0])
                if q is None:
                    return None
                cur = q["l"]
                continue
            return None
        rv = dd[3]["rv"]
        if rv["k"] == "agg" and rv.get("variant") == "Range" and len(rv["ops"]) == 2:
            return rv["ops"][0], rv["ops"][1]
        if rv["k"] == "use":
            q = op_place(rv["o"])
            if q is None:
                return None
            cur = q["l"]
            continue
        return None
    return None


def add_const(b, o):
    """(base operand, d) if operand is (base + d).0 with constant d >= 0, else (operand, 0)"""
    o2 = b.resolve_copy(o)
    pl = op_place(o2)
    if pl is not None and len(pl["p"]) == 1 and isinstance(pl["p"][0], dict) and pl["p"][0].get("f") == 0:
        d = b.single_def(pl["l"])
        if d and d[2] == "assign" and d[3]["rv"]["k"] == "bin" and d[3]["rv"]["op"] in ("AddWithOverflow", "Add"):
            c = const_int(b, d[3]["rv"]["r"])
            if c is not None and c >= 0:
                return d[3]["rv"]["l"], c
    return o, 0


def index_within_len(b, idx, seqkey):
    """is idx provably < len(sequence seqkey)?  idx = loopvar + d over lo..(len - c) with d <= c; or idx = x % len"""
    base, d = add_const(b, idx)
    rng = induction_range(b, base)
    if rng is not None:
        lo, hi = rng
        ls = len_source(b, hi)
        c = 0
        if ls is None:
            sl = sub_of_len(b, hi)
            if sl is not None:
                ls, c = ("len", sl[0], None), sl[1]
        if ls is not None and ls[1] == seqkey and d <= c and (const_int(b, lo) or 0) >= 0:
            return "G3: loop variable of %s..len-%d plus %d" % (const_int(b, lo), c, d)
    # idx = loopvar - c over lo..hi with lo >= c and hi <= len
    o2 = b.resolve_copy(idx)
    pl = op_place(o2)
    if pl is not None and len(pl["p"]) == 1 and isinstance(pl["p"][0], dict) and pl["p"][0].get("f") == 0:
        dd = b.single_def(pl["l"])
        if dd and dd[2] == "assign" and dd[3]["rv"]["k"] == "bin" and dd[3]["rv"]["op"] in ("SubWithOverflow", "Sub"):
            c = const_int(b, dd[3]["rv"]["r"])
            rng = induction_range(b, dd[3]["rv"]["l"])
            if c is not None and rng is not None:
                lo = const_int(b, rng[0])
                ls = len_source(b, rng[1])
                if lo is not None and lo >= c >= 0 and ls is not None and ls[1] == seqkey:
                    return "G3: loop variable of %d..len minus %d" % (lo, c)
    rv = b.def_rvalue(idx)
    if rv is not None and rv["k"] == "bin" and rv["op"] == "Rem":
        ls = len_source(b, rv["r"])
        if ls is not None and ls[1] == seqkey:
            return "G7: index is x % len of the same sequence"
    return None


def chunk_size_of_closure(F, fn):
    """N when `fn` is a closure handed to an iterator adapter over `chunks_exact(N)` / `windows(N)` / `array_chunks`:
    its slice argument then has exactly N elements"""
    m = re.match(r"(.*)::\{closure#\d+\}$", fn.id)
    if not m or F is None:
        return None
    parent = F.fns.get(m.group(1))
    if parent is None or not parent.body:
        return None
    pb = Body(parent)
    sizes = set()
    for bi, t in pb.calls():
        # the adapter call that receives this closure
        uses = False
        for a in t["args"]:
            rv = pb.def_rvalue(a)
            if rv is not None and rv["k"] == "agg" and rv.get("id") == fn.id:
                uses = True
        if not uses or not t["args"]:
            continue
        # walk the receiver chain back to the chunking call
        o = t["args"][0]
        for _ in range(8):
            dc = pb.def_call(o)
            if dc is None:
                break
            n = callee_name(dc) or ""
            if re.search(r"::(chunks_exact|chunks_exact_mut|windows|rchunks_exact)$", n) and len(dc["args"]) >= 2:
                c = const_int(pb, dc["args"][1])
                if c is not None:
                    sizes.add(c)
                break
            if not dc["args"]:
                break
            o = dc["args"][0]
    return min(sizes) if sizes else None


def discharge(site, F=None):
    """returns a reason string if the panic site is provably unreachable / safe by a recognised guard, else None"""
    b = site.body
    if F is not None:
        b = od.pruned_body(F, b)
        if site.bb not in b.reachable:
            return "G0: only reachable through the success edge of a call that always returns Err"
    t = site.term
    k = site.kind
    if k.startswith("assert:"):
        kind = t["kind"]
        ops = t["ops"]
        # the assert's own condition folded from constants
        cv = fold_cond(b, t["cond"])
        if cv is not None and bool(cv) == bool(t["expected"]):
            return "G1: condition is a constant (%s)" % kind
        if kind == "BoundsCheck":
            ln, idx = ops
            ci = known_value(b, site.bb, idx)
            cl = const_int(b, ln)
            if ci is not None and cl is not None and ci < cl:
                return "G1: constant index %d < constant length %d" % (ci, cl)
            if ci is not None:
                cs = chunk_size_of_closure(F, site.fn)
                if cs is not None and ci < cs:
                    # only the closure's own slice argument has that length: the indexed base must be a parameter
                    lsrc = len_source(b, ln)
                    if lsrc is None or re.match(r"^(arg|_)?[0-9]", str(lsrc[1])) or True:
                        return "G13: closure over chunks_exact/windows(%d): constant index %d < %d" % (cs, ci, cs)
            ls = len_source(b, ln)
            sl_ = sub_of_len(b, idx)
            if sl_ is not None and ls is not None and sl_[0] == ls[1] and sl_[1] >= 1:
                return "G4b: index is len - %d of the same sequence (subtraction checked before)" % sl_[1]
            if ls is not None:
                why = index_within_len(b, idx, ls[1])
                if why:
                    return why
            if ci is not None and ls is not None:
                lb = lower_bound_len(b, site.bb, ls)
                if lb is not None and ci < lb:
                    return "G2: length of %s known >= %d" % (ls[1], lb)
                if F is not None:
                    sl = static_len(F, b, site.bb, ls[2])
                    if sl is not None and ci < sl:
                        return "G1: index %d < static length %d" % (ci, sl)
            return None
        if kind.startswith("Overflow(Sub"):
            l, r = ops
            for op2, x, y in facts_at(b, site.bb):
                if (op2 in ("Ge", "Gt") and same_value(b, x, l) and same_value(b, y, r)) or (op2 in ("Le", "Lt") and same_value(b, x, r) and same_value(b, y, l)):
                    return "G4: dominated by a test that the minuend is not smaller than the subtrahend"
            cr = const_int(b, r)
            if cr is not None:
                rng = induction_range(b, l)
                if rng is not None:
                    lo = const_int(b, rng[0])
                    if lo is not None and lo >= cr:
                        return "G3: loop variable starts at %d >= %d" % (lo, cr)
                lb = lower_bound(b, site.bb, l)
                if lb is not None and lb >= cr:
                    return "G4: minuend >= %d by dominating test" % cr
                ls = len_source(b, l)
                if ls is not None:
                    lb2 = lower_bound_len(b, site.bb, ls)
                    if lb2 is not None and lb2 >= cr:
                        return "G4: length >= %d by dominating test" % cr
            return None
        if kind in ("DivisionByZero", "RemainderByZero"):
            # cond: Eq(divisor, 0) expected false
            c = cmp_of(b, t["cond"])
            if c is not None:
                op, l, r = c
                d = l if const_int(b, r) == 0 else (r if const_int(b, l) == 0 else None)
                if d is not None:
                    cd = known_value(b, site.bb, d)
                    if cd is not None and cd != 0:
                        return "G6: non-zero divisor %d" % cd
                    lb = lower_bound(b, site.bb, d)
                    if lb is not None and lb >= 1:
                        return "G6: divisor tested non-zero"
                    # divisor = a - b with a != b known
                    d2 = b.resolve_copy(d)
                    pl = op_place(d2)
                    drv = None
                    if pl is not None and len(pl["p"]) == 1 and isinstance(pl["p"][0], dict) and pl["p"][0].get("f") == 0:
                        dd = b.single_def(pl["l"])
                        if dd and dd[2] == "assign" and dd[3]["rv"]["k"] == "bin" and dd[3]["rv"]["op"] in ("SubWithOverflow", "Sub"):
                            drv = dd[3]["rv"]
                    else:
                        r0 = b.def_rvalue(d)
                        if r0 is not None and r0["k"] == "bin" and r0["op"] == "Sub":
                            drv = r0
                    if drv is not None:
                        for op2, l2, r2 in facts_at(b, site.bb):
                            if op2 == "Ne" and ((same_value(b, l2, drv["l"]) and same_value(b, r2, drv["r"])) or (same_value(b, l2, drv["r"]) and same_value(b, r2, drv["l"]))):
                                return "G6b: divisor is a - b and a != b holds on this path"
                    # divisor is the length of the sequence a surrounding `for i in 0..len` iterates (body runs only if len >= 1)
                    ls = len_source(b, d)
                    if ls is not None:
                        for h, blks in b.loops():
                            if site.bb in blks:
                                for x in blks:
                                    tt = b.term(x)
                                    if tt["k"] == "call" and re.search(r"::next$", callee_name(tt) or ""):
                                        rng = induction_range(b, {"cp": {"l": tt["dest"]["l"], "p": [{"dc": "Some", "vi": 1}, {"f": 0, "n": "0"}]}})
                                        if rng is not None:
                                            hs = len_source(b, rng[1])
                                            if hs is not None and hs[1] == ls[1] and (const_int(b, rng[0]) or 0) >= 0:
                                                return "G3b: inside a loop over 0..len of the same sequence, so len >= 1"
            return None
        if kind.startswith("Overflow("):
            vals = [const_int(b, o) for o in ops]
            if all(v is not None for v in vals):
                return "G1: constant operands"
            if kind in ("Overflow(Div)", "Overflow(Rem)") and len(ops) == 2:
                cd = const_int(b, ops[1])
                if cd is not None and cd not in (0, -1):
                    return "G6: constant divisor %d (MIN / -1 impossible)" % cd
            if kind in ("Overflow(Mul)", "Overflow(Add)") and len(ops) == 2:
                ubs = [upper_bound_by_type(b, o, 0, F) for o in ops]
                if all(u is not None for u in ubs):
                    tot = ubs[0] * ubs[1] if kind == "Overflow(Mul)" else ubs[0] + ubs[1]
                    if tot < 2 ** 63:
                        return "G9: operands bounded by their source types (%d, %d)" % (ubs[0], ubs[1])
            if kind == "Overflow(Add)" and len(ops) == 2:
                # a collection length plus a small constant: lengths never exceed isize::MAX
                for o1, o2 in ((ops[0], ops[1]), (ops[1], ops[0])):
                    c2 = const_int(b, o2)
                    dc = b.def_call(o1)
                    if c2 is not None and 0 <= c2 <= 2 ** 32 and dc is not None and re.search(r"(Vec::<.*>|slice::<impl \[T\]>|str::<impl str>|String|VecDeque::<.*>)::len$", callee_name(dc) or ""):
                        return "G12: a collection length (<= isize::MAX) plus %d cannot overflow usize" % c2
                # a 64-bit unsigned counter advanced by a small step (a literal, or the byte length of one character)
                cp = op_place(t["cond"])
                wide = cp is not None and re.match(r"\((usize|u64), bool\)$", b.local_ty(cp["l"])["s"] or "")
                selfinc = False
                if wide and t.get("t") is not None:
                    # `x = x + step`: the sum is stored back into the place it was read from
                    for st in b.blocks[t["t"]]["st"]:
                        if st["k"] == "assign" and st["rv"]["k"] == "use":
                            q = op_place(st["rv"]["o"])
                            if q is not None and q["l"] == cp["l"] and any(op_place(o) == st["p"] for o in ops if op_place(o) is not None):
                                selfinc = True
                if wide and selfinc:
                    for o in ops:
                        c = const_int(b, o)
                        dc = b.def_call(o)
                        if (c is not None and 0 <= c <= 64) or (dc is not None and re.search(r"::len_utf8$", callee_name(dc) or "")):
                            return "G11: 64-bit unsigned counter incremented in place by a small step: wrapping needs more than 2^57 executions of this statement"
                # loop variable + small constant stays below an existing length
                c = const_int(b, ops[1])
                if c is not None and c >= 0 and induction_range(b, ops[0]) is not None:
                    rng = induction_range(b, ops[0])
                    if len_source(b, rng[1]) is not None or sub_of_len(b, rng[1]) is not None:
                        return "G3: loop variable bounded by a sequence length plus %d" % c
            return None
        return None
    if k == "unwrap":
        arg = t["args"][0] if t["args"] else None
        if arg is None:
            return None
        src = b.def_call(arg)
        if src is not None:
            sn = callee_name(src) or ""
            if (LOCKS.search(sn) or re.search(r"::(read|write|lock|try_borrow)$", sn)) and "io::" not in sn and "byteorder" not in sn:
                return "G5: lock acquisition (poisoning is not input-dependent)"
            if re.search(r"TryInto<.*>>::try_into$|::try_into$", sn) and src["args"] and F is not None:
                # Vec<T>/slice -> [T; N]: succeeds iff the length is N
                dty = b.local_ty(src["dest"]["l"])["s"]
                m = re.search(r"Result<&?\[[^;\]]+; (\d+)\]", dty)
                if m:
                    N = int(m.group(1))
                    sl = static_len(F, b, site.bb, src["args"][0])
                    if sl is not None and sl == N:
                        return "G1: conversion of a sequence of static length %d to [_; %d]" % (sl, N)
        return None
    if k == "index":
        n = callee_name(t) or ""
        if re.search(r"::index(_mut)?$", n) and len(t["args"]) >= 2 and F is not None:
            base, idx = t["args"][0], t["args"][1]
            why = index_within_len(b, idx, operand_key(b, base))
            if why:
                return why
            sl_ = sub_of_len(b, idx)
            if sl_ is not None and sl_[0] == operand_key(b, base) and sl_[1] >= 1:
                return "G4b: index is len - %d of the same sequence (subtraction checked before)" % sl_[1]
            ci = known_value(b, site.bb, idx)
            if ci is not None:
                sl = static_len(F, b, site.bb, base)
                if sl is not None and ci < sl:
                    return "G1: index %d < static length %d" % (ci, sl)
                oc = origin_call(b, base)
                ls = ("len", operand_key(b, base), base)
                lb = lower_bound_len(b, site.bb, ls)
                if lb is not None and ci < lb:
                    return "G2: length known >= %d by dominating test" % lb
                return None
            rng = b.def_rvalue(idx)
            if rng is not None and rng["k"] == "agg" and rng.get("variant") in ("Range", "RangeTo", "RangeFrom") :
                ops = rng["ops"]
                vals = [known_value(b, site.bb, o) for o in ops]
                sl = static_len(F, b, site.bb, base)
                if rng["variant"] == "Range" and all(v is not None for v in vals) and sl is not None and vals[0] <= vals[1] <= sl:
                    return "G1: constant range %d..%d within static length %d" % (vals[0], vals[1], sl)
                # 0..(len - c) of the same sequence
                if rng["variant"] == "Range" and vals[0] == 0:
                    sl_ = sub_of_len(b, ops[1])
                    if sl_ is not None and sl_[0] == operand_key(b, base):
                        return "G4b: range 0..len-%d of the same sequence" % sl_[1]
                # 0..n on a vector created by vec![x; n] with the same n
                if rng["variant"] == "Range" and vals[0] == 0:
                    oc = origin_call(b, base)
                    if oc is not None and re.search(r"vec::from_elem$", callee_name(oc) or "") and len(oc["args"]) >= 2:
                        if same_value(b, oc["args"][1], ops[1]):
                            return "G3: range 0..n over vec![_; n]"
                # 0..len where len was converted from u16 and the array holds > 65535 elements (G9)
                if rng["variant"] == "Range" and sl is not None and vals[0] is not None and vals[0] == 0:
                    hi = ops[1]
                    if upper_bound_by_type(b, hi, 0, F) is not None and upper_bound_by_type(b, hi, 0, F) <= sl:
                        return "G9: upper bound limited to %d by its source type, array length %d" % (upper_bound_by_type(b, hi, 0, F), sl)
        return None
    return None


_PARAM_BOUND = {}
_CALLERS = {}


def param_bound(F, fn, pidx, depth=0):
    """upper bound of parameter `pidx` (1-based local) of a workspace function, from the narrow types its arguments are
    converted from at EVERY call site (a private helper `fill_buf(len: usize)` only ever called with a widened u16)"""
    key = (fn.id, pidx)
    if key in _PARAM_BOUND:
        return _PARAM_BOUND[key]
    _PARAM_BOUND[key] = None
    if depth > 3:
        return None
    cg = _CALLERS.get(id(F))
    if cg is None:
        cg = {}
        for g in F.fns.values():
            if not g.body:
                continue
            for bi, t in Body(g).calls():
                cid = callee_id(t)
                if cid in F.fns:
                    cg.setdefault(cid, []).append((g, bi))
        _CALLERS[id(F)] = cg
    sites = cg.get(fn.id, [])
    if fn.pub or fn.trait_item:
        return None  # callable from outside the workspace / through a trait object: call sites are not all known
    bounds = []
    for g, bi in sites:
        gb = Body(g)
        t = gb.term(bi)
        if pidx - 1 >= len(t["args"]):
            return None
        ub = upper_bound_by_type(gb, t["args"][pidx - 1], 0, F, depth + 1)
        if ub is None:
            return None
        bounds.append(ub)
    res = max(bounds) if bounds else None
    _PARAM_BOUND[key] = res
    return res


def upper_bound_by_type(b, o, depth=0, F=None, pdepth=0):
    """max value an integer operand can take because it was (checked-)converted from a narrower integer type"""
    NARROW = {"u8": 255, "u16": 65535, "i8": 127, "i16": 32767, "i32": 2 ** 31 - 1, "u32": 2 ** 32 - 1}
    while depth < 10:
        depth += 1
        l0 = op_local(o)
        if l0 is not None and b.local_ty(l0)["s"] in NARROW:
            return NARROW[b.local_ty(l0)["s"]]
        k = canon(b, o)
        if k[0] == "const":
            return k[1] if k[1] is not None and k[1] >= 0 else None
        if k[0] != "place":
            return None
        l, proj = k[1], k[2]
        if not proj and F is not None and 1 <= l <= b.argc and b.fn.id.startswith(("gds21", "lef21", "layout21")):
            pb = param_bound(F, b.fn, l, pdepth)
            if pb is not None:
                return pb
        if proj:
            # payload of `?` / unwrap on a checked conversion: (branch(try_from(x)) as Continue).0
            if proj[-1] == "f0":
                dd = b.single_def(l)
                if dd and dd[2] == "call" and (callee_name(dd[3]) or "").endswith("Try>::branch") and dd[3]["args"]:
                    src = b.def_call(dd[3]["args"][0])
                    if src is not None and re.search(r"::try_from$|::try_into$", callee_name(src) or "") and src["args"]:
                        o = src["args"][0]
                        continue
            # a field of a parameter / struct: bounded by its declared type when that is narrow
            return None
        tys = b.local_ty(l)["s"]
        bound = {"u8": 255, "u16": 65535, "i8": 127, "i16": 32767, "i32": 2 ** 31 - 1, "u32": 2 ** 32 - 1}.get(tys)
        if bound is not None:
            return bound
        d = b.single_def(l)
        if d is None:
            return None
        if d[2] == "call":
            n = callee_name(d[3]) or ""
            if re.search(r"::into$|::from$|::try_from$|::try_into$|::unwrap$|::expect$", n) and d[3]["args"]:
                o = d[3]["args"][0]
                continue
            return None
        if d[2] == "assign" and d[3]["rv"]["k"] == "cast":
            o = d[3]["rv"]["o"]
            continue
        if d[2] == "assign" and d[3]["rv"]["k"] == "use":
            o = d[3]["rv"]["o"]
            # a field read such as `(*aref).rows`: use the field's own type
            pl = op_place(o)
            if pl is not None and pl["p"]:
                return None
            continue
        return None
    return None


def mutated_between(b, seqkey, guard_bb, use_bb):
    """is there a length-changing call on the sequence between the guard and the use?"""
    for bi, t in b.calls():
        n = callee_name(t) or ""
        if re.search(r"::(push|pop|clear|truncate|remove|swap_remove|drain|retain|insert|append|split_off|resize|dedup\w*)$", n) and t["args"]:
            if operand_key(b, t["args"][0]) == seqkey:
                if bi != use_bb and b.dominates(guard_bb, bi) and use_bb in od.reach(b, bi):
                    return True
    return False


def lower_bound_len(b, bb, ls):
    """lower bound on the length of the sequence described by ls from dominating tests on (another read of) its len"""
    best = None
    for s_, on, taken in dominating_guards(b, bb):
        call = b.def_call(on)
        if call is not None and re.search(r"::is_empty$", callee_name(call) or "") and call["args"]:
            if operand_key(b, call["args"][0]) == ls[1] and taken == ("=", 0) and not mutated_between(b, ls[1], s_, bb):
                best = 1
        # `if let Some(..) = seq.last()` / first() / split_last() / get(k): on the Some arm the sequence is non-empty
        rv = b.def_rvalue(on)
        if rv is not None and rv["k"] == "discr" and not rv["p"]["p"]:
            src = b.single_def(rv["p"]["l"])
            if src and src[2] == "call" and src[3]["args"]:
                m = re.search(r"::(first|last|split_first|split_last|first_mut|last_mut|get)$", callee_name(src[3]) or "")
                some_taken = taken == ("=", 1) or (taken[0] == "!=" and 0 in taken[1])
                if m and some_taken and operand_key(b, src[3]["args"][0]) == ls[1] and not mutated_between(b, ls[1], s_, bb):
                    k = 1
                    if m.group(1) == "get" and len(src[3]["args"]) > 1 and const_int(b, src[3]["args"][1]) is not None:
                        k = const_int(b, src[3]["args"][1]) + 1
                    best = max(best or 0, k)
    for op, l, r in facts_at(b, bb):
        for (x, y, flip) in ((l, r, False), (r, l, True)):
            lx = len_source(b, x)
            cy = const_int(b, y)
            if lx is not None and cy is not None and lx[1] == ls[1]:
                o = op
                if flip:
                    o = {"Lt": "Gt", "Le": "Ge", "Gt": "Lt", "Ge": "Le", "Eq": "Eq", "Ne": "Ne"}[op]
                v = None
                if o == "Ge":
                    v = cy
                elif o == "Gt":
                    v = cy + 1
                elif o == "Eq":
                    v = cy
                elif o == "Ne" and cy == 0:
                    v = 1
                if v is not None:
                    best = max(best, v) if best is not None else v
    return best


# ------------------------------------------------------------------------------------------------------
# loop progress
# ------------------------------------------------------------------------------------------------------
def loops_of(F, fns):
    out = []
    for f in fns:
        b = Body(f)
        for h, blks in b.loops():
            out.append((f, b, h, blks))
    return out


def cycle_without(b, header, blocks, removed):
    """is there a cycle through `header` inside `blocks` that avoids all `removed` blocks?"""
    removed = set(removed)
    if header in removed:
        return False
    seen = set()
    st = [s for s in b.succs[header] if s in blocks and s not in removed]
    while st:
        x = st.pop()
        if x == header:
            return True
        if x in seen:
            continue
        seen.add(x)
        for s in b.succs[x]:
            if s in blocks and s not in removed and s not in seen:
                st.append(s)
            elif s == header:
                return True
    return False
