"""Core MIR utilities over the JSON facts: CFG, dominators, loops, call graph, operand/constant resolution."""
from collections import defaultdict, deque


# ------------------------------------------------------------------------------------------------------
# operands / places
# ------------------------------------------------------------------------------------------------------
def op_place(o):
    if o is None:
        return None
    return o.get("cp") or o.get("mv")


def op_const(o):
    return o.get("c") if o else None


def place_is_local(p):
    return p is not None and not p["p"]


def op_local(o):
    """local index if operand is a bare local (copy/move _n), else None"""
    p = op_place(o)
    if p is not None and not p["p"]:
        return p["l"]
    return None


def callee_of(term):
    """(declared id, resolved id or None, const dict) for a call terminator with a constant callee"""
    c = op_const(term["f"])
    if not c or "fn" not in c:
        return None, None, None
    return c["fn"], c.get("res"), c


def callee_id(term):
    d, r, _ = callee_of(term)
    return r or d


def callee_name(term):
    _, _, c = callee_of(term)
    if not c:
        return None
    return c.get("rname") or c.get("fname")


def callee_decl_name(term):
    _, _, c = callee_of(term)
    return c.get("fname") if c else None


class Body:
    """Wrapper around one MIR body with lazily computed CFG info."""

    def __init__(self, fn, body=None):
        self.fn = fn
        self.b = body if body is not None else fn.body
        self.blocks = self.b["blocks"]
        self.locals = self.b["locals"]
        self.argc = self.b["argc"]
        self._succ = None
        self._pred = None
        self._dom = None
        self._pdom = None
        self._defs = None
        self._reach = None

    # -------- CFG (normal edges only; unwind/cleanup ignored; assert failure edges ignored)
    def succ(self, i, with_unwind=False):
        t = self.blocks[i]["term"]
        k = t["k"]
        out = []
        if k in ("goto", "drop", "assert"):
            out = [t["t"]]
        elif k == "call":
            if t["t"] is not None:
                out = [t["t"]]
        elif k == "switch":
            out = [a[1] for a in t["arms"]] + [t["else"]]
        if with_unwind and t.get("uw") is not None:
            out = out + [t["uw"]]
        # dedupe, keep order
        seen = set()
        res = []
        for x in out:
            if x not in seen:
                seen.add(x)
                res.append(x)
        return res

    @property
    def succs(self):
        if self._succ is None:
            self._succ = [self.succ(i) for i in range(len(self.blocks))]
        return self._succ

    @property
    def preds(self):
        if self._pred is None:
            p = [[] for _ in self.blocks]
            for i, ss in enumerate(self.succs):
                for s in ss:
                    p[s].append(i)
            self._pred = p
        return self._pred

    @property
    def reachable(self):
        if self._reach is None:
            seen = {0}
            dq = deque([0])
            while dq:
                x = dq.popleft()
                for s in self.succs[x]:
                    if s not in seen:
                        seen.add(s)
                        dq.append(s)
            self._reach = seen
        return self._reach

    def term(self, i):
        return self.blocks[i]["term"]

    def is_unreachable_blk(self, i):
        return self.term(i)["k"] == "unreachable"

    # -------- dominators (iterative)
    def _compute_dom(self, entry_nodes, succs, preds, n):
        # generic iterative dominator sets as bitsets over n nodes
        full = (1 << n) - 1
        dom = [full] * n
        for e in entry_nodes:
            dom[e] = 1 << e
        changed = True
        order = list(range(n))
        while changed:
            changed = False
            for x in order:
                if x in entry_nodes:
                    continue
                ps = preds[x]
                if not ps:
                    continue
                v = full
                for p in ps:
                    v &= dom[p]
                v |= 1 << x
                if v != dom[x]:
                    dom[x] = v
                    changed = True
        return dom

    @property
    def dom(self):
        """dom[i] = bitset of blocks dominating i (over normal edges from bb0)"""
        if self._dom is None:
            n = len(self.blocks)
            self._dom = self._compute_dom({0}, self.succs, self.preds, n)
        return self._dom

    def dominates(self, a, b):
        return b in self.reachable and bool(self.dom[b] >> a & 1)

    @property
    def pdom(self):
        """post-dominators w.r.t. a virtual exit joined from every `return` block"""
        if self._pdom is None:
            n = len(self.blocks)
            exitn = n
            succs = [list(s) for s in self.succs] + [[]]
            for i, b in enumerate(self.blocks):
                if b["term"]["k"] == "return":
                    succs[i].append(exitn)
            preds = [[] for _ in range(n + 1)]
            for i, ss in enumerate(succs):
                for s in ss:
                    preds[s].append(i)
            # post-dom = dom on reversed graph
            self._pdom = self._compute_dom({exitn}, preds, succs, n + 1)
        return self._pdom

    def postdominates(self, a, b):
        """a post-dominates b: every path from b to a normal return passes through a"""
        return bool(self.pdom[b] >> a & 1)

    # -------- definitions
    @property
    def defs(self):
        """local -> list of (bb, idx or 'term', kind, payload); kind in assign/call/setdiscr"""
        if self._defs is None:
            d = defaultdict(list)
            for bi, blk in enumerate(self.blocks):
                for si, st in enumerate(blk["st"]):
                    if st["k"] == "assign":
                        d[st["p"]["l"]].append((bi, si, "assign", st))
                    else:
                        d[st["p"]["l"]].append((bi, si, "setdiscr", st))
                t = blk["term"]
                if t["k"] == "call":
                    d[t["dest"]["l"]].append((bi, "term", "call", t))
            self._defs = d
        return self._defs

    def single_def(self, local):
        """the unique whole-local definition of `local`, or None"""
        ds = [d for d in self.defs.get(local, []) if (d[2] == "call" and not d[3]["dest"]["p"]) or (d[2] == "assign" and not d[3]["p"]["p"])]
        allds = self.defs.get(local, [])
        if len(ds) == 1 and len(allds) == 1:
            return ds[0]
        return None

    def resolve_copy(self, o, depth=0):
        """follow `_a = copy/move _b` chains of single-definition temporaries; returns the final operand"""
        while depth < 20:
            l = op_local(o)
            if l is None or l <= self.argc and l != 0 and False:
                return o
            if l is None:
                return o
            d = self.single_def(l)
            if not d or d[2] != "assign":
                return o
            rv = d[3]["rv"]
            if rv["k"] == "use":
                o = rv["o"]
                depth += 1
                continue
            return o
        return o

    def const_of(self, o):
        """constant dict reachable through copies, or None"""
        o = self.resolve_copy(o)
        return op_const(o)

    def def_rvalue(self, o):
        """rvalue defining the temp behind operand o (through copies), or None"""
        o = self.resolve_copy(o)
        l = op_local(o)
        if l is None:
            return None
        d = self.single_def(l)
        if d and d[2] == "assign":
            return d[3]["rv"]
        return None

    def def_call(self, o):
        """call terminator defining the temp behind operand o (through copies), or None"""
        o = self.resolve_copy(o)
        l = op_local(o)
        if l is None:
            return None
        d = self.single_def(l)
        if d and d[2] == "call":
            return d[3]
        return None

    def calls(self):
        """yield (bb index, terminator) for all call terminators in reachable, non-cleanup blocks"""
        for bi, blk in enumerate(self.blocks):
            if blk["cleanup"] or bi not in self.reachable:
                continue
            t = blk["term"]
            if t["k"] == "call":
                yield bi, t

    def local_name(self, l):
        return self.locals[l].get("n")

    def local_ty(self, l):
        return self.locals[l]["ty"]

    # -------- loops (natural loops via back edges)
    def loops(self):
        """list of (header, set(body blocks)) for natural loops over normal edges"""
        res = {}
        for b in self.reachable:
            for s in self.succs[b]:
                if self.dominates(s, b):
                    # back edge b -> s
                    body = res.setdefault(s, {s})
                    stack = [b]
                    while stack:
                        x = stack.pop()
                        if x not in body:
                            body.add(x)
                            stack.extend(self.preds[x])
        return list(res.items())

    def line(self, bi):
        return self.blocks[bi]["sp"][1]

    def site(self, bi):
        sp = self.blocks[bi]["sp"]
        return "%s:%d" % (sp[0], sp[1])


# ------------------------------------------------------------------------------------------------------
# call graph
# ------------------------------------------------------------------------------------------------------
class CallGraph:
    def __init__(self, facts):
        self.facts = facts
        self.edges = defaultdict(set)  # fn id -> set(callee ids) (workspace fns with MIR only)
        self.ext = defaultdict(set)  # fn id -> set(external callee names)
        self.sites = defaultdict(list)  # fn id -> [(bb, callee id, callee name)]
        self.closures_of = defaultdict(set)
        for f in facts.fns.values():
            b = Body(f)
            for bi, t in b.calls():
                d, r, c = callee_of(t)
                if c is None:
                    self.sites[f.id].append((bi, None, None))
                    continue
                tgt = r or d
                # an unresolved trait method call: consider all impls in the workspace of that trait item
                tgts = []
                if tgt in facts.fns:
                    tgts = [tgt]
                    if r is None and facts.fns[tgt].trait and facts.fns[tgt].impl is None:
                        # default body of trait method; dynamic dispatch could also go to impls
                        tgts += [g.id for g in facts.fns.values() if g.trait_item == d]
                elif r is None:
                    tgts = [g.id for g in facts.fns.values() if g.trait_item == d]
                for x in tgts:
                    self.edges[f.id].add(x)
                if not tgts:
                    self.ext[f.id].add(c.get("rname") or c.get("fname"))
                self.sites[f.id].append((bi, tgt, c.get("rname") or c.get("fname")))
            # closures created in this body are considered called by it
            for blk in b.blocks:
                for st in blk["st"]:
                    if st["k"] == "assign" and st["rv"]["k"] == "agg" and st["rv"].get("ak") == "closure":
                        cid = st["rv"]["id"]
                        if cid in facts.fns:
                            self.edges[f.id].add(cid)
                            self.closures_of[f.id].add(cid)
            # function items passed as values (e.g. `.map(Self::foo)`)
            for blk in b.blocks:
                ops = []
                for st in blk["st"]:
                    if st["k"] == "assign":
                        rv = st["rv"]
                        for key in ("o", "l", "r"):
                            if key in rv:
                                ops.append(rv[key])
                        ops.extend(rv.get("ops", []))
                t = blk["term"]
                if t["k"] == "call":
                    ops.extend(t["args"])
                for o in ops:
                    c = op_const(o)
                    if c and "fn" in c:
                        tgt = c.get("res") or c["fn"]
                        if tgt in facts.fns:
                            self.edges[f.id].add(tgt)

    def reachable_from(self, roots):
        seen = set()
        dq = deque(r for r in roots if r in self.facts.fns)
        seen.update(dq)
        while dq:
            x = dq.popleft()
            for y in self.edges.get(x, ()):
                if y not in seen:
                    seen.add(y)
                    dq.append(y)
        return seen

    def sccs(self, nodes):
        """Tarjan SCCs restricted to `nodes`; returns list of lists (only non-trivial or self-looping)"""
        index = {}
        low = {}
        onstack = set()
        stack = []
        res = []
        counter = [0]
        nodes = set(nodes)
        import sys
        sys.setrecursionlimit(10000)

        def strong(v):
            index[v] = low[v] = counter[0]
            counter[0] += 1
            stack.append(v)
            onstack.add(v)
            for w in self.edges.get(v, ()):
                if w not in nodes:
                    continue
                if w not in index:
                    strong(w)
                    low[v] = min(low[v], low[w])
                elif w in onstack:
                    low[v] = min(low[v], index[w])
            if low[v] == index[v]:
                comp = []
                while True:
                    w = stack.pop()
                    onstack.discard(w)
                    comp.append(w)
                    if w == v:
                        break
                if len(comp) > 1 or v in self.edges.get(v, ()):
                    res.append(comp)

        for v in sorted(nodes):
            if v not in index:
                strong(v)
        return res

    def path(self, roots, target):
        """one shortest call path from any root to target (list of fn ids) or None"""
        prev = {}
        dq = deque()
        for r in roots:
            if r in self.facts.fns:
                prev[r] = None
                dq.append(r)
        while dq:
            x = dq.popleft()
            if x == target:
                out = []
                while x is not None:
                    out.append(x)
                    x = prev[x]
                return out[::-1]
            for y in self.edges.get(x, ()):
                if y not in prev:
                    prev[y] = x
                    dq.append(y)
        return None
