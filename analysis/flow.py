"""E1 — demand-driven, field-sensitive, interprocedural may-dependence over MIR facts.

deps(fn, local, path) = set of *sources* the value at `local.path` may derive from:
    ('param', i, path)   value of parameter local i (1-based) at `path` on entry
    ('const', repr)      a constant
    ('via', name)        the value passed through the call / operation `name` (used as tags: to_radians, mantissa …)
    ('unknown',)         analysis budget exhausted — callers must treat this as "may depend on anything"
Flow-insensitive inside a function, field-sensitive (paths are tuples of field names, 'as:Variant', '[k]', '[*]'),
interprocedural through callee summaries computed on demand (return value and `&mut` argument effects), closures
applied where they are passed to the usual higher-order adapters.  Unknown external calls default to
"result depends on every argument" (over-approximation: required-flow rules cannot raise false alarms).
"""
import re
import sys
from collections import defaultdict
from .mir import Body, op_place, op_const, op_local, callee_of, callee_name

sys.setrecursionlimit(200000)

UNKNOWN = ("unknown",)

# external calls that return (a view of / a conversion of) their first argument: path is preserved
IDENTITY = re.compile(
    r"(::clone$|::to_owned$|::into$|::from$|::try_into$|::try_from$|::to_string$|::to_vec$|::as_ref$|::as_mut$|::as_str$|::as_slice$|::as_mut_slice$"
    r"|::borrow$|::borrow_mut$|::deref$|::deref_mut$|::unwrap$|::expect$|::unwrap_or_default$|::unwrap_or$|::ok_or$|::ok_or_else$|::ok$|::copied$|::cloned$"
    r"|Try>::branch$|::from_residual$|::into_iter$|::iter$|::iter_mut$|::next$|::into_inner$|::read$|::write$|::lock$|::as_deref$|::as_deref_mut$"
    r"|::to_ascii_uppercase$|::to_uppercase$|::to_lowercase$|::to_ascii_lowercase$|::trim$|::take$|::first$|::last$|::get$|::get_mut$|::rev$|::enumerate$|::peekable$|::by_ref$"
    r"|::entry$|::or_insert$|::or_insert_with$|::or_insert_with_key$|::or_default$|::into_mut$|::collect$|::from_iter$|box_assume_init_into_vec_unsafe$|::assume_init$|::as_bytes$|::into_boxed_slice$|::into_vec$|Box::<.*>::new$|Arc::<.*>::new$|RwLock::<.*>::new$|::unwrap_unchecked$|::into_bytes$|::chars$|::drain$|mem::take$|mem::replace$)"
)
# wrappers whose constructor/variant structure is transparent for paths
TRANSPARENT_VARIANTS = {"Some", "Ok", "Continue"}
HIGHER_ORDER = re.compile(r"::(map|filter_map|and_then|for_each|flat_map|map_or|map_or_else|unwrap_or_else|or_else|filter|find_map|fold|try_fold|try_for_each|then|map_while|inspect|sort_by_key|sort_by|retain|any|all|find|position)$")
COMPARE = re.compile(r"cmp::(PartialEq|PartialOrd|Ord|Eq)(<.*>)?>::(eq|ne|lt|le|gt|ge|cmp|partial_cmp|max|min)$"
                     r"|::(contains|contains_key|is_empty|is_some|is_none|is_ok|is_err|starts_with|ends_with|is_zero|is_sign_negative|is_sign_positive|is_nan|eq_ignore_ascii_case|is_char_boundary|is_ascii\w*|is_alphabetic|is_numeric|is_whitespace|is_alphanumeric)$")
# external constructors whose positional arguments become named fields (dependency code without MIR)
CONSTRUCTORS = [
    (re.compile(r"(vlsir::raw|layout21protos|vlsir::utils)::Point::new$"), ["x", "y"]),
]
ENTRY_VIEWS = ("Entry", "OccupiedEntry", "VacantEntry")
INDEX = re.compile(r"ops::Index(Mut)?<.*>>::index(_mut)?$|::index$|::index_mut$|::get_unchecked(_mut)?$")


def path_of(place, consts=None):
    """MIR projection list -> path tuple (derefs and opaque casts dropped); variable indices whose index local is a
    single-assignment constant become constant indices"""
    out = []
    for e in place["p"]:
        if e == "*" or isinstance(e, str):
            continue
        if "f" in e:
            out.append(e["n"])
        elif "dc" in e:
            out.append("as:" + e["dc"])
        elif "ci" in e:
            out.append("[%s%d]" % ("-" if e["fe"] else "", e["ci"]))
        elif "ix" in e:
            if consts is not None and e["ix"] in consts:
                out.append("[%d]" % consts[e["ix"]])
            else:
                out.append("[*]")
        elif "sub" in e:
            out.append("[*]")
    return tuple(out)


def elem_match(a, b):
    if a == b:
        return True
    if a.startswith("[") and b.startswith("[") and (a == "[*]" or b == "[*]"):
        return True
    return False


def strip_transparent(path):
    """drop 'as:Some' / 'as:Ok' + following positional field 0 — these wrappers are erased"""
    out = []
    i = 0
    while i < len(path):
        e = path[i]
        if e.startswith("as:") and e[3:] in TRANSPARENT_VARIANTS:
            if i + 1 < len(path) and path[i + 1] == "0":
                i += 2
            else:
                i += 1
            continue
        if e == "[*]" and out and out[-1] == "[*]":
            # nested variable-index paths collapse (buffers of buffers are not distinguished)
            i += 1
            continue
        out.append(e)
        i += 1
    return tuple(out)


def overlap(defpath, qpath):
    """if a definition at defpath can influence a read at qpath: return the remaining path to read from the defined
    value (when qpath extends defpath) or () when defpath extends qpath (reading an aggregate partially defined);
    else None"""
    n = min(len(defpath), len(qpath))
    for i in range(n):
        if not elem_match(defpath[i], qpath[i]):
            # variant mismatch: definitely different
            return None
    if len(qpath) >= len(defpath):
        return qpath[len(defpath):]
    return ()


class FnInfo:
    """per-function def index"""

    def __init__(self, fn, body=None):
        self.fn = fn
        self.b = Body(fn, body)
        self.defs = defaultdict(list)  # local -> [(path, kind, payload)]
        self.ref_of = {}  # temp local -> (place) when single def is a ref/rawptr of a place
        b = self.b
        self.consts = {}
        cnt = defaultdict(int)
        cval = {}
        for blk in b.blocks:
            for st in blk["st"]:
                if st["k"] == "assign":
                    l = st["p"]["l"]
                    cnt[l] += 1
                    if not st["p"]["p"] and st["rv"]["k"] == "use":
                        c = op_const(st["rv"]["o"])
                        if c is not None and "int" in c:
                            cval[l] = c["int"]
            if blk["term"]["k"] == "call":
                cnt[blk["term"]["dest"]["l"]] += 1
        for l, v in cval.items():
            if cnt[l] == 1 and l > b.argc:
                self.consts[l] = v
        for bi, blk in enumerate(b.blocks):
            if blk["cleanup"]:
                continue
            for st in blk["st"]:
                if st["k"] == "assign":
                    p = st["p"]
                    self.defs[p["l"]].append((path_of(p, self.consts), "rv", st["rv"], self._through_deref(p), bi))
                elif st["k"] == "setdiscr":
                    pass
            t = blk["term"]
            if t["k"] == "call":
                p = t["dest"]
                self.defs[p["l"]].append((path_of(p, self.consts), "call", t, self._through_deref(p), bi))
        # reference temps
        for l, ds0 in self.defs.items():
            ds = [d for d in ds0 if not d[3]]  # stores through the pointer are not definitions of the pointer itself
            if len(ds) == 1 and ds[0][1] == "rv" and not ds[0][0]:
                rv = ds[0][2]
                if rv["k"] in ("ref", "rawptr"):
                    self.ref_of[l] = rv["p"]
                elif rv["k"] == "use":
                    q = op_place(rv["o"])
                    if q is not None:
                        self.ref_of[l] = q if self._is_refty(l) else None
                elif rv["k"] == "cast" and self._is_refty(l):
                    q = op_place(rv["o"])
                    if q is not None:
                        # pointer casts (Box internals `.0.pointer`, MaybeUninit views): alias of the owning local
                        self.ref_of[l] = {"l": q["l"], "p": []} if any(isinstance(e, dict) and e.get("n") == "pointer" for e in q["p"]) else q
        self.ref_of = {k: v for k, v in self.ref_of.items() if v is not None}
        self._alias_defs_done = False

    def _is_refty(self, l):
        ty = self.b.locals[l]["ty"]
        if ty.get("k") in ("ref", "ptr"):
            return True
        # Option<&mut T> / Result<&T, E> temporaries (get_mut(..), as_mut(), first(), ...) are views too
        if ty.get("k") == "adt" and ty["id"].split("::")[-1] in ("Option", "Result") and ty.get("args"):
            return ty["args"][0].get("k") in ("ref", "ptr")
        # map entries (`map.entry(k)`) are mutable views into the map they were taken from
        if ty.get("k") == "adt" and ty["id"].split("::")[-1] in ENTRY_VIEWS:
            return True
        return False

    @staticmethod
    def _through_deref(p):
        return bool(p["p"]) and p["p"][0] == "*"


class Flow:
    def __init__(self, facts, max_depth=600, max_steps=400000):
        self.F = facts
        self.infos = {}
        self.memo = {}
        self.stack = {}  # key -> depth
        self.max_depth = max_depth
        self.max_steps = max_steps
        self.depth = 0
        self.cur = {}
        self.prev = {}
        self.inprog = set()
        self.steps = 0
        self.closure_env = {}  # closure fid -> (creator fid, agg operands)
        self.budget = 0
        self._alias = {}

    def info(self, fid):
        i = self.infos.get(fid)
        if i is None:
            i = self.infos[fid] = FnInfo(self.F.fns[fid])
            self._add_alias_defs(fid, i)
        return i

    # ---------------------------------------------------------------------------------------------
    # alias resolution: which (local, path) does a reference temp point into
    # ---------------------------------------------------------------------------------------------
    def pointee(self, fid, l, depth=0):
        """(root local, path) that reference-typed temp `l` points to, following reborrows and identity-like calls;
        None if l is not a resolvable reference temp"""
        info = self.info_noalias(fid)
        key = (fid, l)
        if key in self._alias:
            return self._alias[key]
        self._alias[key] = None
        res = None
        if depth < 25:
            pl = info.ref_of.get(l)
            if pl is not None:
                base = self.pointee(fid, pl["l"], depth + 1) if (pl["p"] and pl["p"][0] == "*") or (not pl["p"] and info._is_refty(pl["l"])) else None
                if base is not None:
                    res = (base[0], base[1] + path_of(pl, info.consts))
                else:
                    res = (pl["l"], path_of(pl, info.consts))
            else:
                ds = [d for d in info.defs.get(l, []) if not d[3]]
                if len(ds) == 1 and ds[0][1] == "call" and not ds[0][0] and info._is_refty(l):
                    t = ds[0][2]
                    n = callee_name(t) or ""
                    if t["args"] and (IDENTITY.search(n) or INDEX.search(n)):
                        a = op_place(t["args"][0])
                        if a is not None:
                            extra = ()
                            if INDEX.search(n) and len(t["args"]) > 1:
                                c = op_const(t["args"][1])
                                extra = ("[%d]" % c["int"],) if c and "int" in c else ("[*]",)
                            base = self.pointee(fid, a["l"], depth + 1)
                            if base is not None:
                                res = (base[0], base[1] + path_of(a, info.consts) + extra)
                            elif not info._is_refty(a["l"]):
                                res = (a["l"], path_of(a, info.consts) + extra)
        self._alias[key] = res
        return res

    def info_noalias(self, fid):
        i = self.infos.get(fid)
        if i is None:
            i = self.infos[fid] = FnInfo(self.F.fns[fid])
            self._add_alias_defs(fid, i)
        return i

    def _add_alias_defs(self, fid, info):
        """(a) stores through reference temps: `(*_t).f = x` becomes a def of the pointee;
        (b) calls taking `&mut` arguments become effect-defs of the pointee"""
        if info._alias_defs_done:
            return
        info._alias_defs_done = True
        extra = []
        for l, ds in list(info.defs.items()):
            for (path, kind, payload, thr, dbb) in ds:
                if thr and info._is_refty(l) and not (1 <= l <= info.b.argc):
                    pt = self.pointee(fid, l)
                    if pt is not None:
                        if "MaybeUninit<" in info.b.locals[l]["ty"]["s"]:
                            # MaybeUninit<T> { value: ManuallyDrop<T> { value: (T) } } is transparent
                            path = tuple(x for i, x in enumerate(path) if not (x in ("value", "0") and all(y in ("value", "0") for y in path[:i + 1])))
                        extra.append((pt[0], (pt[1] + path, kind, payload, False, dbb)))
        b = info.b
        for bi, blk in enumerate(b.blocks):
            if blk["cleanup"]:
                continue
            t = blk["term"]
            if t["k"] != "call":
                continue
            for j, a in enumerate(t["args"]):
                pl = op_place(a)
                if pl is None or pl["p"]:
                    continue
                lt = b.locals[pl["l"]]["ty"]
                if lt.get("k") == "closure":
                    # a closure handed to a call (`iter.try_for_each(|x| out.push(f(x)))`): what it captured by `&mut`
                    # is mutated by that call; content depends on the call's other arguments (the iterated source)
                    cd = [d for d in info.defs.get(pl["l"], []) if d[1] == "rv" and not d[0] and d[2]["k"] == "agg"]
                    for d in cd[:1]:
                        for cop in d[2].get("ops", []):
                            cpl = op_place(cop)
                            if cpl is None or cpl["p"]:
                                continue
                            ct = b.locals[cpl["l"]]["ty"]
                            if ct.get("k") in ("ref", "ptr") and ct.get("mut"):
                                cpt = self.pointee(fid, cpl["l"])
                                # state reached through a parameter (`self`) is not given this effect: it would make
                                # everything the converter does later depend on every source it has seen
                                if cpt is not None and not (1 <= cpt[0] <= b.argc):
                                    extra.append((cpt[0], (cpt[1], "eff", (t, j), False, bi)))
                    continue
                is_entry = lt.get("k") == "adt" and lt["id"].split("::")[-1] in ENTRY_VIEWS
                if (lt.get("k") not in ("ref", "ptr") or not lt.get("mut")) and not is_entry:
                    continue
                pt = self.pointee(fid, pl["l"])
                if pt is None:
                    if 1 <= pl["l"] <= b.argc:
                        pt = (pl["l"], ())
                    else:
                        continue
                extra.append((pt[0], (pt[1], "eff", (t, j), False, bi)))
        for l, d in extra:
            info.defs[l].append(d)

    # ---------------------------------------------------------------------------------------------
    # queries
    # ---------------------------------------------------------------------------------------------
    def deps_place(self, fid, place, rest=()):
        return self.deps(fid, place["l"], path_of(place, self.info(fid).consts) + tuple(rest))

    def deps_operand(self, fid, o, rest=()):
        pl = op_place(o)
        if pl is not None:
            return self.deps_place(fid, pl, rest)
        c = op_const(o)
        if c is not None:
            if "fn" in c:
                return frozenset([("const", "fn:" + (c.get("rname") or c["fname"]))])
            if "promoted" in c:
                return frozenset([("const", "promoted")])
            return frozenset([("const", c.get("s", "?"))])
        return frozenset()

    def deps(self, fid, local, path=()):
        path = strip_transparent(tuple(path))
        if len(path) > 10:
            path = path[:10]
        key = (fid, local, path)
        if key in self.memo:
            return self.memo[key]
        # least fixpoint by chaotic iteration: every round evaluates each reachable key at most once, using the
        # previous round's value wherever a key is met while still in progress (a cycle)
        prev = {}
        rounds = 0
        while True:
            rounds += 1
            self.cur = {}
            self.prev = prev
            self.inprog = set()
            self.steps = 0
            val = self._eval(key, 0)
            if self.cur == prev or rounds > 40:
                break
            prev = self.cur
        if rounds <= 40 and self.steps < self.max_steps:
            self.memo.update(self.cur)
        self.memo[key] = val
        return val

    def _eval(self, key, depth):
        if key in self.memo:
            return self.memo[key]
        if key in self.cur:
            return self.cur[key]
        if key in self.inprog:
            return self.prev.get(key, frozenset())
        if depth > self.max_depth or self.steps > self.max_steps:
            return frozenset([UNKNOWN])
        self.steps += 1
        self.inprog.add(key)
        self.depth = depth
        try:
            res, _ = self._compute(key)
        finally:
            self.inprog.discard(key)
        self.cur[key] = res
        return res

    def _deps(self, key):
        d = self.depth + 1
        r = self._eval(key, d)
        self.depth = d - 1
        return r, 10 ** 9

    def _q(self, fid, local, path, acc):
        """nested query; adds to acc"""
        path = strip_transparent(tuple(path))
        if len(path) > 10:
            path = path[:10]
        r, c = self._deps((fid, local, path))
        acc |= r
        return c

    def _q_operand(self, fid, o, rest, acc):
        pl = op_place(o)
        if pl is not None:
            return self._q(fid, pl["l"], path_of(pl, self.info(fid).consts) + tuple(rest), acc)
        c = op_const(o)
        if c is not None:
            if "fn" in c:
                acc.add(("const", "fn:" + (c.get("rname") or c["fname"])))
            else:
                acc.add(("const", c.get("s", "?")))
        return 10 ** 9

    def _compute(self, key):
        fid, local, path = key
        info = self.info(fid)
        b = info.b
        acc = set()
        cut = 10 ** 9
        ds = info.defs.get(local, [])
        is_param = 1 <= local <= b.argc
        if is_param:
            acc.add(("param", local, path))
        # a closure's captured environment (param 1 of the closure body) maps to the creator's operands
        live = []
        for (dpath, kind, payload, thr, dbb) in ds:
            if thr and is_param is False and info._is_refty(local):
                # store through a reference temp: handled as a def of the pointee (alias defs)
                continue
            rest = overlap(dpath, path)
            if rest is None:
                continue
            if rest and kind == "call" and (callee_name(payload) or "").endswith("::from_residual"):
                continue  # error exit: carries no payload data
            if rest and kind == "rv" and payload["k"] == "agg" and payload.get("ak") == "adt" and payload.get("variant") in ("Err", "None", "Break"):
                continue
            live.append(dbb)
            if kind == "rv":
                cut = min(cut, self._rvalue(fid, payload, rest, acc))
            elif kind == "call":
                cut = min(cut, self._call(fid, payload, rest, acc))
            elif kind == "eff":
                t, j = payload
                cut = min(cut, self._effect(fid, t, j, rest, acc))
        # "select" control dependence: several definitions chosen by a branch -> the branch condition is a source
        if len(set(live)) >= 2:
            for sw in self._selecting_switches(info, set(live)):
                acc.add(("via", "select"))
                tmp = set()
                cut = min(cut, self._q_operand(fid, b.term(sw)["on"], (), tmp))
                # control dependence is kept apart from data dependence: parameters get a '#sel' path marker
                for s_ in tmp:
                    if s_[0] == "param":
                        acc.add(("param", s_[1], tuple(s_[2]) + (("#sel",) if "#sel" not in s_[2] else ())))
                    elif s_[0] == "via":
                        acc.add(("via", s_[1] if s_[1].startswith("sel:") or s_[1] == "select" else "sel:" + s_[1]))
                    elif s_[0] == "const":
                        pass
                    else:
                        acc.add(s_)
        return frozenset(acc), cut

    def _selecting_switches(self, info, def_bbs):
        """switch blocks under whose different successor targets the definition blocks fall"""
        b = info.b
        out = []
        for sw in b.reachable:
            t = b.term(sw)
            if t["k"] != "switch":
                continue
            tgts = [a[1] for a in t["arms"]] + [t["else"]]
            groups = set()
            for d in def_bbs:
                if d not in b.reachable:
                    continue
                for ti, tg in enumerate(tgts):
                    if b.dominates(tg, d) and len(b.preds[tg]) == 1:
                        groups.add(ti)
                        break
            if len(groups) >= 2:
                out.append(sw)
        return out

    # ---- rvalues
    def _rvalue(self, fid, rv, rest, acc):
        k = rv["k"]
        cut = 10 ** 9
        if k == "use":
            return self._q_operand(fid, rv["o"], rest, acc)
        if k in ("ref", "rawptr"):
            p = rv["p"]
            return self._q(fid, p["l"], path_of(p, self.info(fid).consts) + tuple(rest), acc)
        if k == "agg":
            ak = rv.get("ak")
            ops = rv["ops"]
            if ak == "adt":
                fields = rv["fields"]
                variant = rv["variant"]
                r = list(rest)
                if r and r[0] == "#d":
                    acc.add(("const", "%s::%s" % (rv["id"].split("::")[-1], variant)))
                    return cut
                if r and r[0] == "#cmp":
                    for o in ops:
                        cut = min(cut, self._q_operand(fid, o, ("#cmp",), acc))
                    return cut
                if variant in TRANSPARENT_VARIANTS and len(ops) == 1:
                    # wrapper erased: path continues into the payload
                    return self._q_operand(fid, ops[0], tuple(r), acc)
                if r and r[0].startswith("as:"):
                    if r[0][3:] != variant:
                        return cut
                    r = r[1:]
                if r:
                    if r[0] in fields:
                        i = fields.index(r[0])
                        if i < len(ops):
                            return self._q_operand(fid, ops[i], tuple(r[1:]), acc)
                        return cut
                    if rv.get("active") is not None:
                        return self._q_operand(fid, ops[0], tuple(r[1:]), acc)
                    return cut
                if not ops:
                    acc.add(("const", "%s::%s" % (rv["id"].split("::")[-1], variant)))
                for o in ops:
                    cut = min(cut, self._q_operand(fid, o, (), acc))
                return cut
            if ak in ("tuple", "array", "closure"):
                r = list(rest)
                if r and r[0] in ("#cmp", "#d"):
                    for o in ops:
                        cut = min(cut, self._q_operand(fid, o, (r[0],), acc))
                    return cut
                if r:
                    e = r[0]
                    idx = None
                    if ak in ("tuple", "closure") and e.isdigit():
                        idx = int(e)
                    elif ak == "array" and e.startswith("[") and e != "[*]" and not e.startswith("[-"):
                        idx = int(e[1:-1])
                    if idx is not None:
                        if idx < len(ops):
                            return self._q_operand(fid, ops[idx], tuple(r[1:]), acc)
                        return cut
                    if e == "[*]":
                        for o in ops:
                            cut = min(cut, self._q_operand(fid, o, tuple(r[1:]), acc))
                        return cut
                for o in ops:
                    cut = min(cut, self._q_operand(fid, o, (), acc))
                return cut
            for o in ops:
                cut = min(cut, self._q_operand(fid, o, (), acc))
            return cut
        if k == "bin":
            acc.add(("via", "op:" + rv["op"]))
            mk = ("#cmp",) if (rv["op"] in ("Eq", "Ne", "Lt", "Le", "Gt", "Ge", "Cmp") or "#cmp" in rest) else ()
            cut = min(cut, self._q_operand(fid, rv["l"], mk, acc))
            cut = min(cut, self._q_operand(fid, rv["r"], mk, acc))
            return cut
        if k == "un":
            if rv["op"] not in ("PtrMetadata",):
                acc.add(("via", "op:" + rv["op"]))
            else:
                acc.add(("via", "len"))
            return self._q_operand(fid, rv["o"], ("#cmp",) if "#cmp" in rest else (), acc)
        if k == "cast":
            ck = rv["ck"]
            if ck.startswith("IntToInt") or ck.startswith("FloatToInt") or ck.startswith("IntToFloat") or ck.startswith("FloatToFloat"):
                acc.add(("via", "cast:%s->%s" % (rv["from"]["s"], rv["to"]["s"])))
                return self._q_operand(fid, rv["o"], ("#cmp",) if "#cmp" in rest else (), acc)
            return self._q_operand(fid, rv["o"], rest, acc)
        if k == "discr":
            acc.add(("via", "discr"))
            p = rv["p"]
            return self._q(fid, p["l"], path_of(p, self.info(fid).consts) + ("#d",), acc)
        if k == "repeat":
            r = list(rest)
            if r and r[0].startswith("["):
                r = r[1:]
            return self._q_operand(fid, rv["o"], tuple(r), acc)
        return cut

    # ---- calls
    def _closure_of(self, fid, o):
        """closure fid if operand o is (a copy of) a closure aggregate created in this body, with its captured operands"""
        info = self.info(fid)
        b = info.b
        o2 = b.resolve_copy(o)
        l = op_local(o2)
        if l is None:
            c = op_const(o2)
            if c and "fn" in c:
                tgt = c.get("res") or c["fn"]
                if tgt in self.F.fns:
                    return tgt, None
            return None, None
        ty = b.locals[l]["ty"]
        if ty.get("k") == "closure" and ty["id"] in self.F.fns:
            d = b.single_def(l)
            if d and d[2] == "assign" and d[3]["rv"]["k"] == "agg":
                return ty["id"], d[3]["rv"]["ops"]
            return ty["id"], None
        if ty.get("k") == "fndef" and ty["id"] in self.F.fns:
            return ty["id"], None
        return None, None

    def _call(self, fid, t, rest, acc):
        d, r, c = callee_of(t)
        cut = 10 ** 9
        args = t["args"]
        if c is None:
            # call through a fn pointer / closure local: all args
            for a in args:
                cut = min(cut, self._q_operand(fid, a, (), acc))
            return cut
        name = c.get("rname") or c.get("fname") or ""
        tgt = r or d
        marker = ("#cmp",) if "#cmp" in rest else ()
        # predicates: the result says something about the operands as wholes, it carries none of their fields
        if COMPARE.search(name) and not (tgt in self.F.fns and not self.F.fns[tgt].derived):
            acc.add(("via", short(name)))
            for a in args:
                cut = min(cut, self._q_operand(fid, a, ("#cmp",), acc))
            return cut
        # shared-pointer constructors are transparent: Ptr::new(x) holds exactly x
        if tgt in self.F.fns and self.F.fns[tgt].id.startswith("layout21utils::ptr::") and self.F.fns[tgt].short.endswith("Ptr::new") and args:
            acc.add(("via", "Ptr::new"))
            return self._q_operand(fid, args[0], rest, acc)
        # closure call: `<closure as Fn*>::call*(clo, (args,))`
        if tgt in self.F.fns:
            # the *returned value* of this call site reaches the queried location (side effects go through _effect)
            acc.add(("callres", short(self.F.fns[tgt].name), (t.get("fsp") or [None, 0])[1]))
            return self._apply_summary(fid, tgt, args, 0, rest, acc, name)
        # unresolved trait method with workspace impls: union over impls
        impls = [g.id for g in self.F.fns.values() if g.trait_item == d] if (r is None and is_workspace_id(d)) else []
        if impls:
            for g in impls:
                cut = min(cut, self._apply_summary(fid, g, args, 0, rest, acc, name))
            return cut
        # higher-order adapters: apply the closure
        if HIGHER_ORDER.search(name) and len(args) >= 2:
            clo, env = self._closure_of(fid, args[-1])
            if clo is not None:
                acc.add(("via", short(name)))
                # the closure produces the *elements* of the resulting sequence: an element index on the query is dropped
                r2 = tuple(rest[1:]) if rest and rest[0].startswith("[") else rest
                return self._apply_closure(fid, clo, env, args[:-1], r2, acc)
        if re.search(r"ops::Fn(Mut|Once)?<.*>>::call(_mut|_once)?$", name) and args:
            clo, env = self._closure_of(fid, args[0])
            if clo is not None:
                return self._apply_closure(fid, clo, env, args[1:], rest, acc, tupled=True)
        if INDEX.search(name) and len(args) >= 2:
            cc = op_const(self.info(fid).b.resolve_copy(args[1]))
            e = "[%d]" % cc["int"] if cc and "int" in cc else "[*]"
            acc_idx = set()
            cut = min(cut, self._q_operand(fid, args[1], (), acc_idx))
            acc |= {s for s in acc_idx if s[0] != "const"}
            return min(cut, self._q_operand(fid, args[0], (e,) + tuple(rest), acc))
        if re.search(r"Into<.*>>::into$|::into$", name) and args:
            ra = c.get("rargs") or c.get("gargs") or []
            if len(ra) >= 2:
                frm = self._from_impl(ra[0], ra[1], fid.split("::")[0])
                if frm is not None:
                    return self._apply_summary(fid, frm, args, 0, rest, acc, name)
        if re.search(r"(SlotMap|HashMap|BTreeMap)<.*>::(drain|iter|iter_mut|into_iter)$|(SlotMap|HashMap|BTreeMap)<.*> as std::iter::IntoIterator>::into_iter$", name) and args:
            # iteration over a keyed container yields (key, value) pairs: element path '1' is the stored value
            r2 = list(rest)
            if r2 and r2[0] == "[*]":
                r2 = r2[1:]
            if r2 and r2[0] == "1":
                acc.add(("via", short(name)))
                return self._q_operand(fid, args[0], tuple(r2[1:]), acc)
            if r2 and r2[0] == "0":
                acc.add(("via", short(name)))
                return self._q_operand(fid, args[0], ("#d",), acc)
        for rx, fields in CONSTRUCTORS:
            if rx.search(name):
                if rest and rest[0] in fields:
                    i = fields.index(rest[0])
                    if i < len(args):
                        return self._q_operand(fid, args[i], rest[1:], acc)
                    return cut
                break
        if name.endswith("::from_residual"):
            # the residual is an error value: it carries no payload data
            if rest:
                return cut
            acc.add(("via", "from_residual"))
            return cut
        if name.endswith("Try>::branch") and rest and rest[0] == "as:Break":
            return cut
        if IDENTITY.search(name) and args:
            acc.add(("via", short(name)))
            cut = min(cut, self._q_operand(fid, args[0], rest, acc))
            for a in args[1:]:
                cut = min(cut, self._q_operand(fid, a, (), acc))
            return cut
        # default: result depends on every argument (whole)
        acc.add(("via", short(name)))
        for a in args:
            cut = min(cut, self._q_operand(fid, a, marker, acc))
        return cut

    def _from_impl(self, src_ty, dst_ty, crate=None):
        """workspace `impl From<src> for dst` function id, matched on the last path segment of both types (type names in
        the facts are crate-relative: when two crates define the same pair, the caller's own crate wins)"""
        key = (src_ty, dst_ty, crate)
        cache = self.__dict__.setdefault("_from_cache", {})
        if key in cache:
            return cache[key]
        last = lambda t: re.sub(r"<.*$", "", t).split("::")[-1].strip("&' ")
        s_, d_ = last(src_ty), last(dst_ty)
        found = []
        if s_ and d_ and s_ != d_:
            for f in self.F.fns.values():
                if f.trait and f.trait.startswith("std::convert::From<") and f.self_ty and f.short.endswith("::from"):
                    m = re.match(r"std::convert::From<(.*)>$", f.trait)
                    if m and last(m.group(1)) == s_ and last(f.self_ty.get("s", "")) == d_:
                        found.append(f.id)
        if len(found) > 1 and crate:
            own = [x for x in found if x.split("::")[0] == crate]
            if len(own) == 1:
                found = own
        cache[key] = found[0] if len(found) == 1 else None
        return cache[key]

    def _subst(self, fid, srcs, args, acc, env=None, env_fid=None):
        """map callee-relative sources to caller sources"""
        cut = 10 ** 9
        for s in srcs:
            if s[0] == "param":
                i = s[1] - 1
                if i < len(args):
                    cut = min(cut, self._q_operand(fid, args[i], s[2], acc))
            else:
                acc.add(s)
        return cut

    def _apply_summary(self, fid, callee, args, dest_local, rest, acc, name):
        """value of callee's local `dest_local` (0 = return) at path rest, with params substituted by caller args"""
        acc.add(("via", short(self.F.fns[callee].name)))
        inner = set()
        cut = self._q(callee, dest_local, rest, inner)
        cut2 = self._subst(fid, inner, args, acc)
        return min(cut, cut2)

    def _apply_closure(self, fid, clo, env, val_args, rest, acc, tupled=False):
        """closure body result with its argument(s) bound to (elements of) val_args and its environment to env"""
        inner = set()
        cut = self._q(clo, 0, rest, inner)
        f = self.F.fns[clo]
        is_closure = f.kind == "Closure"
        if not is_closure:
            acc.add(("via", short(f.name)))
        for s in inner:
            if s[0] != "param":
                acc.add(s)
                continue
            i = s[1]
            if is_closure and i == 1:
                # captured environment: path starts with the upvar index
                p = s[2]
                if env is not None and p and p[0].isdigit() and int(p[0]) < len(env):
                    cut = min(cut, self._q_operand(fid, env[int(p[0])], p[1:], acc))
                elif env is not None:
                    for e in env:
                        cut = min(cut, self._q_operand(fid, e, (), acc))
                continue
            j = i - (2 if is_closure else 1)
            p = s[2]
            if tupled and val_args:
                # Fn::call(clo, (a, b)): param k of the closure body = tuple field k
                cut = min(cut, self._q_operand(fid, val_args[0], (str(j),) + tuple(p), acc))
                continue
            # adapters: the (single) closure argument ranges over the elements / payload of the receiver(s)
            for a in val_args:
                # tuple patterns such as |(k, v)| project with '0'/'1' on the element: keep the path
                cut = min(cut, self._q_operand(fid, a, tuple(p), acc))
                if p:
                    cut = min(cut, self._q_operand(fid, a, ("[*]",) + tuple(p), acc))
        return cut

    def _effect(self, fid, t, j, rest, acc):
        """effect of call t on the pointee of its j-th (&mut) argument, read at path rest"""
        d, r, c = callee_of(t)
        cut = 10 ** 9
        args = t["args"]
        name = (c.get("rname") or c.get("fname") or "") if c else ""
        tgt = (r or d) if c else None
        targets = []
        if tgt in self.F.fns:
            targets = [tgt]
        elif c and r is None and is_workspace_id(d):
            targets = [g.id for g in self.F.fns.values() if g.trait_item == d]
        if targets:
            for g in targets:
                inner = set()
                cut = min(cut, self._q(g, j + 1, rest, inner))
                # identity source ('param', j+1, rest) refers to the previous value: drop (self-dependence)
                inner = {s for s in inner if not (s[0] == "param" and s[1] == j + 1)}
                acc.add(("via", short(self.F.fns[g].name)))
                cut = min(cut, self._subst(fid, inner, args, acc))
            return cut
        if HIGHER_ORDER.search(name) and len(args) >= 2:
            clo, env = self._closure_of(fid, args[-1])
            if clo is not None and env is not None:
                # the closure may mutate captured state; conservatively: everything flows
                pass
        # external mutator (push, insert, extend, write, …): content depends on the other arguments
        acc.add(("via", short(name)))
        for i, a in enumerate(args):
            if i == j:
                continue
            # elements pushed/inserted keep their own structure under a '[*]' element path
            r2 = list(rest)
            if r2 and r2[0].startswith("["):
                r2 = r2[1:]
            cut = min(cut, self._q_operand(fid, a, tuple(r2), acc))
        return cut


WORKSPACE_CRATES = ("gds21::", "lef21::", "layout21raw::", "layout21tetris::", "layout21utils::", "layout21converters::", "layout21protos::", "layout21::")


def is_workspace_id(i):
    return bool(i) and i.startswith(WORKSPACE_CRATES)


def short(name):
    n = re.sub(r"<[^<>]*(<[^<>]*(<[^<>]*>[^<>]*)*>[^<>]*)*>", "", name)
    n = n.replace("::::", "::")
    parts = [p for p in n.split("::") if p]
    return "::".join(parts[-2:]) if len(parts) >= 2 else n


def params_of(srcs):
    return {(s[1], s[2]) for s in srcs if s[0] == "param"}


def vias_of(srcs):
    return {s[1] for s in srcs if s[0] == "via"}


def has_unknown(srcs):
    return UNKNOWN in srcs


def depends_on(srcs, param, path_prefix):
    """does the source set contain param at a path overlapping path_prefix (either is a prefix of the other)"""
    for s in srcs:
        if s[0] == "param" and s[1] == param:
            p = s[2]
            n = min(len(p), len(path_prefix))
            if all(elem_match(p[i], path_prefix[i]) for i in range(n)):
                return True
    return UNKNOWN in srcs
