"""Check harness: rule context, known findings, evidence writer, verdict lines."""
import json, os, sys, time, hashlib, re

VERIF = os.path.dirname(os.path.dirname(os.path.abspath(__file__)))
KNOWN = os.path.join(VERIF, "known_findings.json")
EVID = os.environ.get("L21_EVID") or os.path.join(VERIF, "evidence")
REPLAY = os.path.join(VERIF, ".work", "replay")


def rel(path):
    """repo-relative path for messages"""
    return re.sub(r"^/repo/", "", path or "")


class Sub:
    """proxy used when a property depends on a clause that another property's rule set already decides"""

    def __init__(self, ctx, rid, desc=None):
        self._c = ctx
        self._rid = rid
        self.F = ctx.F
        self.tier = ctx.tier
        self.prop = ctx.prop
        if desc:
            ctx.rule(rid, desc)

    def rule(self, rid, desc):
        self._c.rules.setdefault(self._rid, "")
        if desc not in self._c.rules[self._rid]:
            self._c.rules[self._rid] = (self._c.rules[self._rid] + " | " if self._c.rules[self._rid] else "") + "%s: %s" % (rid, desc)

    def ok(self, rid, instance, detail=""):
        self._c.ok(self._rid, "%s:%s" % (rid, instance), detail)

    def violation(self, rid, key, msg, site=None, instance=None):
        self._c.violation(self._rid, "%s:%s" % (rid, key), msg, site, "%s:%s" % (rid, instance or key))

    def note(self, rid, msg):
        self._c.note(self._rid, "%s %s" % (rid, msg))

    def count(self, label, n):
        self._c.count("%s/%s" % (self._rid, label), n)

    def floor(self, rid, label, n, minimum):
        self._c.floor(self._rid, "%s/%s" % (self._rid, label), n, minimum)

    def error(self, rid, msg):
        self._c.error(self._rid, "%s %s" % (rid, msg))

    def assume(self, text):
        self._c.assume(text)


class Ctx:
    def __init__(self, prop, tier, facts, cg=None):
        self.prop = prop
        self.tier = tier
        self.F = facts
        self.cg = cg
        self.obligations = []  # (rule, instance, ok, detail)
        self.violations = {}  # key -> dict
        self.notes = []
        self.rules = {}  # rule -> description
        self.analysed = {}  # label -> count / list
        self.errors = []  # broken-check conditions (fail closed)
        self.assumptions = []
        self.t0 = time.time()

    # ---- reporting API used by rules
    def rule(self, rid, desc):
        self.rules[rid] = desc

    def ok(self, rid, instance, detail=""):
        self.obligations.append((rid, instance, True, detail))

    def violation(self, rid, key, msg, site=None, instance=None):
        """key: stable semantic key (no line numbers). site: file:line for the message only."""
        k = "%s/%s/%s" % (self.prop, rid, key)
        self.obligations.append((rid, instance or key, False, msg))
        if k not in self.violations:
            self.violations[k] = {"key": k, "rule": rid, "msg": msg, "site": rel(site) if site else None}

    def note(self, rid, msg):
        self.notes.append("%s: %s" % (rid, msg))

    def count(self, label, n):
        self.analysed[label] = n

    def floor(self, rid, label, n, minimum):
        """fail closed when a rule matched fewer instances than its semantic minimum"""
        self.analysed[label] = n
        if n < minimum:
            self.errors.append("%s: %s = %d below floor %d (rule would pass vacuously; check is broken)" % (rid, label, n, minimum))

    def error(self, rid, msg):
        self.errors.append("%s: %s" % (rid, msg))

    def assume(self, text):
        if text not in self.assumptions:
            self.assumptions.append(text)

    def sub(self, rid, desc=None):
        """a view of this context that files everything a borrowed rule set reports under the single rule id `rid`
        (instances and keys are prefixed with the borrowed rule's own id)"""
        return Sub(self, rid, desc)

    # ---- finishing
    def finish(self):
        known = {}
        fixed = []
        if os.path.exists(KNOWN):
            kf = json.load(open(KNOWN))
            for e in kf.get("findings", []):
                known[e["key"]] = e
            fixed = kf.get("fixed", [])
        out = []
        n_new = 0
        n_known = 0
        os.makedirs(REPLAY, exist_ok=True)
        for k, v in sorted(self.violations.items()):
            if k in known:
                n_known += 1
                out.append("KNOWN-FINDING: property=%s %s [%s] %s" % (self.prop, known[k].get("what", v["msg"]), k, ("at " + v["site"]) if v["site"] else ""))
            else:
                n_new += 1
                rp = os.path.join(REPLAY, "%s-%s.json" % (self.prop, hashlib.sha1(k.encode()).hexdigest()[:12]))
                with open(rp, "w") as fh:
                    json.dump({"property": self.prop, "key": k, "rule": v["rule"], "msg": v["msg"], "site": v["site"]}, fh, indent=1)
                out.append("DETAIL property=%s rule=%s key=%s %s :: %s" % (self.prop, v["rule"], k, ("at " + v["site"]) if v["site"] else "", v["msg"]))
                out.append("VIOLATION property=%s replay=%s" % (self.prop, rp))
        stale = [k for k in known if k.startswith(self.prop + "/") and k not in self.violations]
        for k in stale:
            out.append("NOTE property=%s known finding no longer reported (fixed or moved?): %s" % (self.prop, k))
        for e in self.errors:
            out.append("ERROR property=%s %s" % (self.prop, e))
        n_obl = len(self.obligations)
        n_ok = sum(1 for o in self.obligations if o[2])
        wall = time.time() - self.t0
        # evidence
        samples = []
        seen_rules = set()
        for rid, inst, ok, detail in self.obligations:
            if rid not in seen_rules or (not ok and len(samples) < 60):
                seen_rules.add(rid)
                samples.append({"rule": rid, "instance": inst, "verdict": "holds" if ok else "violated", "detail": detail[:300]})
        distinct = len({(o[0], o[1]) for o in self.obligations})
        ev = {
            "property_id": self.prop,
            "tier": self.tier,
            "seed": int(os.environ.get("VERIF_SEED", "0") or 0),
            "level": "other",
            "coverage": {
                "explanation": "static analysis of /repo's current working tree (MIR + ADT + expanded-AST facts from a rustc_private driver; no Layout21 code is executed). Rules: "
                               + "; ".join("%s = %s" % (k, v) for k, v in sorted(self.rules.items())),
                "obligations": n_obl,
                "discharged": n_ok,
                "evaluations": max(n_obl, 1),
                "distinct_nontrivial": distinct,
                "rule": "one obligation per rule instance (function / call site / field / enum variant / table row); distinct = distinct (rule, instance) pairs",
                "samples": samples[:80],
                "analysed": self.analysed,
                "rules": self.rules,
                "notes": self.notes[:100],
                "known_findings_matched": n_known,
                "new_violations": n_new,
                "facts_hash": self.F.hash if self.F else None,
                "checker_cmd": "./check %s --tier %s" % (self.prop, self.tier),
                "trusted_base": ["rustc nightly MIR lowering", "std/dependency call models in analysis/*.py", "hand-transcribed oracles under rules/oracle"],
                "exhaustive": False,
            },
            "assumptions": self.assumptions,
            "wall_s": round(wall, 2),
            "violations": n_new,
        }
        os.makedirs(EVID, exist_ok=True)
        with open(os.path.join(EVID, "%s.json" % self.prop), "w") as fh:
            json.dump(ev, fh, indent=1, sort_keys=True)
        print("CHECK property=%s tier=%s facts=%s obligations=%d discharged=%d known=%d new=%d errors=%d wall=%.1fs" % (
            self.prop, self.tier, self.F.hash if self.F else "-", n_obl, n_ok, n_known, n_new, len(self.errors), wall))
        for k, v in sorted(self.analysed.items()):
            print("  analysed %s = %s" % (k, v if not isinstance(v, (list, dict)) else json.dumps(v)[:300]))
        for n in self.notes[:200]:
            print("  note " + n)
        for l in out:
            print(l)
        if self.errors:
            return 2
        return 1 if n_new else 0
