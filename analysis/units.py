"""Byte-vs-character offset typestate over a type-based field abstraction.

Nodes are (ADT id, field name).  A node's unit is inferred from every assignment to that field anywhere in the scoped
crates:  `f = f + len_utf8(..)` / `str::len` / `find` ... give BYTE;  `f = f + 1` inside a function that advances a
`Chars` iterator gives CHAR;  copies propagate.  Every bound of a `str` range index must not carry CHAR.
"""
import re
from .mir import Body, op_place, op_const, op_local, callee_name

BYTE_CALLS = re.compile(r"char::methods::<impl char>::len_utf8$|::len_utf8$|str::<impl str>::len$|String::len$|::find$|::rfind$|::char_indices$|::as_bytes$|::offset_from")
CHAR_ITER = re.compile(r"std::str::Chars<'_> as std::iter::Iterator>::next$|Chars.*::next$|::chars$")
STR_INDEX = re.compile(r"str::traits::<impl std::ops::Index<I> for str>::index$|str::traits::.*::index(_mut)?$|std::string::String as std::ops::Index<.*>>::index$|str::<impl str>::(get|get_unchecked|split_at|split_at_mut|is_char_boundary)$")


def adt_of(ty):
    while ty and ty.get("k") in ("ref", "ptr"):
        ty = ty["to"]
    if ty and ty.get("k") == "adt":
        return ty
    return None


class Units:
    def __init__(self, F, prefixes):
        self.F = F
        self.prefixes = tuple(prefixes)
        self.writes = {}  # node -> list of (fn, expr)
        self.fns = [f for f in F.fns.values() if f.id.startswith(self.prefixes)]
        self.advances_chars = {}
        self._collect()
        self.unit = {}
        self._solve()

    # ---- expressions
    def node_of_place(self, b, place):
        """(ADT id, field) of the last field projection of a place, resolving types through the ADT table"""
        ty = b.local_ty(place["l"])
        node = None
        for e in place["p"]:
            if e == "*" or isinstance(e, str):
                while ty and ty.get("k") in ("ref", "ptr"):
                    ty = ty["to"]
                continue
            if "f" in e:
                a = adt_of(ty)
                if a is None:
                    if ty and ty.get("k") == "tuple" and e["f"] < len(ty.get("args", [])):
                        ty = ty["args"][e["f"]]
                        node = None
                        continue
                    return None
                adt = self.F.adts.get(a["id"])
                node = (a["id"], e["n"])
                nxt = None
                if adt:
                    for v in adt["variants"]:
                        for fl in v["fields"]:
                            if fl["name"] == e["n"]:
                                nxt = fl["ty"]
                ty = nxt
            elif "dc" in e:
                continue
            else:
                # index / subslice
                if ty and ty.get("k") in ("array", "slice"):
                    ty = ty["to"]
                node = None
        return node

    def expr(self, b, o, depth=0):
        if depth > 12:
            return ("unknown",)
        c = op_const(o)
        if c is not None:
            return ("const", c.get("int"))
        pl = op_place(o)
        if pl is None:
            return ("unknown",)
        # field read
        if any(isinstance(e, dict) and "f" in e for e in pl["p"]):
            l = pl["l"]
            d = b.single_def(l)
            # field 0 of a checked arithmetic temp
            if d and d[2] == "assign" and d[3]["rv"]["k"] == "bin" and d[3]["rv"]["op"].endswith("WithOverflow") and len(pl["p"]) == 1:
                rv = d[3]["rv"]
                return (rv["op"][:3].lower(), self.expr(b, rv["l"], depth + 1), self.expr(b, rv["r"], depth + 1))
            # through a reference temp:  (*_t).f  with  _t = &P
            if d and d[2] == "assign" and d[3]["rv"]["k"] in ("ref", "rawptr") and pl["p"] and pl["p"][0] == "*":
                q = d[3]["rv"]["p"]
                return self.expr(b, {"cp": {"l": q["l"], "p": list(q["p"]) + list(pl["p"][1:])}}, depth + 1)
            if d and d[2] == "assign" and d[3]["rv"]["k"] == "use" and op_place(d[3]["rv"]["o"]) is not None and not (1 <= l <= b.argc):
                q = op_place(d[3]["rv"]["o"])
                return self.expr(b, {"cp": {"l": q["l"], "p": list(q["p"]) + list(pl["p"])}}, depth + 1)
            n = self.node_of_place(b, pl)
            if n is not None:
                return ("field", n)
            return ("unknown",)
        l = pl["l"]
        d = b.single_def(l)
        if d is None:
            if 1 <= l <= b.argc:
                return ("param", l)
            return ("unknown",)
        if d[2] == "call":
            t = d[3]
            n = callee_name(t) or ""
            if BYTE_CALLS.search(n):
                return ("byte",)
            if re.search(r"::unwrap_or$|::unwrap_or_else$|::map_or$", n) and len(t["args"]) >= 2:
                # either the payload or the fallback: an `add` node carries the union of both units (constants add nothing)
                return ("add", self.expr(b, t["args"][0], depth + 1), self.expr(b, t["args"][1], depth + 1))
            if re.search(r"::min$|::max$", n) and len(t["args"]) == 2:
                # either operand: a byte offset clamped by a literal is a byte offset moved to an arbitrary place
                # (the `add` node gives it the unit SHIFT; two offsets keep their units)
                return ("add", self.expr(b, t["args"][0], depth + 1), self.expr(b, t["args"][1], depth + 1))
            if re.search(r"::into$|::from$|::try_into$|::unwrap$|::clone$|Try>::branch$|::min$|::max$", n) and t["args"]:
                return self.expr(b, t["args"][0], depth + 1)
            return ("call", n)
        rv = d[3]["rv"]
        if rv["k"] == "use":
            return self.expr(b, rv["o"], depth + 1)
        if rv["k"] == "bin":
            op = rv["op"]
            if op in ("Add", "Sub", "AddWithOverflow", "SubWithOverflow", "AddUnchecked", "SubUnchecked"):
                return (op[:3].lower(), self.expr(b, rv["l"], depth + 1), self.expr(b, rv["r"], depth + 1))
            return ("unknown",)
        if rv["k"] == "cast":
            return self.expr(b, rv["o"], depth + 1)
        if rv["k"] == "un" and rv["op"] == "PtrMetadata":
            return ("byte",) if "str" in (b.local_ty(l)["s"]) else ("unknown",)
        return ("unknown",)

    def _collect(self):
        for f in self.fns:
            b = Body(f)
            adv = False
            for bi, t in b.calls():
                if CHAR_ITER.search(callee_name(t) or ""):
                    adv = True
            self.advances_chars[f.id] = adv
            for bi, blk in enumerate(b.blocks):
                if blk["cleanup"]:
                    continue
                for st in blk["st"]:
                    if st["k"] != "assign":
                        continue
                    p = st["p"]
                    rv = st["rv"]
                    if any(isinstance(e, dict) and "f" in e for e in p["p"]):
                        n = self.node_of_place(b, p)
                        if n is None:
                            continue
                        ty_ok = True
                        if rv["k"] == "use":
                            self.writes.setdefault(n, []).append((f, b, self.expr(b, rv["o"]), bi))
                    elif rv["k"] == "agg" and rv.get("ak") == "adt" and rv["id"] in self.F.adts:
                        for name, o in zip(rv["fields"], rv["ops"]):
                            n = (rv["id"], name)
                            self.writes.setdefault(n, []).append((f, b, self.expr(b, o), bi))

    def _units_of_expr(self, e, f, self_node=None):
        """set of units {'BYTE','CHAR'} an expression can carry"""
        k = e[0]
        if k == "byte":
            return {"BYTE"}
        if k == "field":
            return set(self.unit.get(e[1], set()))
        if k in ("add", "sub"):
            l, r = e[1], e[2]
            ul, ur = self._units_of_expr(l, f, self_node), self._units_of_expr(r, f, self_node)
            u = ul | ur
            # a byte offset moved by a literal number of bytes: only sound next to single-byte (ASCII) characters
            for x, y, uy in ((l, r, ur), (r, l, ul)):
                if x[0] == "const" and x[1] not in (0, None) and ("BYTE" in uy or "SHIFT" in uy):
                    u.add("SHIFT")
            # counting characters: n = n + 1 in a function that advances a Chars iterator
            if k == "add" and self_node is not None:
                for x, y in ((l, r), (r, l)):
                    if x == ("field", self_node) and y[0] == "const" and y[1] == 1 and self.advances_chars.get(f.id):
                        u.add("CHAR")
            return u
        return set()

    def _solve(self):
        changed = True
        rounds = 0
        while changed and rounds < 30:
            changed = False
            rounds += 1
            for n, ws in self.writes.items():
                cur = set(self.unit.get(n, set()))
                new = set(cur)
                for (f, b, e, bi) in ws:
                    new |= self._units_of_expr(e, f, n)
                if new != cur:
                    self.unit[n] = new
                    changed = True

    # ---- sinks
    def str_index_sites(self):
        """[(fn, body, bb, [(role, expr, units)])] for every str range-index call in scope"""
        out = []
        for f in self.fns:
            b = Body(f)
            for bi, t in b.calls():
                n = callee_name(t) or ""
                if not STR_INDEX.search(n) or len(t["args"]) < 2:
                    continue
                idx = t["args"][1]
                rv = b.def_rvalue(idx)
                bounds = []
                if rv is not None and rv["k"] == "agg" and rv.get("variant") in ("Range", "RangeFrom", "RangeTo", "RangeInclusive", "RangeToInclusive"):
                    for name, o in zip(rv["fields"], rv["ops"]):
                        e = self.expr(b, o)
                        bounds.append((name, e, self._units_of_expr(e, f)))
                else:
                    e = self.expr(b, idx)
                    bounds.append(("at", e, self._units_of_expr(e, f)))
                out.append((f, b, bi, bounds))
        return out


CHAR_COUNT = re.compile(r"Iterator>?::(nth|skip|take|step_by|advance_by)$")


def char_count_sites(U):
    """[(fn, body, bb, expr, units)]: a number handed to nth / skip / take of a character iterator counts characters"""
    out = []
    for f in U.fns:
        b = Body(f)
        for bi, t in b.calls():
            n = callee_name(t) or ""
            if not CHAR_COUNT.search(n) or len(t["args"]) < 2:
                continue
            rty = b.local_ty(op_place(t["args"][0])["l"])["s"] if op_place(t["args"][0]) is not None else ""
            if not re.search(r"str::Chars<|str::CharIndices<|Peekable<std::str::Chars|Enumerate<std::str::Chars", rty) and "Chars" not in n:
                continue
            e = U.expr(b, t["args"][1])
            out.append((f, b, bi, e, U._units_of_expr(e, f)))
    return out


def fmt_expr(e):
    k = e[0]
    if k == "field":
        return "%s.%s" % (e[1][0].split("::")[-1], e[1][1])
    if k in ("add", "sub"):
        return "(%s %s %s)" % (fmt_expr(e[1]), "+" if k == "add" else "-", fmt_expr(e[2]))
    if k == "const":
        return str(e[1])
    if k == "byte":
        return "<byte length>"
    return k
