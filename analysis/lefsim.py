"""E2 for LEF: the text a writer routine can emit, cut into abstract tokens, is run through the parser routine for the
same type by an abstract walk of the parser's CFG in lock-step with the token stream.

Nothing is executed: writer paths and parser paths are enumerated over MIR with symbolic values; tokens are abstract
classes.  Token classes:
  ('K', WORD)  keyword (a LefKey string)        ('SEMI',)          ('NUM',)      ('STR',)  quoted string literal
  ('E', Type)  a word of an enumstr! type       ('TEXT',)  exactly one token of unknown class (a String field)
  ('WILD',)    zero or more non-';' tokens (text the analysis cannot derive)      ('W', word) other literal word
  ('BAD', why) a token the LEF lexer would cut differently from what the writer intends (e.g. `CORE;`)
  ('NT', writer fn id)  everything a nested writer routine emits
"""
import re
from .mir import Body, callee_name, callee_id, op_const
from .walk import Walker, Path, field_chain, strip_calls
from . import ordering as od

KEY = "lef21::data::LefKey"


# ------------------------------------------------------------------------------------------------------
# format templates
# ------------------------------------------------------------------------------------------------------
def decode_template(bs):
    """rust fmt::Arguments template byte-code -> [('lit', str) | ('ph', arg index or None)]"""
    out = []
    i = 0
    n = len(bs)
    nxt = 0
    while i < n:
        b = bs[i]
        if b == 0:
            break
        if b < 0x80:
            out.append(("lit", bytes(bs[i + 1:i + 1 + b]).decode("utf-8", "replace")))
            i += 1 + b
        elif b == 0x80:
            ln = bs[i + 1] | (bs[i + 2] << 8)
            out.append(("lit", bytes(bs[i + 3:i + 3 + ln]).decode("utf-8", "replace")))
            i += 3 + ln
        elif b >= 0xC0:
            i += 1
            if b & 0x01:
                i += 4
            if b & 0x02:
                i += 2
            if b & 0x04:
                i += 2
            idx = None
            if b & 0x08:
                idx = bs[i] | (bs[i + 1] << 8)
                i += 2
            if idx is None:
                idx = nxt
            nxt = idx + 1
            out.append(("ph", idx))
        else:
            break
    return out


def agg_switch(F):
    """on_switch callback: a discriminant read of a symbolically known enum aggregate picks its arm"""
    by_last = {}
    for k, e in F.enums.items():
        by_last.setdefault(k.split("::")[-1], []).append(e)
    cache = {}

    def variants(eid):
        r = cache.get(eid)
        if r is None:
            cands = [F.enums[eid]] if eid in F.enums else by_last.get(eid.split("::")[-1], [])
            r = cache[eid] = [{nme: d for nme, d, _ in e["variants"]} for e in cands]
        return r

    def on_switch(path, bb, t, on):
        if on[0] == "discr" and on[1][0] == "agg" and "::" in str(on[1][1]):
            eid, vname = str(on[1][1]).rsplit("::", 1)
            for vs in variants(eid):
                if vname in vs:
                    d = vs[vname]
                    for v, tgt in t["arms"]:
                        if v == d:
                            return [(tgt, None, None)]
                    return [(t["else"], None, None)]
        return None
    return on_switch


class Lang:
    def __init__(self, F):
        self.F = F
        self.key_str = {}      # LefKey variant -> string
        self.str_key = {}
        self.enum_words = {}   # enum type id -> set of words
        self._tables()
        self._wpaths = {}
        self._promoted = {}

    def _tables(self):
        """read `to_str` match arms of every EnumStr impl: variant -> literal"""
        F = self.F
        for f in F.fns.values():
            if f.trait_item and f.trait_item.endswith("enumstr::EnumStr::to_str") and f.self_ty and f.self_ty.get("k") == "adt":
                eid = f.self_ty["id"]
                w = Walker(f, max_visits=1)
                res = {}

                def on_return(path, res=res, eid=eid):
                    v = None
                    for k, fv in path.facts.items():
                        if k[0] == "discr" and fv[0] == "=":
                            v = F.variant_of(eid, fv[1])
                    ret = path.env.get(0)
                    if v and ret and ret[0] == "const" and isinstance(ret[1], str):
                        res[v] = ret[1]
                w.run(on_return=on_return)
                self.enum_words[eid] = set(res.values())
                if eid == KEY:
                    self.key_str = res
                    self.str_key = {s: v for v, s in res.items()}

    # ---- promoted constants
    def promoted_term(self, fn, idx):
        key = (fn.id, idx)
        if key in self._promoted:
            return self._promoted[key]
        res = ("op", "promoted", ())
        if idx < len(fn.promoted):
            pb = fn.promoted[idx]
            w = Walker(fn, body=pb, max_visits=1)
            got = []
            w.run(on_return=lambda p: got.append(p.env.get(0)))
            if got and got[0] is not None:
                res = got[0]
        self._promoted[key] = res
        return res

    def class_of_type(self, tname, term=None):
        """token classes a Display-ed value of this type contributes"""
        t = tname.replace("&", "").strip()
        t = re.sub(r"^'\w+ ", "", t)
        last = t.split("::")[-1]
        if t.endswith("LefKey"):
            return None  # resolved by value
        full = None
        for eid in self.enum_words:
            if eid.split("::")[-1] == last and eid != KEY:
                full = eid
        if full:
            return [("E", full)]
        if re.search(r"Decimal$|^u\d+$|^i\d+$|^usize$|^isize$|LefMask$|^f64$", t):
            return [("NUM",)]
        if last == "LefPoint":
            return [("NUM",), ("NUM",)]
        if last in ("String", "str", "char"):
            return [("TEXT",)]
        return [("WILD",)]


# ------------------------------------------------------------------------------------------------------
# writer side
# ------------------------------------------------------------------------------------------------------
def is_writer_fn(F, f):
    return f.id.startswith("lef21::write::") and f.kind != "Closure" and "LefWriter" in f.name and f.self_ty is not None


def writer_param_type(f):
    if len(f.inputs) == 2:
        t = f.inputs[1]
        while t.get("k") == "ref":
            t = t["to"]
        return t
    return None


def lex_line(pieces):
    """pieces: list of ('lit', text) | ('tok', class) | ('toks', [classes]) -> token list, applying the LEF lexer's
    whitespace / maximal-munch rule symbolically"""
    # split into whitespace-separated groups of adjacent items
    groups = [[]]
    for p in pieces:
        if p[0] == "lit":
            parts = re.split(r"(\s+)", p[1])
            for part in parts:
                if part == "":
                    continue
                if part.isspace():
                    if groups[-1]:
                        groups.append([])
                else:
                    groups[-1].append(("lit", part))
        else:
            groups[-1].append(p)
    toks = []
    for g in groups:
        if not g:
            continue
        if len(g) == 1:
            it = g[0]
            if it[0] == "lit":
                toks += lex_literal(it[1])
            elif it[0] == "tok":
                toks.append(it[1])
            else:
                toks += list(it[1])
            continue
        # several adjacent items without whitespace.  Text the analysis cannot derive (WILD) may be empty or carry its
        # own spaces (`{pg}{sps};`): it separates its neighbours
        if any(x[0] == "tok" and x[1][0] == "WILD" for x in g) or any(x[0] == "toks" and any(y[0] == "WILD" for y in x[1]) for x in g):
            run_ = []
            for x in g:
                if (x[0] == "tok" and x[1][0] == "WILD") or (x[0] == "toks" and any(y[0] == "WILD" for y in x[1])):
                    if run_:
                        toks += lex_line(run_)
                        run_ = []
                    toks.append(("WILD",))
                else:
                    run_.append(x)
            if run_:
                toks += lex_line(run_)
            continue
        text = "".join(x[1] if x[0] == "lit" else "\x00" for x in g)
        if text.startswith('"') and text.endswith('"') and len(text) >= 2:
            toks.append(("STR",))
            continue
        # a multi-token expansion glued to something: only the last / first element is affected; approximate
        lits = [x[1] for x in g if x[0] == "lit"]
        if all(x[0] == "lit" for x in g):
            toks += lex_literal("".join(lits))
            continue
        # placeholder(s) glued to literal characters: the lexer produces ONE token (it only splits at whitespace;
        # ';' is special only at the start of a token)
        if g[0][0] == "lit" and g[0][1].startswith(";"):
            toks.append(("SEMI",))
            rest = [("lit", g[0][1][1:])] + g[1:] if len(g[0][1]) > 1 else g[1:]
            toks += lex_line(rest)
            continue
        toks.append(("BAD", "glued:" + "".join(x[1] if x[0] == "lit" else "{}" for x in g)))
    return toks


def lex_literal(word):
    """a literal run without whitespace, as the LEF lexer would cut it"""
    if word == ";":
        return [("SEMI",)]
    if word.startswith(";"):
        return [("SEMI",)] + lex_literal(word[1:])
    if word.startswith('"') and word.endswith('"') and len(word) >= 2:
        return [("STR",)]
    if re.match(r"^-?[\d.]", word):
        return [("NUM",)] if re.match(r"^-?(\d+\.?\d*|\.\d+)$", word) else [("W", word)]
    return [("W", word)]


def model_field(t, depth=0, fields=0):
    """is the term a field of the value being written, possibly of an item of one of its collections (reached through
    iterator / deref / unwrap calls)?  Such a String is one token of model text."""
    while isinstance(t, tuple) and depth < 60:
        depth += 1
        if t[0] == "param":
            return fields > 0
        if t[0] == "f":
            fields += 1 if not str(t[2]).isdigit() else 0
            t = t[1]
        elif t[0] in ("v", "i", "discr"):
            t = t[1]
        elif t[0] == "call" and t[2] and t[1] and re.search(r"Iterator>?::next$|Iterator for .*>::next$|::into_iter$|::iter$|::iter_mut$|Deref>?::deref$|::as_ref$|::unwrap$|::as_str$|::clone$|::borrow$|::as_deref$|::enumerate$|::peekable$", t[1]):
            t = t[2][0]
        elif t[0] == "op" and t[1] in ("mut", "ref", "deref") and t[2]:
            t = t[2][0]
        else:
            return False
    return False


def term_type(F, root_fn, t, depth=0):
    """type (facts JSON) of a term rooted in a parameter of `root_fn`, following named fields, Option payloads and
    iteration over Vec / slices; None when it cannot be derived"""
    if not isinstance(t, tuple) or depth > 60:
        return None

    def strip(ty):
        while ty is not None and ty.get("k") == "ref":
            ty = ty["to"]
        return ty
    if t[0] == "param":
        k = t[1] - 1
        return strip(root_fn.inputs[k]) if 0 <= k < len(root_fn.inputs) else None
    if t[0] == "f":
        base = t[1]
        if base[0] == "v" and base[2] == "Some" and t[2] == "0":
            ty = strip(term_type(F, root_fn, base[1], depth + 1))
            if ty and ty.get("k") == "adt" and ty["id"].endswith("option::Option") and ty.get("args"):
                return strip(ty["args"][0])
            return None
        ty = strip(term_type(F, root_fn, base, depth + 1))
        if ty and ty.get("k") == "adt" and ty["id"] in F.adts:
            for v in F.adts[ty["id"]]["variants"]:
                for fl in v["fields"]:
                    if fl["name"] == t[2]:
                        return strip(fl["ty"])
        if ty and ty.get("k") == "tuple" and str(t[2]).isdigit() and int(t[2]) < len(ty.get("args", [])):
            return strip(ty["args"][int(t[2])])
        return None
    if t[0] in ("v", "discr"):
        return term_type(F, root_fn, t[1], depth + 1)
    if t[0] == "op" and t[2]:
        return term_type(F, root_fn, t[2][0], depth + 1)
    if t[0] == "call" and t[1] and t[2]:
        ty = strip(term_type(F, root_fn, t[2][0], depth + 1))
        if re.search(r"Iterator>?::next$|Iterator for .*>::next$", t[1]):
            if ty and ty.get("k") == "adt" and ty["id"].endswith("vec::Vec") and ty.get("args"):
                return {"k": "adt", "id": "core::option::Option", "args": [strip(ty["args"][0])], "s": "Option"}
            if ty and ty.get("k") in ("slice", "array"):
                return {"k": "adt", "id": "core::option::Option", "args": [strip(ty["to"])], "s": "Option"}
            return None
        if re.search(r"::into_iter$|::iter$|Deref>?::deref$|::as_ref$|::as_slice$|::clone$|::borrow$", t[1]):
            return ty
        if re.search(r"::unwrap$|::as_deref$", t[1]):
            if ty and ty.get("k") == "adt" and ty["id"].endswith("option::Option") and ty.get("args"):
                return strip(ty["args"][0])
    return None


class WriterModel:
    def __init__(self, lang):
        self.L = lang
        self.F = lang.F
        self.cache = {}
        self.lines = {}
        self.truncated = set()
        self.unwritten = {}     # writer fn id -> {Option field: number of Ok paths that neither know it None nor emit it}

    def arg_pieces(self, fn, tname, term, depth=0):
        """pieces a displayed argument contributes"""
        L = self.L
        # resolve promoted constants
        if term and term[0] == "promoted":
            term = L.promoted_term(fn, term[1])
        # `format!` wraps its result in hint::must_use(..)
        while term and term[0] == "call" and term[1] and term[1].endswith("hint::must_use") and term[2]:
            term = term[2][0]
        t = strip_calls(term) if term else term
        if t and t[0] == "promoted":
            t = L.promoted_term(fn, t[1])
        if tname.replace("&", "").strip().endswith("LefKey"):
            if t and t[0] == "agg" and isinstance(t[1], str) and t[1].startswith(KEY + "::"):
                w = L.key_str.get(t[1].split("::")[-1])
                if w:
                    return [("tok", ("K", w))]
            return [("tok", ("TEXT",))]
        # a String built by joining a word list: one piece that carries every alternative word sequence
        for cand in (term, t):
            if cand and cand[0] == "wordstr":
                return [("alt", cand[1])]
        # a String built by format!(..): inline its template
        if term and term[0] == "fmtstr" and depth < 4:
            return self.template_pieces(fn, term[1], term[2], depth + 1)
        if t and t[0] == "fmtstr" and depth < 4:
            return self.template_pieces(fn, t[1], t[2], depth + 1)
        # `format!("{}", format_args!(..))` (what fstrings' format_f! expands to): the inner template, inline
        for cand in (term, t):
            if cand and cand[0] == "fmtargs" and depth < 4:
                return self.template_pieces(fn, cand[1], cand[2], depth + 1)
        if t and t[0] == "const" and isinstance(t[1], str) and tname.replace("&", "").strip().split("::")[-1] in ("String", "str"):
            return [("lit", t[1])] if t[1] else []
        if t and t[0] == "call" and t[1] and re.search(r"String::new$", t[1]):
            return []
        # a String returned by a helper of the writer (`display_option(&attr.layer)`): one alternative per return path
        if term and term[0] == "call" and term[1] and depth < 3 and tname.replace("&", "").strip().split("::")[-1] in ("String", "str"):
            g = self.helper_fn(term[1])
            if g is not None:
                alts = self.fn_string_alts(g, term[2], depth, getattr(self, "_root_fn", None) or fn)
                if alts is not None:
                    return [("alt", alts)]
        cl = L.class_of_type(tname)
        if cl == [("TEXT",)]:
            # model String fields are single tokens; locally computed strings are unknown text
            root, chain = field_chain(term) if term else (None, [])
            if not (isinstance(root, tuple) and root[0] == "param" and chain) and not model_field(term):
                return [("tok", ("WILD",))]
            if chain and chain[-1] in ("data",):
                return [("tok", ("WILD",))]
        if len(cl) == 1:
            return [("tok", cl[0])]
        return [("toks", cl)]

    def template_pieces(self, fn, tmpl, args, depth=0):
        pieces = []
        for kind, val in decode_template(tmpl):
            if kind == "lit":
                pieces.append(("lit", val))
            else:
                if val is not None and val < len(args) and args[val] and args[val][0] == "fmtarg":
                    pieces += self.arg_pieces(fn, args[val][1], args[val][2], depth)
                else:
                    pieces.append(("tok", ("WILD",)))
        return pieces

    # ---- word lists: Vec<String> built by push / extend / vec![..] and joined with a separator
    WILDWORD = (("tok", ("WILD",)),)

    def word_of(self, fn, x):
        """pieces of a single pushed String term, or None when x is not a single word"""
        if not isinstance(x, tuple):
            return None
        if x[0] == "fmtarg":
            return tuple(self.arg_pieces(fn, x[1], x[2]))
        if x[0] == "fmtstr":
            return tuple(self.template_pieces(fn, x[1], x[2]))
        if x[0] == "const" and isinstance(x[1], str):
            return (("lit", x[1]),) if x[1] else ()
        if x[0] == "promoted":
            return self.word_of(fn, self.L.promoted_term(fn, x[1]))
        return None

    def words_alts(self, fn, t, depth=0):
        """alternatives (tuples of words; a word is a tuple of pieces) a Vec<String>-valued term can hold; None = not a word list"""
        if not isinstance(t, tuple) or depth > 6:
            return None
        while t[0] == "call" and t[1] and re.search(r"Deref>::deref$|DerefMut>::deref_mut$|::as_slice$|::as_ref$|::borrow$|::clone$|::to_vec$", t[1]) and t[2]:
            t = t[2][0]
        if t[0] == "call" and t[1] and re.search(r"Vec::<.*>::(new|with_capacity)$", t[1]):
            return [()]
        if t[0] == "wordalts":
            return list(t[1])
        if t[0] == "agg" and t[1] == "array":
            ws = []
            for it in t[2]:
                w = self.word_of(fn, it)
                ws.append(w if w is not None else self.WILDWORD)
            return [tuple(ws)]
        if t[0] == "op" and t[1] == "mut" and t[2]:
            alts = self.words_alts(fn, t[2][0], depth + 1)
            if alts is None:
                return None
            for x in t[2][1:]:
                w = self.word_of(fn, x)
                if w is not None:
                    alts = [a + (w,) for a in alts]
                    continue
                sub = self.words_alts(fn, x, depth + 1)
                if sub is None:
                    # an iterator chain (`pts.iter().map(|p| p.to_string())`) or anything else: unknown words
                    sub = [(self.WILDWORD,)]
                alts = [a + b for a in alts for b in sub][:96]
            return alts
        return None

    def fn_word_alts(self, g, args, depth=0):
        """inline a routine that returns a word list, with the caller's argument terms bound to its parameters"""
        key = ("words", g.id, args)
        if key in self.cache:
            return self.cache[key]
        self.cache[key] = [(self.WILDWORD,)]
        from .walk import Path
        init = Path()
        for i, a in enumerate(args):
            if a is not None and i >= 1:
                init.env[i + 1] = a
        w = Walker(g, max_visits=2, follow_errors=False, max_paths=3000, max_depth=40)
        rets = []
        w.run(init=init, on_call=self._mk_on_call(g, emit=False, depth=depth + 1), on_return=lambda p: rets.append(p.env.get(0)), on_switch=agg_switch(self.F), on_stmt=self._on_stmt)
        alts = []
        for r in rets:
            wa = self.words_alts(g, r) if r is not None else None
            if wa is None:
                wa = [(self.WILDWORD,)]
            for a in wa:
                if a not in alts:
                    alts.append(a)
        self.cache[key] = alts[:96]
        return self.cache[key]

    def helper_fn(self, name):
        """the workspace function a call term names (generic arguments ignored), if it is a plain helper with a body"""
        from .facts import short_name
        key = ("helper", name)
        if key not in self.cache:
            sn = short_name(name)
            c = [g for g in self.F.fns.values() if g.id.startswith("lef21::") and g.body and g.kind != "Closure" and short_name(g.name) == sn
                 and (g.output or {}).get("s", "").split("::")[-1] == "String"]
            self.cache[key] = c[0] if len(c) == 1 else None
        return self.cache[key]

    def fn_string_alts(self, g, args, depth=0, root_fn=None):
        """inline a helper that returns a String, with the caller's argument terms bound to its parameters: a tuple of
        alternatives, each a tuple of words (here: no word for the empty string, else one word = tuple of pieces)"""
        key = ("string", g.id, args, root_fn.id if root_fn is not None else None)
        if key in self.cache:
            return self.cache[key]
        self.cache[key] = None
        from .walk import Path
        init = Path()
        for i, a in enumerate(args):
            if a is not None:
                init.env[i + 1] = a
        w = Walker(g, max_visits=2, follow_errors=False, max_paths=500, max_depth=40)
        rets = []
        w.run(init=init, on_call=self._mk_on_call(g, emit=False, depth=depth + 1), on_return=lambda p: rets.append(p.env.get(0)), on_switch=agg_switch(self.F), on_stmt=self._on_stmt)
        alts = []
        for r in rets:
            if r is None:
                alts = None
                break
            # `x.to_string()` of a Display value: the value's own text class (a model String is one TEXT token)
            inner = r
            while inner and inner[0] == "call" and inner[1] and re.search(r"ToString>?::to_string$|::to_owned$|::clone$|::to_string$", inner[1]) and inner[2]:
                inner = inner[2][0]
            tn = "String"
            if inner and inner[0] == "fmtarg":
                # Display of a generic value: the instantiation named at the call site says what it is
                tn = inner[1]
                inner = inner[2]
                if re.match(r"^&?[A-Z]\w?$", tn) and root_fn is not None:
                    ty = term_type(self.F, root_fn, inner)
                    if ty is not None and ty.get("s"):
                        tn = ty["s"]
            pcs = self.arg_pieces(g, tn, inner, depth + 1)
            if any(pc[0] == "alt" for pc in pcs):
                alts = None
                break
            a = (tuple(pcs),) if pcs else ()
            if a not in alts:
                alts.append(a)
        res = tuple(alts[:16]) if alts else None
        self.cache[key] = res
        return res

    @staticmethod
    def _opt_variant(L, fn, t):
        if t and t[0] == "promoted":
            t = L.promoted_term(fn, t[1])
        t = strip_calls(t) if t else t
        if t and t[0] == "promoted":
            t = L.promoted_term(fn, t[1])
        if t and t[0] == "agg" and isinstance(t[1], str) and t[1].endswith(("option::Option::None", "option::Option::Some")):
            return t[1].rsplit("::", 1)[1]
        return None

    @staticmethod
    def _on_stmt(path, bb, st, val):
        # `vec![a, b]` lowering: the array is stored through a raw pointer into a fresh box, then turned into a Vec
        if st["p"]["p"] and st["p"]["p"][0] == "*" and val and val[0] == "agg" and val[1] == "array":
            path.facts[("vecinit",)] = val

    def expand_alt_pieces(self, pieces):
        """piece lists for every combination of alternatives; words of one alternative are separated by a blank"""
        outs = [[]]
        for pc in pieces:
            if pc[0] == "alt":
                nxt = []
                for alt in pc[1]:
                    flat = []
                    for wi, wd in enumerate(alt):
                        if wi:
                            flat.append(("lit", " "))
                        flat += list(wd)
                    for o in outs:
                        nxt.append(o + flat)
                outs = nxt[:128]
            else:
                for o in outs:
                    o.append(pc)
        return outs

    def _mk_on_call(self, fn, emit=True, depth=0):
        F = self.F
        L = self.L
        model = self

        def fmtargs_of(term):
            if term and term[0] == "fmtargs":
                return term
            return None

        def on_call(path, bb, t, name, args):
            n = name or ""
            c = op_const(t["f"]) or {}
            ga = c.get("rargs") or c.get("gargs") or []
            # ---- word lists
            if n.endswith("box_assume_init_into_vec_unsafe") and ("vecinit",) in path.facts:
                return ("value", path.facts[("vecinit",)])
            if re.search(r"PartialEq(<.*>)?>?::(eq|ne)$", n) and len(args) == 2:
                va, vb = model._opt_variant(L, fn, args[0]), model._opt_variant(L, fn, args[1])
                if va and vb and "None" in (va, vb):
                    eq = (va == vb)
                    val = eq if n.endswith("::eq") else not eq
                    return ("value", ("const", "true" if val else "false", 1 if val else 0))
            if re.search(r"::(is_some|is_none)$", n) and args:
                va = model._opt_variant(L, fn, args[0])
                if va:
                    val = (va == "Some") == n.endswith("is_some")
                    return ("value", ("const", "true" if val else "false", 1 if val else 0))
            if re.search(r"::join$|::concat$", n) and args:
                alts = model.words_alts(fn, args[0])
                sep = strip_calls(args[1]) if len(args) > 1 else None
                if alts is not None and (sep is None or (sep[0] == "const" and sep[1] == " ")):
                    return ("value", ("wordstr", tuple(alts)))
            cid0 = callee_id(t)
            g0 = F.fns.get(cid0)
            if g0 is not None and g0.id.startswith("lef21::write::") and re.match(r"std::vec::Vec<std::string::String", (g0.output or {}).get("s", "")) and depth < 3:
                return ("value", ("wordalts", tuple(model.fn_word_alts(g0, args, depth))))
            if re.search(r"fmt::rt::Argument::<.*>::new_(display|debug)$|Argument::<'_>::new_display$", n) and args:
                tn = ga[-1] if ga else "?"
                # the generic argument list may start with a lifetime
                tn = [g for g in ga if not g.startswith("'")][-1] if [g for g in ga if not g.startswith("'")] else "?"
                return ("value", ("fmtarg", tn, args[0]))
            if re.search(r"fmt::Arguments::<.*>::new$", n) and len(args) == 2:
                tm = strip_calls(args[0])
                arr = strip_calls(args[1])
                if tm and tm[0] == "const" and isinstance(tm[1], (bytes, bytearray)) and arr and arr[0] == "agg":
                    return ("value", ("fmtargs", bytes(tm[1]), tuple(arr[2])))
                return ("value", ("fmtargs", None, ()))
            if re.search(r"fmt::Arguments::<.*>::from_str$|Arguments::<'a>::from_str", n) and args:
                s = strip_calls(args[0])
                if s and s[0] == "const" and isinstance(s[1], str):
                    enc = s[1].encode()
                    return ("value", ("fmtargs", bytes([len(enc)]) + enc + b"\x00" if len(enc) < 128 else b"\x80" + bytes([len(enc) & 255, len(enc) >> 8]) + enc + b"\x00", ()))
                return ("value", ("fmtargs", None, ()))
            if re.search(r"alloc::fmt::format$|fmt::format$", n) and args:
                fa = fmtargs_of(args[0])
                if fa and fa[1] is not None:
                    return ("value", ("fmtstr", fa[1], fa[2]))
                return None
            if re.search(r"ToString>::to_string$|::to_string$", n) and args:
                tn = [g for g in ga if not g.startswith("'")]
                return ("value", ("fmtarg", tn[0] if tn else "?", args[0]))
            cid = callee_id(t)
            g = F.fns.get(cid)
            if g is not None and is_writer_fn(F, g):
                if g.short.endswith("::write_line") and len(args) == 2:
                    fa = fmtargs_of(args[1])
                    if fa is None or fa[1] is None:
                        path.events.append(("WILD",))
                    else:
                        variants = [tuple(lex_line(pcs)) for pcs in model.expand_alt_pieces(model.template_pieces(fn, fa[1], fa[2]))]
                        variants = list(dict.fromkeys(variants))
                        if len(variants) == 1:
                            for tk in variants[0]:
                                path.events.append(tk)
                        else:
                            path.events.append(("ALT", tuple(variants)))
                    path.events.append(("EOL",))
                    return ("value", ("agg", "core::result::Result::Ok", (("const", "()", None),)))
                pt = writer_param_type(g)
                if pt is not None and pt.get("k") == "adt" and (g.output or {}).get("s", "").startswith("std::result::Result<()"):
                    path.events.append(("NT", g.id))
                    return ("value", ("agg", "core::result::Result::Ok", (("const", "()", None),)))
            if name and name.endswith("Try>::branch") and args and args[0][0] == "agg" and str(args[0][1]).endswith("Result::Ok"):
                return ("value", ("agg", "core::ops::ControlFlow::Continue", args[0][2]))
            return None

        return on_call

    def paths(self, fn):
        """token sequences (tuples) a writer routine can emit on its successful paths (loops 0/1 times)"""
        if fn.id in self.cache:
            return self.cache[fn.id]
        self.cache[fn.id] = []
        F = self.F
        self._root_fn = fn
        w = Walker(fn, max_visits=2, follow_errors=False, max_paths=6000, max_depth=40)
        out = set()
        model = self

        on_call0 = self._mk_on_call(fn)
        # Option-typed fields of the value being written (for the "set field is written" rule)
        opt_fields = set()
        pty = writer_param_type(fn)
        if pty is not None and pty.get("k") == "adt" and pty["id"] in F.adts and len(F.adts[pty["id"]]["variants"]) == 1:
            opt_fields = {fl["name"] for fl in F.adts[pty["id"]]["variants"][0]["fields"] if fl["ty"].get("id", "").endswith("option::Option") and "Unsupported" not in fl["ty"].get("s", "")}
        unwritten = self.unwritten.setdefault(fn.id, {})

        def roots_in(t, acc, depth=0):
            if not isinstance(t, tuple) or depth > 60:
                return
            if t[0] == "f" and t[1] == ("param", 2) and isinstance(t[2], str):
                acc.add(t[2])
            for x in t[1:]:
                if isinstance(x, tuple):
                    if x and isinstance(x[0], str):
                        roots_in(x, acc, depth + 1)
                    else:
                        for y in x:
                            roots_in(y, acc, depth + 1)

        def on_call(path, bb, t, name, args):
            if opt_fields and name and (name.startswith(("write::", "lef21::write::")) or "LefWriter" in name or re.search(r"io::Write::write_fmt$|::write_line$", name)):
                acc = path.facts.get(("emitted",), frozenset())
                got = set()
                for a in args:
                    roots_in(a, got)
                if got - acc:
                    path.facts[("emitted",)] = frozenset(acc | got)
            return on_call0(path, bb, t, name, args)

        def on_return(path):
            # successful paths only: the returned value is Ok(..)
            ret = path.env.get(0)
            if ret and ret[0] == "agg" and str(ret[1]).endswith("::Err"):
                return
            if opt_fields:
                emitted = path.facts.get(("emitted",), frozenset())
                known_none = set()
                for k, fv in path.facts.items():
                    if k[0] == "discr" and len(k) > 1:
                        root, chain = field_chain(k[1])
                        if root == ("param", 2) and chain and chain[0] in opt_fields and len([c for c in chain if not c.startswith("as:")]) == 1:
                            if (fv[0] == "=" and fv[1] == 0) or (fv[0] == "!=" and 1 in fv[1]):
                                known_none.add(chain[0])
                    elif k[0] == "val" and isinstance(k[1], tuple) and k[1][0] == "call" and k[1][1] and re.search(r"::(is_some|is_none)$", k[1][1]) and k[1][2]:
                        root, chain = field_chain(k[1][2][0])
                        if root == ("param", 2) and chain and chain[0] in opt_fields:
                            truth = (fv[0] == "=" and fv[1] != 0) or (fv[0] == "!=" and 0 in fv[1])
                            if truth == k[1][1].endswith("is_none"):
                                known_none.add(chain[0])
                # a value test on the field's own payload (`Some(ref pg) if *pg`) is the field deciding for itself
                for k, fv in path.facts.items():
                    if k[0] == "val" and isinstance(k[1], tuple):
                        acc_ = set()
                        roots_in(k[1], acc_)
                        known_none |= (acc_ & opt_fields)
                for fld in opt_fields:
                    if fld not in emitted and fld not in known_none:
                        unwritten.setdefault(fld, 0)
                        unwritten[fld] += 1
            seqs = [[]]
            for ev in path.events:
                if ev[0] == "ALT":
                    seqs = [sq + list(v) for sq in seqs for v in ev[1]][:256]
                else:
                    for sq in seqs:
                        sq.append(ev)
            for sq in seqs:
                out.add(tuple(sq))
        w.run(on_call=on_call, on_return=on_return, on_switch=agg_switch(F), on_stmt=self._on_stmt)
        if w.truncated:
            self.truncated.add(fn.id)
        res = sorted(out)
        self.lines[fn.id] = res
        flat = sorted({tuple(t for t in seq if t[0] != "EOL") for seq in res})
        self.cache[fn.id] = flat
        return flat

    def covering_subset(self, fn, limit):
        """a small set of emitted sequences that together contain every distinct line (statement) and nested-writer call
        the routine can emit, plus the longest and the shortest sequence"""
        self.paths(fn)
        seqs = self.lines.get(fn.id, [])
        if len(seqs) <= limit:
            return [tuple(t for t in s if t[0] != "EOL") for s in seqs]

        def lines_of(seq):
            out, cur = set(), []
            for t in seq:
                if t[0] == "EOL":
                    out.add(tuple(cur))
                    cur = []
                elif t[0] == "NT":
                    out.add((t,))
                else:
                    cur.append(t)
            if cur:
                out.add(tuple(cur))
            return out
        remaining = set()
        per = []
        for s in seqs:
            ls_ = lines_of(s)
            per.append(ls_)
            remaining |= ls_
        chosen = []
        order = sorted(range(len(seqs)), key=lambda i: -len(seqs[i]))
        chosen.append(order[0])
        remaining -= per[order[0]]
        chosen.append(order[-1])
        remaining -= per[order[-1]]
        while remaining and len(chosen) < limit:
            best = max(range(len(seqs)), key=lambda i: len(per[i] & remaining))
            if not (per[best] & remaining):
                break
            chosen.append(best)
            remaining -= per[best]
        return [tuple(t for t in seqs[i] if t[0] != "EOL") for i in dict.fromkeys(chosen)]


# ------------------------------------------------------------------------------------------------------
# parser side: abstract run of a parser routine over a token list
# ------------------------------------------------------------------------------------------------------
NAMEISH = {"TEXT", "W"}


class ParserSim:
    def __init__(self, lang, wm, max_depth=8):
        self.L = lang
        self.F = lang.F
        self.wm = wm
        self.max_depth = max_depth
        self.memo = {}
        self.budget = 0
        self.fail_note = None
        self.parser_by_payload = {}
        for f in self.F.fns.values():
            if f.id.startswith("lef21::read::") and "LefParser" in f.name and f.kind != "Closure":
                self.parser_by_payload.setdefault(self.payload_s(f), []).append(f)

    @staticmethod
    def payload_s(f):
        o = f.output or {}
        if o.get("k") == "adt" and o["id"].endswith("result::Result") and o.get("args"):
            return o["args"][0]["s"]
        return o.get("s", "")

    def tok(self, toks, pos):
        return toks[pos] if pos < len(toks) else None

    # --- token class tests
    def can_be(self, tk, want):
        """can abstract token tk be read as `want` ('NAME','NUM','STR','SEMI', ('K',w), ('E',ty))"""
        if tk is None:
            return False
        k = tk[0]
        if k == "BAD":
            # the lexer produces a Name token with unexpected text
            return want == "NAME"
        if want == "SEMI":
            return k == "SEMI"
        if want == "NUM":
            return k in ("NUM", "TEXT")
        if want == "STR":
            return k in ("STR", "TEXT")
        if want == "NAME":
            return k in ("TEXT", "W", "K", "E")
        if isinstance(want, tuple) and want[0] == "K":
            return (k == "K" and tk[1] == want[1]) or (k == "W" and tk[1].upper() == want[1]) or k == "TEXT"
        if isinstance(want, tuple) and want[0] == "E":
            if k == "E":
                return tk[1] == want[1] or bool(self.L.enum_words.get(tk[1], set()) & self.L.enum_words.get(want[1], set()))
            if k in ("K", "W"):
                return tk[1].upper() in self.L.enum_words.get(want[1], set())
            return k == "TEXT"
        return False

    def run(self, fn, toks, pos=0, depth=0):
        """set of positions at which `fn` can return Ok when started at toks[pos:]"""
        toks = tuple(toks)
        key = (fn.id, toks, pos)
        if key in self.memo:
            return self.memo[key]
        self.memo[key] = set()
        if depth > self.max_depth:
            return {(p, toks) for p in range(pos, len(toks) + 1)}  # give up: accept anything (never a false alarm)
        F = self.F
        L = self.L
        sim = self
        results = set()
        w = Walker(fn, max_visits=60, follow_errors=False, max_paths=4000)
        START = Path()
        START.facts[("pos",)] = pos
        START.facts[("toks",)] = toks

        def cur(path):
            return path.facts[("pos",)], path.facts[("toks",)]

        def ok(payload=("const", "()", None)):
            return ("value", ("agg", "core::result::Result::Ok", (payload,)))

        def expand_nt(path):
            """if the cursor is on a nested-writer token, replace it by that writer's own token sequences"""
            p, tk = cur(path)
            t = sim.tok(tk, p)
            if t is None or t[0] != "NT":
                return None
            g = F.fns[t[1]]
            alts = sim.wm.paths(g)
            return [tk[:p] + tuple(a) + tk[p + 1:] for a in alts[:400]]

        def consume(path, want, bb, term):
            """advance over one token that can be `want`; handles WILD and nested-writer expansion by forking"""
            p, tk = cur(path)
            t = sim.tok(tk, p)
            if t is None:
                return ("stop",)
            if t[0] == "NT":
                alts = expand_nt(path)
                forks = []
                for a in alts:
                    forks.append((("toks",), a))
                return ("fork_tokens", forks)
            if t[0] == "WILD":
                # either the wildcard stands for (at least) this token, or it is exhausted
                return ("fork_wild",)
            if sim.can_be(t, want):
                path.facts[("pos",)] = p + 1
                return ("ok", t)
            return ("stop",)

        pending = []  # (bb-after-call continuation handled by re-running walker from a synthetic state) — not needed

        def on_call(path, bb, t, name, args):
            sim.budget += 1
            n = name or ""
            cid = callee_id(t)
            g = F.fns.get(cid)
            short = g.short.split("::")[-1] if g is not None else ""
            is_parser = g is not None and g.id.startswith("lef21::read::") and "LefParser" in g.name
            if n.endswith("Try>::branch") and args and args[0][0] == "agg" and str(args[0][1]).endswith("Result::Ok"):
                return ("value", ("agg", "core::ops::ControlFlow::Continue", args[0][2]))
            if n.endswith("Try>::branch") and args and args[0][0] == "agg" and str(args[0][1]).endswith("Result::Err"):
                return ("stop",)
            if not is_parser:
                # Vec::push, builder setters, clone ... : opaque
                if g is not None and od.always_err(F, g.id):
                    return ("stop",)
                return None
            p, tk = cur(path)
            tcur = sim.tok(tk, p)

            def handle(want, payload_fn=None):
                r = consume(path, want, bb, t)
                if r[0] == "ok":
                    return ok(payload_fn(r[1]) if payload_fn else ("tok", r[1]))
                if r[0] == "stop":
                    sim.note_fail(fn, path, want)
                    return ("stop",)
                return r
            if short in ("fail", "fail_msg", "state"):
                return ("stop",)
            if short == "txt":
                return ("value", ("toktext", args[1] if len(args) > 1 else None))
            if short == "expect" and len(args) == 2:
                tt = strip_calls(args[1])
                want = {"SemiColon": "SEMI", "Name": "NAME", "Number": "NUM", "StringLiteral": "STR"}.get(str(tt[1]).split("::")[-1] if tt and tt[0] == "agg" else "", None)
                if want is None:
                    return None
                return handle(want)
            if short in ("get_name", "parse_ident", "expect_ident"):
                return handle("NAME")
            if short == "expect_and_get_str" and len(args) == 2:
                tt = strip_calls(args[1])
                want = {"SemiColon": "SEMI", "Name": "NAME", "Number": "NUM", "StringLiteral": "STR"}.get(str(tt[1]).split("::")[-1] if tt and tt[0] == "agg" else "", "NAME")
                return handle(want)
            if short == "parse_number":
                return handle("NUM")
            if short == "parse_enum":
                c = op_const(t["f"]) or {}
                ga = [x for x in (c.get("rargs") or c.get("gargs") or []) if not x.startswith("'")]
                ety = None
                for eid in L.enum_words:
                    if ga and eid.split("::")[-1] == ga[-1].split("::")[-1]:
                        ety = eid
                if ety is None:
                    return handle("NAME")

                def pay(tok_, ety=ety):
                    # the enum value: known when the token is a literal word of that enum
                    if tok_[0] in ("K", "W"):
                        for vname, s_ in sim.enum_variants(ety).items():
                            if s_ == tok_[1].upper():
                                return ("agg", "%s::%s" % (ety, vname), ())
                    return ("op", "enumval", ())
                return handle(("E", ety), pay)
            if short == "expect_key" and len(args) == 2:
                kt = strip_calls(args[1])
                kw = L.key_str.get(str(kt[1]).split("::")[-1]) if kt and kt[0] == "agg" else None
                if kw is None:
                    return handle("NAME")
                return handle(("K", kw))
            if short == "peek_key" and tcur is not None and tcur[0] == "NT":
                # peeking at a nested writer's output: all its sequences start with the same keyword -> no expansion
                firsts = {a[0] for a in sim.wm.paths(F.fns[tcur[1]]) if a}
                if len(firsts) == 1 and list(firsts)[0][0] == "K" and all(a for a in sim.wm.paths(F.fns[tcur[1]])):
                    return ok(("agg", "%s::%s" % (KEY, L.str_key[list(firsts)[0][1]]), ()))
            if short in ("peek_key", "get_key"):
                # the key value decides the following match: fork over the keys the token can be
                if tcur is None:
                    return ("stop",)
                if tcur[0] == "NT":
                    return ("fork_tokens", [((("toks",), a)) for a in expand_nt(path)])
                if tcur[0] == "WILD":
                    return ("fork_wild",)
                cands = []
                if tcur[0] == "K":
                    cands = [tcur[1]]
                elif tcur[0] == "W" and tcur[1].upper() in L.str_key:
                    cands = [tcur[1].upper()]
                elif tcur[0] == "TEXT":
                    cands = None  # unknown key: any arm
                elif tcur[0] == "E" and sim.enum_variants(tcur[1]) and all(w_.upper() in L.str_key for w_ in sim.enum_variants(tcur[1]).values()):
                    # a displayed enum value whose every spelling is also a keyword (PROPERTYDEFINITIONS' object types):
                    # one run per spelling
                    return ("fork_tokens", [((("toks",), tk[:p] + (("K", w_.upper()),) + tk[p + 1:])) for w_ in sorted(set(sim.enum_variants(tcur[1]).values()))])
                else:
                    sim.note_fail(fn, path, "a keyword")
                    return ("stop",)
                if short == "get_key":
                    path.facts[("pos",)] = p + 1
                if cands is None:
                    return ok(("op", "anykey", ()))
                return ok(("agg", "%s::%s" % (KEY, L.str_key[cands[0]]), ()))
            if short == "advance":
                if tcur is None:
                    return ok()
                if tcur[0] == "NT":
                    return ("fork_tokens", [((("toks",), a)) for a in expand_nt(path)])
                if tcur[0] == "WILD":
                    return ("fork_wild",)
                path.facts[("pos",)] = p + 1
                return ok()
            if short == "next_token":
                if tcur is None:
                    return ok(("agg", "core::option::Option::None", ()))
                if tcur[0] == "NT":
                    return ("fork_tokens", [((("toks",), a)) for a in expand_nt(path)])
                if tcur[0] == "WILD":
                    return ("fork_wild",)
                path.facts[("pos",)] = p + 1
                return ok(("agg", "core::option::Option::Some", (("tokval", tcur),)))
            if short == "peek_token":
                if tcur is None:
                    return ("value", ("agg", "core::option::Option::None", ()))
                if tcur[0] == "NT":
                    return ("fork_tokens", [((("toks",), a)) for a in expand_nt(path)])
                if tcur[0] == "WILD":
                    return ("fork_wild",)
                return ("value", ("agg", "core::option::Option::Some", (("tokval", tcur),)))
            if short == "matches" and len(args) == 2:
                tt = strip_calls(args[1])
                want = {"SemiColon": "SEMI", "Name": "NAME", "Number": "NUM", "StringLiteral": "STR"}.get(str(tt[1]).split("::")[-1] if tt and tt[0] == "agg" else "", None)
                if tcur is None:
                    return ("value", ("const", "false", 0))
                if tcur[0] == "NT":
                    return ("fork_tokens", [((("toks",), a)) for a in expand_nt(path)])
                if tcur[0] == "WILD":
                    return ("fork_wild",)
                if want is None:
                    return None
                # TEXT can be anything but a semicolon (names / numbers / strings carry no ';')
                if tcur[0] == "TEXT":
                    return ("value", ("const", "false", 0)) if want == "SEMI" else None
                if tcur[0] == "BAD":
                    return ("value", ("const", "true" if want == "NAME" else "false", 1 if want == "NAME" else 0))
                exact = {"SEMI": tcur[0] == "SEMI", "NUM": tcur[0] == "NUM", "STR": tcur[0] == "STR", "NAME": tcur[0] in ("K", "W", "E")}[want]
                return ("value", ("const", "true" if exact else "false", 1 if exact else 0))
            # a nested construct parser
            pay = sim.payload_s(g)
            if tcur is not None and tcur[0] == "NT":
                wg = F.fns[tcur[1]]
                wpt = writer_param_type(wg)
                if wpt is not None and (wpt.get("s") == pay or pay.endswith(wpt.get("s", "\x00"))):
                    path.facts[("pos",)] = p + 1
                    return ok(("op", "nested", ()))
            ends = sim.run(g, tk, p, depth + 1)
            if not ends:
                return ("stop",)
            ends = sorted(ends)
            return ("fork_pos", ends)

        def on_return(path):
            ret = path.env.get(0)
            if ret and ret[0] == "agg" and str(ret[1]).endswith("::Err"):
                return
            p, tk = cur(path)
            results.add((p, tk))

        self._drive(w, fn, START, on_call, on_return)
        # results may carry expanded token lists; report positions relative to each list: callers need both
        self.memo[key] = results
        return results

    def note_fail(self, fn, path, want):
        p, tk = path.facts[("pos",)], path.facts[("toks",)]
        # keep the failure that got furthest
        if self.fail_note is None or p >= self.fail_note[0]:
            self.fail_note = (p, fn.short, want, tk[max(0, p - 4):p + 3], self.tok(tk, p))

    def enum_variants(self, ety):
        cache = self.__dict__.setdefault("_ev", {})
        if ety in cache:
            return cache[ety]
        res = {}
        for f in self.F.fns.values():
            if f.trait_item and f.trait_item.endswith("enumstr::EnumStr::to_str") and f.self_ty and f.self_ty.get("id") == ety:
                w = Walker(f, max_visits=1)

                def on_return(path, res=res):
                    v = None
                    for k, fv in path.facts.items():
                        if k[0] == "discr" and fv[0] == "=":
                            v = self.F.variant_of(ety, fv[1])
                    ret = path.env.get(0)
                    if v and ret and ret[0] == "const":
                        res[v] = ret[1]
                w.run(on_return=on_return)
        cache[ety] = res
        return res

    def _drive(self, w, fn, start, on_call, on_return):
        """run the walker, implementing the fork requests of on_call by re-entering at the call block"""
        F = self.F
        b = w.b

        def wrapped_on_call(path, bb, t, name, args):
            r = on_call(path, bb, t, name, args)
            if r is None or r[0] in ("value", "stop"):
                return r
            if r[0] == "fork_pos":
                ends = r[1]
                # ends are (pos, toks) pairs
                first = True
                for (p2, tk2) in ends[1:]:
                    p = path.fork()
                    p.facts[("pos",)] = p2
                    p.facts[("toks",)] = tk2
                    p.env[t["dest"]["l"]] = ("agg", "core::result::Result::Ok", (("op", "nested", ()),))
                    extra.append((t["t"], p))
                p2, tk2 = ends[0]
                path.facts[("pos",)] = p2
                path.facts[("toks",)] = tk2
                return ("value", ("agg", "core::result::Result::Ok", (("op", "nested", ()),)))
            if r[0] == "fork_tokens":
                alts = r[1]
                if not alts:
                    return ("stop",)
                for (_k, a) in alts[1:]:
                    p = path.fork()
                    p.facts[("toks",)] = a
                    # redo this call in the fork: re-enter at this block
                    p.visits[bb] = p.visits.get(bb, 1) - 1
                    extra.append((bb, p))
                path.facts[("toks",)] = alts[0][1]
                return wrapped_on_call(path, bb, t, name, args)
            if r[0] == "fork_wild":
                pth, tk = path.facts[("pos",)], path.facts[("toks",)]
                # alternative 1: the wildcard is exhausted -> drop it and retry
                p = path.fork()
                p.facts[("toks",)] = tk[:pth] + tk[pth + 1:]
                p.visits[bb] = p.visits.get(bb, 1) - 1
                extra.append((bb, p))
                # alternative 2: the wildcard supplies one TEXT token here (and remains, with a smaller budget)
                left = tk[pth][1] if len(tk[pth]) > 1 else 5
                if left <= 0:
                    return ("stop",)
                path.facts[("toks",)] = tk[:pth] + (("TEXT",), ("WILD", left - 1)) + tk[pth + 1:]
                return wrapped_on_call(path, bb, t, name, args)
            return r

        extra = []
        seen_states = set()
        F_enums = self.F

        on_switch = agg_switch(self.F)
        w.run(start=0, init=start, on_call=wrapped_on_call, on_return=on_return, on_switch=on_switch)
        guard = 0
        while extra and guard < 3000:
            guard += 1
            bb, p = extra.pop()
            st = (bb, p.facts.get(("pos",)), p.facts.get(("toks",)), tuple(sorted(p.visits.items())))
            if st in seen_states:
                continue
            seen_states.add(st)
            w.run(start=bb, init=p, on_call=wrapped_on_call, on_return=on_return, on_switch=on_switch)
        if w.truncated or guard >= 3000:
            self.__dict__.setdefault("truncated", set()).add(fn.id)
