//! C12: from_instance(loc, reflect, angle) must equal cascade(translate, cascade(rotate, reflect)).
use layout21raw::*;
fn main() {
    let p = Point::new(1, 2);
    let t1 = Transform::from_instance(&Point::new(10, 20), true, Some(90.));
    let t2 = Transform::cascade(&Transform::translate(10., 20.), &Transform::cascade(&Transform::rotate(90.), &Transform::reflect_vert()));
    let (a, b) = (p.transform(&t1), p.transform(&t2));
    println!("from_instance -> {:?}; composed -> {:?}; RESULT {}", a, b, if a == b { "equal" } else { "DIFFERENT" });
}
