//! C17/C06: a GDSII library whose structure references itself (or an undefined structure) must import as Err.
use gds21::*;
fn main() {
    let which = std::env::args().nth(1).unwrap_or("cycle".into());
    let mut lib = GdsLibrary::new("lib");
    let mut a = GdsStruct::new("a");
    let target = if which == "cycle" { "a" } else { "undefined" };
    a.elems.push(GdsElement::GdsStructRef(GdsStructRef { name: target.into(), xy: GdsPoint::new(0, 0), strans: None, elflags: None, plex: None, properties: vec![] }));
    lib.structs.push(a);
    match layout21raw::Library::from_gds(&lib, None) {
        Ok(_) => println!("RESULT ok (unexpected)"),
        Err(e) => println!("RESULT err: {:?}", e),
    }
}
