//! C14: instance rotation must survive raw -> proto -> raw; a Units::Pico library must export as Err, not panic.
use layout21raw::*;
use layout21utils::Ptr;
fn main() {
    let which = std::env::args().nth(1).unwrap_or("angle".into());
    if which == "pico" {
        let lib = Library::new("lib", Units::Pico);
        println!("RESULT {:?}", lib.to_proto().map(|_| ()));
        return;
    }
    let mut lib = Library::new("lib", Units::Nano);
    let a = lib.cells.insert(Layout { name: "a".into(), insts: vec![], elems: vec![], annotations: vec![] });
    let b = Layout { name: "b".into(), insts: vec![Instance { inst_name: "i".into(), cell: Ptr::clone(&a), loc: Point::new(1, 2), reflect_vert: true, angle: Some(90.) }], elems: vec![], annotations: vec![] };
    lib.cells.insert(b);
    let p = lib.to_proto().unwrap();
    let back = Library::from_proto(p, None).unwrap();
    let cell = back.cells[1].read().unwrap();
    let inst = &cell.layout.as_ref().unwrap().insts[0];
    println!("angle {:?} RESULT {}", inst.angle, if inst.angle == Some(90.) { "preserved" } else { "LOST" });
}
