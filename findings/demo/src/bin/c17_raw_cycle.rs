//! C17/C14: a raw library with a cell instantiating itself must fail to export, not overflow the stack.
use layout21raw::*;
use layout21utils::Ptr;
fn main() {
    let mut lib = Library::new("lib", Units::Nano);
    let cell: Cell = Layout { name: "a".into(), insts: vec![], elems: vec![], annotations: vec![] }.into();
    let ptr = lib.cells.insert(cell);
    {
        let mut c = ptr.write().unwrap();
        c.layout.as_mut().unwrap().insts.push(Instance { inst_name: "i".into(), cell: Ptr::clone(&ptr), loc: Point::new(0, 0), reflect_vert: false, angle: None });
    }
    match lib.to_proto() {
        Ok(_) => println!("RESULT ok (unexpected)"),
        Err(e) => println!("RESULT err: {:?}", e),
    }
}
