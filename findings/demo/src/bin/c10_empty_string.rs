//! C01/C10: a library whose name is the empty string must write and read back (zero-length LIBNAME record).
use gds21::*;
fn main() {
    let lib = GdsLibrary::new("");
    let mut bytes: Vec<u8> = Vec::new();
    lib.write(&mut bytes).unwrap();
    let back = GdsLibrary::from_bytes(&bytes);
    println!("RESULT {:?}", back.map(|l| l.name == lib.name));
}
