//! C16: a macro `SIZE 1.50 BY 2` must import with outline 15000 x 20000 (angstroms), x and y distinct, whatever the decimals.
//! C04: `DATABASE MICRONS 100.0` must be read as 100 dbu per micron.
use lef21::*;
fn parse(src: &str) -> LefResult<LefLibrary> {
    let p = std::env::temp_dir().join(format!("l21demo_{}.lef", std::process::id()));
    std::fs::write(&p, src).unwrap();
    let r = LefLibrary::open(&p);
    let _ = std::fs::remove_file(&p);
    r
}
fn main() {
    let src = r#"VERSION 5.8 ; MACRO m SIZE 1.50 BY 2 ; END m END LIBRARY"#;
    let lib = parse(src).unwrap();
    let raw = layout21raw::lef::LefImporter::import(&lib, None).unwrap();
    let cell = raw.cells[0].read().unwrap();
    let abs = cell.abs.as_ref().unwrap();
    println!("outline {:?} RESULT {}", abs.outline.points, if abs.outline.points[2] == layout21raw::Point::new(15000, 20000) { "ok" } else { "WRONG" });
    let src2 = r#"VERSION 5.8 ; UNITS DATABASE MICRONS 100.0 ; END UNITS END LIBRARY"#;
    match parse(src2) {
        Ok(l) => println!("units {:?} RESULT {}", l.units.as_ref().unwrap().database_microns, if l.units.as_ref().unwrap().database_microns == Some(LefDbuPerMicron(100)) { "ok" } else { "WRONG" }),
        Err(e) => println!("units RESULT err {:?}", e),
    }
}
