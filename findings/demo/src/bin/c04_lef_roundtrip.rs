//! C04/C05: PROPERTY statements must be read; a library with SITE / PROPERTY must survive write + read.
use lef21::*;
fn parse(src: &str) -> LefResult<LefLibrary> {
    let p = std::env::temp_dir().join(format!("l21demo_{}.lef", std::process::id()));
    std::fs::write(&p, src).unwrap();
    let r = LefLibrary::open(&p);
    let _ = std::fs::remove_file(&p);
    r
}
fn main() {
    let which = std::env::args().nth(1).unwrap_or_default();
    let src = match which.as_str() {
        "property" => "VERSION 5.8 ;\nMACRO m\n PROPERTY p 1 ;\n PIN a PROPERTY q 2 ; END a\nEND m\nEND LIBRARY\n",
        "site" => "VERSION 5.8 ;\nSITE core CLASS CORE ; SIZE 1 BY 2 ; END core\nEND LIBRARY\n",
        "iterate_path" => "VERSION 5.8 ;\nMACRO m\n OBS\n  LAYER m1 ;\n  PATH ITERATE 0 0 1 0 DO 2 BY 1 STEP 1 1 ;\n  POLYGON ITERATE 0 0 1 0 1 1 DO 2 BY 1 STEP 3 3 ;\n END\nEND m\nEND LIBRARY\n",
        "nowire" => "VERSION 5.8 ;\nNOWIREEXTENSIONATPIN ON ;\nEND LIBRARY\n",
        _ => panic!("mode?"),
    };
    let lib = match parse(src) {
        Ok(l) => l,
        Err(e) => {
            println!("{} RESULT read error {}", which, format!("{:?}", e).chars().take(160).collect::<String>());
            return;
        }
    };
    if which == "property" {
        println!("read: macro props {:?}, pin props {:?}", lib.macros[0].properties, lib.macros[0].pins[0].properties);
    }
    match lib.to_string() {
        Err(e) => println!("{} RESULT write error {:?}", which, e),
        Ok(txt) => match parse(&txt) {
            Ok(back) => println!("{} RESULT {}", which, if back == lib && (which != "property" || !lib.macros[0].properties.is_empty()) { "roundtrip ok" } else { "DIFFERENT or property dropped" }),
            Err(e) => println!("{} RESULT re-read error {}", which, format!("{:?}", e).chars().take(100).collect::<String>()),
        },
    }
}
