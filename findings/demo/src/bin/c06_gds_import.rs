//! C06: malformed / unusual GDSII must import as Err or correctly — never panic or silently drop.
use gds21::*;
fn lib_with(elems: Vec<GdsElement>) -> GdsLibrary {
    let mut lib = GdsLibrary::new("lib");
    lib.structs.push(GdsStruct::new("child"));
    let mut top = GdsStruct::new("top");
    top.elems = elems;
    lib.structs.push(top);
    lib
}
fn aref(cols: i16, rows: i16, xy: [(i32, i32); 3], strans: Option<GdsStrans>) -> GdsElement {
    GdsElement::GdsArrayRef(GdsArrayRef { name: "child".into(), xy: [GdsPoint::new(xy[0].0, xy[0].1), GdsPoint::new(xy[1].0, xy[1].1), GdsPoint::new(xy[2].0, xy[2].1)], cols, rows, strans, elflags: None, plex: None, properties: vec![] })
}
fn main() {
    let which = std::env::args().nth(1).unwrap_or_default();
    let lib = match which.as_str() {
        "empty_boundary" => lib_with(vec![GdsElement::GdsBoundary(GdsBoundary { layer: 1, datatype: 0, xy: vec![], ..Default::default() })]),
        "zero_cols" => lib_with(vec![aref(0, 1, [(0, 0), (10, 0), (0, 10)], None)]),
        "big_array" => lib_with(vec![aref(200, 200, [(0, 0), (2000, 0), (0, 2000)], None)]),
        "nonrect_array" => lib_with(vec![aref(2, 2, [(0, 0), (10, 10), (0, 10)], None)]),
        "rot_array" => lib_with(vec![aref(1, 1, [(0, 0), (10, 0), (0, 10)], Some(GdsStrans { angle: Some(90.), ..Default::default() }))]),
        "mag_sref" => lib_with(vec![GdsElement::GdsStructRef(GdsStructRef { name: "child".into(), xy: GdsPoint::new(0, 0), strans: Some(GdsStrans { mag: Some(2.0), ..Default::default() }), elflags: None, plex: None, properties: vec![] })]),
        "neg_width_path" => lib_with(vec![
            GdsElement::GdsPath(GdsPath { layer: 1, datatype: 0, xy: vec![GdsPoint::new(0, 0), GdsPoint::new(10, 0)], width: Some(-4), ..Default::default() }),
            GdsElement::GdsTextElem(GdsTextElem { string: "n".into(), layer: 1, texttype: 0, xy: GdsPoint::new(5, 0), ..Default::default() })]),
        "diag_path" => lib_with(vec![
            GdsElement::GdsPath(GdsPath { layer: 1, datatype: 0, xy: vec![GdsPoint::new(0, 0), GdsPoint::new(10, 10)], width: Some(4), ..Default::default() }),
            GdsElement::GdsTextElem(GdsTextElem { string: "n".into(), layer: 1, texttype: 0, xy: GdsPoint::new(5, 5), ..Default::default() })]),
        _ => panic!("mode?"),
    };
    match layout21raw::Library::from_gds(&lib, None) {
        Err(e) => println!("{} RESULT err: {}", which, format!("{:?}", e).lines().nth(1).unwrap_or("").trim()),
        Ok(raw) => {
            let top = raw.cells.iter().map(|c| c.read().unwrap().clone()).find(|c| c.name == "top").unwrap();
            let lay = top.layout.unwrap();
            println!("{} RESULT ok: {} insts, first angle {:?}", which, lay.insts.len(), lay.insts.get(0).map(|i| i.angle));
        }
    }
}
