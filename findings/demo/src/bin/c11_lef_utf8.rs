//! C11/C04: non-ASCII text must never panic the LEF reader, and must not shift later tokens.
use lef21::*;
fn parse(src: &str) -> LefResult<LefLibrary> {
    let p = std::env::temp_dir().join(format!("l21demo_{}.lef", std::process::id()));
    std::fs::write(&p, src).unwrap();
    let r = LefLibrary::open(&p);
    let _ = std::fs::remove_file(&p);
    r
}
fn main() {
    let which = std::env::args().nth(1).unwrap_or_default();
    let src = match which.as_str() {
        "single" => "é".to_string(),
        "comment" => "# é comment\nVERSION 5.8 ;\nMACRO abc END abc\nEND LIBRARY\n".to_string(),
        "error_line" => "VERSION 5.8 ;\nMACRO ñandú ÿ ;\n".to_string(),
        _ => panic!("mode?"),
    };
    match parse(&src) {
        Ok(l) => println!("{} RESULT ok version={:?} macros={:?}", which, l.version, l.macros.iter().map(|m| m.name.clone()).collect::<Vec<_>>()),
        Err(e) => println!("{} RESULT err {}", which, format!("{:?}", e).chars().take(80).collect::<String>()),
    }
}
