//! C18: a double must survive GdsLibrary -> JSON -> GdsLibrary bit-identically.
use gds21::*;
use layout21utils::SerializationFormat::Json;
fn main() {
    let mut lib = GdsLibrary::new("lib");
    let x = 3.0261999441573203e-52_f64;
    lib.units = GdsUnits::new(x, 1e-9);
    let s = Json.to_string(&lib).unwrap();
    let back: GdsLibrary = Json.from_str(&s).unwrap();
    let y = back.units.0;
    println!("in={:e} out={:e} RESULT {}", x, y, if x.to_bits() == y.to_bits() { "identical" } else { "CHANGED" });
}
