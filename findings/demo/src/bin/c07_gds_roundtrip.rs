//! C07: an open path must stay open through raw -> GDSII -> raw; a Pico library must survive too.
use layout21raw::*;
fn main() {
    let which = std::env::args().nth(1).unwrap_or("path".into());
    let units = if which == "pico" { Units::Pico } else { Units::Nano };
    let mut lib = Library::new("lib", units);
    let layers = lib.layers.clone();
    let (layer, purpose) = layers.write().unwrap().get_or_insert(1, 0).unwrap();
    let path = Shape::Path(Path { points: vec![Point::new(0, 0), Point::new(100, 0), Point::new(100, 50)], width: 10 });
    lib.cells.insert(Layout { name: "a".into(), insts: vec![], elems: vec![Element { net: None, layer, purpose, inner: path.clone() }], annotations: vec![] });
    let gds = lib.to_gds().unwrap();
    match Library::from_gds(&gds, None) {
        Err(e) => println!("RESULT import error: {:?}", e),
        Ok(back) => {
            let cell = back.cells[0].read().unwrap();
            let got = &cell.layout.as_ref().unwrap().elems[0].inner;
            println!("units {:?} shape {:?} RESULT {}", back.units, got, if *got == path && back.units == units { "same" } else { "CHANGED" });
        }
    }
}
